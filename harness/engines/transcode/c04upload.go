package transcode

import (
	"fmt"
	"math/rand"
	"strings"

	"verif/internal/mon"
)

// The request-content-type lane of C04.
//
// The Accept tables of RunC04 send request bodies in a registered codec type
// (or none). But the request's Content-Type is a dimension of its own: larking
// uses it as the fallback of the negotiation, and a request may legitimately
// carry a media type NO codec is registered for - a google.api.HttpBody upload
// (body: "*" on an HttpBody request, body: "<field>" on an HttpBody field; the
// client chooses the media type of the file) or a body-less request with a
// stray Content-Type. Such methods answer with an ordinary message, and the
// property's sentence about the response type applies unchanged: whenever a
// registered codec satisfies the Accept header the reply is delivered in an
// admitted registered type and decodes with it - also when the Accept header
// admits the request's own (unregistered) type as well, at a higher, equal or
// lower weight, through */*, type/* or by name.
//
// The lane makes NO claim where no registered type is admitted with q>0 (or
// the header is absent / outside the evaluated grammar) and the request's type
// is not a codec: the property's fallback ("the request's own content type")
// names no codec there. What larking does in those cells is counted only.

// uploadRules: unary methods whose request body is raw (HttpBody) or absent
// and whose reply is an ordinary message.
var uploadRules = []RuleSpec{
	{ID: "up:field-upload", In: "vf.Upload", Out: "vf.Rsp", Verb: "POST", Tmpl: "/c4u/f1/{name}", Body: "file"},
	{ID: "up:field-upload-put", In: "vf.Upload", Out: "vf.Req", Verb: "PUT", Tmpl: "/c4u/f2/{name}", Body: "file"},
	{ID: "up:field-upload-response_body", In: "vf.Upload", Out: "vf.Rsp", Verb: "POST", Tmpl: "/c4u/f3/{name}", Body: "file", Resp: "echo"},
	{ID: "up:field-upload-wkt-reply", In: "vf.Upload", Out: "google.protobuf.StringValue", Verb: "POST", Tmpl: "/c4u/f4/{name}", Body: "file"},
	{ID: "up:whole-body-upload", In: "google.api.HttpBody", Out: "vf.Rsp", Verb: "POST", Tmpl: "/c4u/raw", Body: "*"},
	{ID: "up:nested-field-upload", In: "vf.Rsp", Out: "vf.Req", Verb: "PATCH", Tmpl: "/c4u/n/{tag}", Body: "body"},
	{ID: "up:no-body-get", In: "vf.Req", Out: "vf.Rsp", Verb: "GET", Tmpl: "/c4u/g/{a}"},
	{ID: "up:no-body-delete", In: "vf.Req", Out: "vf.Req", Verb: "DELETE", Tmpl: "/c4u/d/{a}"},
}

// uploadTypes: request Content-Types no mux of the harness registers a codec
// for (bare, with parameters, structured-syntax suffixes, other top-level
// types), plus the registered ones as control cells of the same tables.
var uploadTypes = []string{
	"text/csv", "image/png", "text/plain", "text/plain; charset=utf-8", "application/pdf", "application/xml", "application/x-www-form-urlencoded",
	"multipart/form-data; boundary=xyz", "application/vnd.api+json", "video/mp4", "font/woff2", "application/json; charset=utf-8", "x/y",
	"application/json", "application/octet-stream", "application/protobuf",
}

// bareType strips parameters: "text/plain; charset=utf-8" -> "text/plain".
func bareType(ct string) string {
	t, _, _ := strings.Cut(ct, ";")
	return strings.ToLower(trimOWS(t))
}

// uploadAccepts is the negotiation table for a request whose own media type
// is own (type/subtype), on a mux with the registered universe u: every way
// an Accept header can admit the request's own type next to registered ones.
func uploadAccepts(own string, u []string, k int) [][]string {
	t, _, _ := strings.Cut(own, "/")
	r1 := u[k%len(u)]
	r2 := u[(k+1)%len(u)]
	var allEx []string
	for _, x := range u {
		allEx = append(allEx, x+";q=0")
	}
	return [][]string{
		nil,
		{"*/*"}, {t + "/*"}, {own}, {r1}, {"application/*"},
		{own + ", " + r1}, {r1 + ", " + own}, {own + ", " + r1 + ";q=0.5"}, {own + ";q=0.5, " + r1}, {own + ";q=0.9, " + r2 + ";q=0.9"},
		{r1 + ";q=0.9, */*"}, {r2 + ";q=0.5, " + t + "/*"}, {"*/*;q=0.1, " + r1 + ";q=0.1"}, {t + "/*, " + r1}, {t + "/*;q=0.3, " + r2 + ";q=0.3"},
		{own + ", */*;q=0.1"}, {own + ", application/*;q=0.2"}, {own + ";q=1.000, " + r1 + ";q=0.001"},
		{"*/*, " + own + ";q=0"}, {own + ";q=0, */*"}, {own + ";q=0, " + t + "/*"},
		{own, r1 + ";q=0.8"}, {"*/*", own}, {r2, t + "/*"},
		{strings.Join(append(append([]string(nil), allEx...), "*/*"), ", ")}, {strings.Join(append(append([]string(nil), allEx...), own), ", ")},
		{r1 + ";q=0, " + own + ", " + r2 + ";q=0.2"},
	}
}

// randUploadAccept: 1-4 ranges over the request's own type, its type/*, */*,
// the registered types, application/* and an unrelated type; the q pool and
// separators of randAccept; sometimes split over two header lines.
func randUploadAccept(rng *rand.Rand, own string, u []string) []string {
	t, _, _ := strings.Cut(own, "/")
	n := 1 + rng.Intn(4)
	var parts []string
	for i := 0; i < n; i++ {
		var el string
		switch rng.Intn(8) {
		case 0, 1:
			el = own
		case 2:
			el = t + "/*"
		case 3:
			el = "*/*"
		case 4:
			el = "application/*"
		case 5:
			el = "audio/ogg"
		default:
			el = u[rng.Intn(len(u))]
		}
		if q := qPool[rng.Intn(len(qPool))]; q != "" {
			el += semPool[rng.Intn(len(semPool))] + "q=" + q
		}
		parts = append(parts, el)
	}
	if len(parts) > 1 && rng.Intn(4) == 0 {
		k := 1 + rng.Intn(len(parts)-1)
		return []string{strings.Join(parts[:k], sepPool[rng.Intn(len(sepPool))]), strings.Join(parts[k:], sepPool[rng.Intn(len(sepPool))])}
	}
	return []string{strings.Join(parts, sepPool[rng.Intn(len(sepPool))])}
}

// uploadCell is the evaluated relation between the Accept header, the
// request's own media type and the registered universe.
type uploadCell struct {
	evaluated  bool   // header present and inside the evaluated grammar
	obliged    bool   // some registered type is certainly admitted with q>0
	ownVia     string // most specific range matching the request's own type: none, */*, type/*, exact
	ownQ       string // its weight against the best registered weight: excluded, lower, equal, higher, only
	registered bool   // the request's own type is a registered codec type
}

func evalUploadCell(kind, reqCT string, accept []string) uploadCell {
	own := bareType(reqCT)
	c := uploadCell{ownVia: "none", ownQ: "unmatched", registered: isRegistered(kind, reqCT)}
	if len(accept) == 0 {
		return c
	}
	ranges, ok := parseAccept7231(accept)
	if !ok {
		return c
	}
	c.evaluated = true
	best := 0.0
	for _, t := range mediaTypesOf(kind) {
		if m, qmin, _ := admitted(ranges, t); m && qmin > 0 {
			c.obliged = true
			if qmin > best {
				best = qmin
			}
		}
	}
	if m, _, qmax := admitted(ranges, own); m {
		ot, os, _ := strings.Cut(own, "/")
		sp := 0
		for _, rg := range ranges {
			if (rg.typ == ot && rg.sub == os) && sp < 2 {
				sp = 2
			} else if rg.typ == ot && rg.sub == "*" && sp < 1 {
				sp = 1
			}
		}
		c.ownVia = []string{"*/*", "type/*", "exact"}[sp]
		switch {
		case qmax <= 0:
			c.ownQ = "excluded"
		case !c.obliged:
			c.ownQ = "only"
		case qmax > best:
			c.ownQ = "higher"
		case qmax == best:
			c.ownQ = "equal"
		default:
			c.ownQ = "lower"
		}
	}
	return c
}

func uploadBodyClass(rule RuleSpec) string {
	switch {
	case rule.Body == "":
		return "no-body"
	case rule.Body == "*":
		return "httpbody-upload(body=*)"
	}
	return "httpbody-upload(body=field)"
}

func uploadTypeClass(kind, reqCT string) string {
	switch {
	case isRegistered(kind, reqCT):
		return "registered"
	case isRegistered(kind, bareType(reqCT)):
		return "registered+parameter"
	case strings.Contains(reqCT, ";"):
		return "unregistered+parameter"
	case strings.HasPrefix(reqCT, "application/"):
		return "unregistered-application"
	}
	return "unregistered"
}

// execC04Upload applies the C04 oracle to a case of the lane. Only cells with
// an obligation can violate; elsewhere the observation is counted.
func execC04Upload(e *env, c *Case) (o outcome) {
	reqCT := ""
	if v := c.Req.Header["Content-Type"]; len(v) > 0 {
		reqCT = v[0]
	}
	cell := evalUploadCell(e.kind, reqCT, c.Req.Header["Accept"])
	o = execC04Once(e, c, "")
	tc := uploadTypeClass(e.kind, reqCT)
	o.count("upload_lane_requests")
	if !cell.registered {
		o.count("upload_lane_requests_whose_content_type_is_not_a_registered_codec")
	}
	if cell.registered || o.inconcl != "" {
		return o // the ordinary domain of C04: the oracle applies as it is
	}
	panicked := false
	for _, v := range o.viols {
		panicked = panicked || strings.HasPrefix(v.key, "panic@")
	}
	if panicked {
		return o
	}
	if !cell.obliged {
		// no registered type is (certainly) admitted, or no evaluable header:
		// the fallback names a type without codec - no claim
		why := "no_registered_type_admitted"
		if !cell.evaluated {
			why = "accept_absent_or_not_evaluated"
		}
		if len(o.viols) == 0 && o.distinct != "" {
			o.count("upload_lane_no_claim_" + why + ":reply_delivered_in_a_registered_type")
		} else {
			o.count("upload_lane_no_claim_" + why + ":reply_not_delivered")
		}
		o.viols = nil
		o.distinct = "c04|upload|no-claim|" + why + "|" + uploadBodyClass(c.Rule) + "|" + tc
		return o
	}
	o.count("upload_lane_obliged_a_registered_type_is_admitted")
	if cell.ownVia != "none" {
		o.count("upload_lane_obliged_accept_also_matches_the_request_type_via[" + cell.ownVia + "]_weight[" + cell.ownQ + "]")
	}
	if len(o.viols) == 0 {
		o.count("upload_lane_obliged_replies_delivered_in_an_admitted_registered_type")
		return o
	}
	// A failure in an obliged cell. Does it belong to the request's content
	// type? Serve the same request under a registered type.
	c2 := *c
	c2.Req.Header = map[string][]string{}
	for k, v := range c.Req.Header {
		c2.Req.Header[k] = v
	}
	c2.Req.Header["Content-Type"] = []string{"application/json"}
	if c.Rule.Body != "" {
		c2.Req.Header["Content-Type"] = []string{"application/octet-stream"}
	}
	if o2 := execC04Once(e, &c2, ""); len(o2.viols) == 0 && o2.inconcl == "" {
		// the key names the class of the request type and the kind of range
		// that matches it; its weight against the registered types is in the
		// text and in the counters
		cls := "request-content-type-not-a-registered-codec:accept-matches-it-via=" + cell.ownVia
		for i := range o.viols {
			fam := strings.TrimSuffix(keyFamily(o.viols[i].key), ":content-type-not-a-registered-codec")
			o.viols[i].key = fam + ":" + cls
			o.viols[i].what += " [Accept weight of the request's own type against the best registered type: " + cell.ownQ + "]"
			o.viols[i].what += fmt.Sprintf(" - the request's Content-Type %q (%s, %s) names no registered codec, a registered type IS admitted by the Accept header with q>0, and the same request sent as %s is answered correctly",
				reqCT, tc, uploadBodyClass(c.Rule), c2.Req.Header["Content-Type"][0])
		}
	}
	return o
}

// runUploadC04 is the lane.
func runUploadC04(r *mon.Run, g *gen) {
	rng := r.Rand("c04-upload")
	for ki, kind := range []string{"", muxCustom} {
		e, err := buildDynamic(uploadRules, kind)
		if err != nil {
			r.Inconclusive("harness: " + err.Error())
			return
		}
		u := mediaTypesOf(kind)
		var plans []*plan
		for _, rule := range uploadRules {
			p, err := newPlan(rule)
			if err != nil {
				r.Inconclusive("harness: " + err.Error())
				continue
			}
			plans = append(plans, p)
		}
		do := func(p *plan, ct string, acc, ae []string) {
			c, err := g.c04Case(p, kind, ct, acc, ae)
			if err != nil {
				r.Count("generator_rejected_case", 1)
				r.Set("generator_reject_example", p.rule.ID+": "+err.Error())
				return
			}
			c.Kind = "c04-upload"
			c.Handler = ""
			delete(c.Req.Header, "Twirp-Version")
			cell := evalUploadCell(kind, ct, acc)
			c.Class = "upload|" + uploadBodyClass(p.rule) + "|req=" + uploadTypeClass(kind, ct) + "|accept=" + acceptClass(kind, acc) + "|own-via=" + cell.ownVia + "," + cell.ownQ
			if kind != "" {
				c.Class += "|mux=" + kind
			}
			apply(r, c, execCase(e, c))
		}
		// table: rules x request types x the Accept table of that type
		for pi, p := range plans {
			for ti, ct := range uploadTypes {
				tab := uploadAccepts(bareType(ct), u, pi+ti)
				for ai, acc := range tab {
					// quick: the custom-codecs mux and the body-less rules get a third of the table
					if !r.Thorough() && (ki > 0 || p.rule.Body == "") && (ai+pi+ti)%3 != 0 {
						continue
					}
					do(p, ct, acc, acceptEncodingPool[(ai+ti)%len(acceptEncodingPool)])
				}
			}
		}
		// random headers
		n := r.Pick(600, 20000)
		for k := 0; k < n; k++ {
			p := plans[rng.Intn(len(plans))]
			ct := uploadTypes[rng.Intn(len(uploadTypes))]
			do(p, ct, randUploadAccept(rng, bareType(ct), u), acceptEncodingPool[rng.Intn(len(acceptEncodingPool))])
		}
		e.close()
	}
}
