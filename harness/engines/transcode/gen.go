package transcode

import (
	"encoding/json"
	"fmt"
	"math"
	"math/rand"
	"strings"
	"unicode/utf8"

	"google.golang.org/protobuf/encoding/protojson"
	"google.golang.org/protobuf/proto"
	"google.golang.org/protobuf/reflect/protoreflect"
	"google.golang.org/protobuf/types/known/anypb"
	"google.golang.org/protobuf/types/known/durationpb"
	"google.golang.org/protobuf/types/known/emptypb"
	"google.golang.org/protobuf/types/known/structpb"
	"larking.io/api/testpb"

	"verif/internal/vschema"
)

// ------------------------------------------------------------ field classes

func wktName(md protoreflect.MessageDescriptor) string {
	if md == nil {
		return ""
	}
	full := string(md.FullName())
	if strings.HasPrefix(full, "google.protobuf.") {
		return full[len("google.protobuf."):]
	}
	return ""
}

// urlWKT are the well-known types with a scalar proto3-JSON text form that
// may travel in the URL.
var urlWKT = map[string]bool{
	"Timestamp": true, "Duration": true, "FieldMask": true,
	"BoolValue": true, "Int32Value": true, "Int64Value": true, "UInt32Value": true, "UInt64Value": true,
	"FloatValue": true, "DoubleValue": true, "BytesValue": true, "StringValue": true,
}

func isNullEnum(fd protoreflect.FieldDescriptor) bool {
	return fd.Enum() != nil && fd.Enum().FullName() == "google.protobuf.NullValue"
}

// isURLLeaf: the field's value(s) have a URL text form (scalar, enum, bytes,
// lists of those, singular scalar-like well-known type).
func isURLLeaf(fd protoreflect.FieldDescriptor) bool {
	if fd.IsMap() {
		return false
	}
	if fd.Message() != nil {
		return !fd.IsList() && urlWKT[wktName(fd.Message())]
	}
	return !isNullEnum(fd)
}

// isPlainMsg: singular non-well-known message, travels in the URL through
// dotted paths.
func isPlainMsg(fd protoreflect.FieldDescriptor) bool {
	return fd.Message() != nil && !fd.IsList() && !fd.IsMap() && wktName(fd.Message()) == "" && fd.Message().FullName() != "google.api.HttpBody"
}

// isBodyOnly: maps, repeated messages, Struct/Value/ListValue/Any/Empty,
// HttpBody.
func isBodyOnly(fd protoreflect.FieldDescriptor) bool {
	if isNullEnum(fd) {
		return false
	}
	return !isURLLeaf(fd) && !isPlainMsg(fd)
}

func kindClass(fd protoreflect.FieldDescriptor) string {
	var s string
	switch {
	case fd.Message() != nil:
		s = "wkt." + wktName(fd.Message())
	default:
		s = fd.Kind().String()
	}
	if fd.IsList() {
		s += "[]"
	}
	return s
}

// leaf is a URL-expressible field reached through plain message fields.
type leaf struct {
	fds []protoreflect.FieldDescriptor
}

func (l leaf) fd() protoreflect.FieldDescriptor { return l.fds[len(l.fds)-1] }
func (l leaf) path() string                     { return protoPath(l.fds) }

func urlLeaves(md protoreflect.MessageDescriptor, depth int) []leaf {
	var out []leaf
	var walk func(md protoreflect.MessageDescriptor, prefix []protoreflect.FieldDescriptor, d int)
	walk = func(md protoreflect.MessageDescriptor, prefix []protoreflect.FieldDescriptor, d int) {
		fs := md.Fields()
		for i := 0; i < fs.Len(); i++ {
			fd := fs.Get(i)
			p := append(append([]protoreflect.FieldDescriptor(nil), prefix...), fd)
			switch {
			case isURLLeaf(fd):
				out = append(out, leaf{p})
			case isPlainMsg(fd) && d > 0:
				walk(fd.Message(), p, d-1)
			}
		}
	}
	walk(md, nil, depth)
	return out
}

// ------------------------------------------------------------ value tables

var strTable = []string{
	"x", "", "héllo wörld ✓ 日本語 😀", "a b&c=d/e?f#g%h+i;j", `say "hi"`, `a\b`, "null", "true", "123",
	" lead", "trail ", "tab\there\nnl", "\x01ctl\x7f", "%41%zz", "+", `"q"`, strings.Repeat("long-", 60),
	"a,b", "{}", "[1]", "é", "0", "-", "a:b", "2020-01-01T00:00:00Z",
}

var bytesTable = [][]byte{
	{}, {0xfb}, {0xfb, 0xff}, {0xfb, 0xff, 0xfe}, {0, 0, 0, 0}, []byte("hello"), {0xff, 0xff, 0xff, 0xff, 0xff}, allBytes(),
}

func allBytes() []byte {
	b := make([]byte, 256)
	for i := range b {
		b[i] = byte(i)
	}
	return b
}

var (
	i32Table = []int32{1, -1, math.MaxInt32, math.MinInt32, 42, 0, -2147483647}
	i64Table = []int64{1, -1, math.MaxInt64, math.MinInt64, 1 << 53, 1<<53 + 1, -(1 << 53) - 1, 0}
	u32Table = []uint32{1, math.MaxUint32, 1 << 31, 0, 65536}
	u64Table = []uint64{1, math.MaxUint64, 1 << 63, 1<<53 + 1, 0, 1 << 32}
	f64Table = []float64{1.5, math.Copysign(0, -1), math.SmallestNonzeroFloat64, math.MaxFloat64, -math.MaxFloat64, -0.25, 1e21, 1e-7,
		123456789.125, 0.1, 1.0 / 3, 1 << 53, 2.2250738585072014e-308, 0, 1e20, -1}
	f32Table = []float32{1.5, float32(math.Copysign(0, -1)), math.SmallestNonzeroFloat32, math.MaxFloat32, -math.MaxFloat32, 0.1, 16777216,
		1.1754944e-38, 0, -1, 1e21, 3.4e-5}
)

func scalarTable(fd protoreflect.FieldDescriptor) []protoreflect.Value {
	var out []protoreflect.Value
	switch fd.Kind() {
	case protoreflect.BoolKind:
		out = append(out, protoreflect.ValueOfBool(true), protoreflect.ValueOfBool(false))
	case protoreflect.Int32Kind, protoreflect.Sint32Kind, protoreflect.Sfixed32Kind:
		for _, v := range i32Table {
			out = append(out, protoreflect.ValueOfInt32(v))
		}
	case protoreflect.Int64Kind, protoreflect.Sint64Kind, protoreflect.Sfixed64Kind:
		for _, v := range i64Table {
			out = append(out, protoreflect.ValueOfInt64(v))
		}
	case protoreflect.Uint32Kind, protoreflect.Fixed32Kind:
		for _, v := range u32Table {
			out = append(out, protoreflect.ValueOfUint32(v))
		}
	case protoreflect.Uint64Kind, protoreflect.Fixed64Kind:
		for _, v := range u64Table {
			out = append(out, protoreflect.ValueOfUint64(v))
		}
	case protoreflect.FloatKind:
		for _, v := range f32Table {
			out = append(out, protoreflect.ValueOfFloat32(v))
		}
	case protoreflect.DoubleKind:
		for _, v := range f64Table {
			out = append(out, protoreflect.ValueOfFloat64(v))
		}
	case protoreflect.StringKind:
		for _, v := range strTable {
			out = append(out, protoreflect.ValueOfString(v))
		}
	case protoreflect.BytesKind:
		for _, v := range bytesTable {
			out = append(out, protoreflect.ValueOfBytes(append([]byte(nil), v...)))
		}
	case protoreflect.EnumKind:
		vs := fd.Enum().Values()
		for i := 0; i < vs.Len(); i++ {
			out = append(out, protoreflect.ValueOfEnum(vs.Get(i).Number()))
		}
		// proto3 enums are open: numbers without a name travel as numbers
		out = append(out, protoreflect.ValueOfEnum(7), protoreflect.ValueOfEnum(-1))
	}
	return out
}

var randAlphabet = []rune("abcXYZ019 -_.~!$&'()*+,;=@:/?#[]%\"\\{}<>|^`éü日😀\t\n")

func randString(rng *rand.Rand) string {
	n := rng.Intn(12)
	if rng.Intn(20) == 0 {
		n = 200 + rng.Intn(800)
	}
	var sb strings.Builder
	for i := 0; i < n; i++ {
		sb.WriteRune(randAlphabet[rng.Intn(len(randAlphabet))])
	}
	return sb.String()
}

func randBits(rng *rand.Rand) uint64 {
	w := uint(1 + rng.Intn(64))
	v := rng.Uint64()
	if w < 64 {
		v &= (1 << w) - 1
	}
	return v
}

func randScalar(rng *rand.Rand, fd protoreflect.FieldDescriptor) protoreflect.Value {
	switch fd.Kind() {
	case protoreflect.BoolKind:
		return protoreflect.ValueOfBool(rng.Intn(2) == 0)
	case protoreflect.Int32Kind, protoreflect.Sint32Kind, protoreflect.Sfixed32Kind:
		v := int32(uint32(randBits(rng)))
		if rng.Intn(2) == 0 {
			v = -v
		}
		return protoreflect.ValueOfInt32(v)
	case protoreflect.Int64Kind, protoreflect.Sint64Kind, protoreflect.Sfixed64Kind:
		v := int64(randBits(rng))
		if rng.Intn(2) == 0 {
			v = -v
		}
		return protoreflect.ValueOfInt64(v)
	case protoreflect.Uint32Kind, protoreflect.Fixed32Kind:
		return protoreflect.ValueOfUint32(uint32(randBits(rng)))
	case protoreflect.Uint64Kind, protoreflect.Fixed64Kind:
		return protoreflect.ValueOfUint64(randBits(rng))
	case protoreflect.FloatKind:
		for {
			f := math.Float32frombits(rng.Uint32())
			if rng.Intn(2) == 0 {
				f = float32(rng.NormFloat64() * math.Pow(10, float64(rng.Intn(20)-10)))
			}
			if !math.IsNaN(float64(f)) && !math.IsInf(float64(f), 0) {
				return protoreflect.ValueOfFloat32(f)
			}
		}
	case protoreflect.DoubleKind:
		for {
			f := math.Float64frombits(rng.Uint64())
			if rng.Intn(2) == 0 {
				f = rng.NormFloat64() * math.Pow(10, float64(rng.Intn(40)-20))
			}
			if !math.IsNaN(f) && !math.IsInf(f, 0) {
				return protoreflect.ValueOfFloat64(f)
			}
		}
	case protoreflect.StringKind:
		return protoreflect.ValueOfString(randString(rng))
	case protoreflect.BytesKind:
		b := make([]byte, rng.Intn(24))
		rng.Read(b)
		return protoreflect.ValueOfBytes(b)
	case protoreflect.EnumKind:
		vs := fd.Enum().Values()
		if rng.Intn(6) == 0 {
			return protoreflect.ValueOfEnum(protoreflect.EnumNumber(rng.Intn(2000) - 1000))
		}
		return protoreflect.ValueOfEnum(vs.Get(rng.Intn(vs.Len())).Number())
	}
	panic("randScalar: unsupported kind " + fd.Kind().String())
}

// ambiguousQuoted: a text that starts and ends with a double quote can be
// read as the JSON text form itself; such values are kept out of positive
// claims for the kinds larking feeds to a JSON parser.
func ambiguousQuoted(s string) bool {
	return len(s) >= 1 && s[0] == '"' && s[len(s)-1] == '"'
}

type secNanos struct{ s, n int64 }

var (
	tsTable = []secNanos{{1, 0}, {-62135596800, 0}, {253402300799, 999999999}, {0, 0}, {1, 1}, {1000000000, 500000000},
		{-1, 999999999}, {1600000000, 120000000}, {1600000000, 1000}, {951782400, 0}}
	durTable = []secNanos{{3, 0}, {0, 0}, {315576000000, 999999999}, {-315576000000, -999999999}, {0, 1}, {0, -1},
		{-1, -500000000}, {1, 10000000}, {0, 1000}, {86400, 0}}
	fmTable = [][]string{{"a"}, {}, {"a", "b"}, {"user.display_name", "photo"}, {"sub.deep.s"}, {"long_name"}, {"a.b_c.d", "e_f"}, {"title"}}
)

// wktTableLen is the number of boundary entries for a scalar-like WKT.
func wktTableLen(md protoreflect.MessageDescriptor) int {
	switch wktName(md) {
	case "Timestamp":
		return len(tsTable)
	case "Duration":
		return len(durTable)
	case "FieldMask":
		return len(fmTable)
	}
	return len(scalarTable(md.Fields().ByName("value")))
}

func tableLen(fd protoreflect.FieldDescriptor) int {
	if fd.Message() != nil {
		return wktTableLen(fd.Message())
	}
	return len(scalarTable(fd))
}

// fillWKT fills a fresh scalar-like well-known message. idx < 0 = random.
func fillWKT(m protoreflect.Message, idx int, rng *rand.Rand) {
	md := m.Descriptor()
	fs := md.Fields()
	setSN := func(v secNanos) {
		m.Set(fs.ByName("seconds"), protoreflect.ValueOfInt64(v.s))
		m.Set(fs.ByName("nanos"), protoreflect.ValueOfInt32(int32(v.n)))
	}
	nanoChoices := []int64{0, 1, 1000, 1000000, 999999999, 120000000, 500000000}
	switch wktName(md) {
	case "Timestamp":
		if idx >= 0 {
			setSN(tsTable[idx%len(tsTable)])
			return
		}
		s := rng.Int63n(253402300799+62135596800+1) - 62135596800
		n := nanoChoices[rng.Intn(len(nanoChoices))]
		if rng.Intn(3) == 0 {
			n = rng.Int63n(1000000000)
		}
		setSN(secNanos{s, n})
	case "Duration":
		if idx >= 0 {
			setSN(durTable[idx%len(durTable)])
			return
		}
		s := rng.Int63n(315576000000 + 1)
		if rng.Intn(2) == 0 {
			s = rng.Int63n(100000)
		}
		n := nanoChoices[rng.Intn(len(nanoChoices))]
		if rng.Intn(3) == 0 {
			n = rng.Int63n(1000000000)
		}
		if rng.Intn(2) == 0 {
			s, n = -s, -n
		}
		setSN(secNanos{s, n})
	case "FieldMask":
		var paths []string
		if idx >= 0 {
			paths = fmTable[idx%len(fmTable)]
		} else {
			words := []string{"a", "b", "sub", "deep", "display_name", "long_name", "title", "x_y_z"}
			for i, n := 0, rng.Intn(4); i < n; i++ {
				p := words[rng.Intn(len(words))]
				for rng.Intn(3) == 0 {
					p += "." + words[rng.Intn(len(words))]
				}
				paths = append(paths, p)
			}
		}
		l := m.Mutable(fs.ByName("paths")).List()
		for _, p := range paths {
			l.Append(protoreflect.ValueOfString(p))
		}
	default: // wrappers
		vfd := fs.ByName("value")
		var v protoreflect.Value
		tab := scalarTable(vfd)
		for tries := 0; ; tries++ {
			if idx >= 0 {
				v = tab[(idx+tries)%len(tab)]
			} else if rng.Intn(2) == 0 {
				v = tab[rng.Intn(len(tab))]
			} else {
				v = randScalar(rng, vfd)
			}
			if vfd.Kind() == protoreflect.StringKind && ambiguousQuoted(v.String()) {
				continue
			}
			break
		}
		m.Set(vfd, v)
	}
}

// elemValue produces one value for a URL leaf field (element value for
// lists). idx < 0 = random.
func elemValue(newMsg func() protoreflect.Message, fd protoreflect.FieldDescriptor, idx int, rng *rand.Rand) protoreflect.Value {
	if fd.Message() != nil {
		m := newMsg()
		fillWKT(m, idx, rng)
		return protoreflect.ValueOfMessage(m)
	}
	tab := scalarTable(fd)
	if idx >= 0 {
		return tab[idx%len(tab)]
	}
	if rng.Intn(2) == 0 {
		return tab[rng.Intn(len(tab))]
	}
	return randScalar(rng, fd)
}

// setLeaf sets a URL leaf field of parent. For lists idx selects the length
// (1..3) and the first table entry.
func setLeaf(parent protoreflect.Message, fd protoreflect.FieldDescriptor, idx int, rng *rand.Rand) {
	if fd.IsList() {
		l := parent.Mutable(fd).List()
		n := 1 + rng.Intn(3)
		if idx >= 0 {
			n = 1 + idx%3
		}
		for i := 0; i < n; i++ {
			k := idx
			if idx >= 0 {
				k = idx + i
			}
			l.Append(elemValue(func() protoreflect.Message { return l.NewElement().Message() }, fd, k, rng))
		}
		return
	}
	parent.Set(fd, elemValue(func() protoreflect.Message { return parent.NewField(fd).Message() }, fd, idx, rng))
}

// setLeafPath sets the leaf reached by fds from the root message.
func setLeafPath(root protoreflect.Message, fds []protoreflect.FieldDescriptor, idx int, rng *rand.Rand) {
	cur := root
	for _, fd := range fds[:len(fds)-1] {
		cur = cur.Mutable(fd).Message()
	}
	setLeaf(cur, fds[len(fds)-1], idx, rng)
}

// ------------------------------------------------------------ random messages

type genOpts struct {
	density  float64
	bodyOnly bool
	depth    int
}

func genBodyOnly(rng *rand.Rand, m protoreflect.Message, fd protoreflect.FieldDescriptor, o genOpts) {
	switch {
	case fd.IsMap():
		mp := m.Mutable(fd).Map()
		kfd, vfd := fd.MapKey(), fd.MapValue()
		for i, n := 0, 1+rng.Intn(3); i < n; i++ {
			k := elemValue(nil, kfd, -1, rng)
			if kfd.Kind() == protoreflect.StringKind && rng.Intn(2) == 0 {
				k = protoreflect.ValueOfString(fmt.Sprintf("k%d", i))
			}
			var v protoreflect.Value
			if vfd.Message() != nil {
				e := mp.NewValue()
				genInto(rng, e.Message(), genOpts{density: 0.2, bodyOnly: true, depth: o.depth - 1})
				v = e
			} else {
				v = elemValue(nil, vfd, -1, rng)
			}
			mp.Set(k.MapKey(), v)
		}
	case fd.IsList() && fd.Message() != nil:
		l := m.Mutable(fd).List()
		for i, n := 0, 1+rng.Intn(3); i < n; i++ {
			e := l.NewElement()
			genInto(rng, e.Message(), genOpts{density: 0.2, bodyOnly: true, depth: o.depth - 1})
			l.Append(e)
		}
	default:
		var x proto.Message
		switch wktName(fd.Message()) {
		case "Struct":
			x, _ = structpb.NewStruct(map[string]any{"k": 1.5, "s": randString(rng), "b": true, "n": nil, "l": []any{1.0, "x"}, "o": map[string]any{"z": 2.0}})
		case "Value":
			switch rng.Intn(4) {
			case 0:
				x = structpb.NewNumberValue(rng.NormFloat64())
			case 1:
				x = structpb.NewStringValue(randString(rng))
			case 2:
				x = structpb.NewBoolValue(true)
			default:
				lv, _ := structpb.NewList([]any{1.0, "a", false})
				x = structpb.NewListValue(lv)
			}
		case "ListValue":
			x, _ = structpb.NewList([]any{1.0, "a", map[string]any{"q": "r"}})
		case "Any":
			if rng.Intn(2) == 0 {
				x, _ = anypb.New(&testpb.Book{Name: "shelves/1/books/2", Title: randString(rng)})
			} else {
				x, _ = anypb.New(durationpb.New(1500000000))
			}
		case "Empty":
			x = &emptypb.Empty{}
		default:
			if fd.Message().FullName() == "google.api.HttpBody" {
				sub := m.Mutable(fd).Message()
				sub.Set(fd.Message().Fields().ByName("content_type"), protoreflect.ValueOfString("text/plain"))
				b := make([]byte, rng.Intn(40))
				rng.Read(b)
				sub.Set(fd.Message().Fields().ByName("data"), protoreflect.ValueOfBytes(b))
			}
			return
		}
		m.Set(fd, protoreflect.ValueOfMessage(x.ProtoReflect()))
	}
}

// genInto fills a message with random / boundary values.
func genInto(rng *rand.Rand, m protoreflect.Message, o genOpts) {
	fs := m.Descriptor().Fields()
	setField := func(fd protoreflect.FieldDescriptor) {
		switch {
		case isNullEnum(fd):
		case isURLLeaf(fd):
			setLeaf(m, fd, -1, rng)
		case isPlainMsg(fd):
			if o.depth > 0 {
				genInto(rng, m.Mutable(fd).Message(), genOpts{density: o.density * 1.5, bodyOnly: o.bodyOnly, depth: o.depth - 1})
			}
		case o.bodyOnly && o.depth > 0:
			genBodyOnly(rng, m, fd, o)
		}
	}
	for i := 0; i < fs.Len(); i++ {
		fd := fs.Get(i)
		if od := fd.ContainingOneof(); od != nil && !od.IsSynthetic() {
			continue
		}
		if rng.Float64() < o.density {
			setField(fd)
		}
	}
	ods := m.Descriptor().Oneofs()
	for i := 0; i < ods.Len(); i++ {
		od := ods.Get(i)
		if od.IsSynthetic() || rng.Float64() >= math.Min(1, o.density*4) {
			continue
		}
		setField(od.Fields().Get(rng.Intn(od.Fields().Len())))
	}
}

func genMessage(rng *rand.Rand, md protoreflect.MessageDescriptor, o genOpts) proto.Message {
	m := vschema.NewMsg(md)
	genInto(rng, m.ProtoReflect(), o)
	return m
}

// cloneMsg copies a message through the wire format. proto.Clone is not used:
// its fast path for generated messages drops a negative zero held in a proto3
// field without presence (merge copies only values != 0).
func cloneMsg(m proto.Message) proto.Message {
	b, err := proto.MarshalOptions{AllowPartial: true}.Marshal(m)
	if err == nil {
		out := m.ProtoReflect().New().Interface()
		if err := (proto.UnmarshalOptions{AllowPartial: true}).Unmarshal(b, out); err == nil {
			return out
		}
	}
	return proto.Clone(m)
}

// roundTrips is the generator's self-check: a message used in a positive
// claim must survive protojson and the wire format unchanged.
func roundTrips(m proto.Message) error {
	js, err := protojson.Marshal(m)
	if err != nil {
		return err
	}
	back := m.ProtoReflect().New().Interface()
	if err := protojson.Unmarshal(js, back); err != nil {
		return err
	}
	if !proto.Equal(back, m) {
		return fmt.Errorf("protojson round trip differs")
	}
	b, err := proto.Marshal(m)
	if err != nil {
		return err
	}
	back = m.ProtoReflect().New().Interface()
	if err := proto.Unmarshal(b, back); err != nil {
		return err
	}
	if !proto.Equal(back, m) {
		return fmt.Errorf("wire round trip differs")
	}
	return nil
}

// ------------------------------------------------------------ canonical text

// canonTexts returns the proto3-JSON text form(s) of a set URL leaf field of
// parent: what protojson.Marshal emits for it, with the JSON string quotes
// removed. Lists give one text per element.
func canonTexts(parent protoreflect.Message, fd protoreflect.FieldDescriptor, enumNumbers bool) ([]string, error) {
	if fd.Kind() == protoreflect.StringKind {
		if fd.IsList() {
			l := parent.Get(fd).List()
			out := make([]string, l.Len())
			for i := range out {
				out[i] = l.Get(i).String()
			}
			return out, nil
		}
		return []string{parent.Get(fd).String()}, nil
	}
	tmp := parent.New()
	if parent.Has(fd) {
		tmp.Set(fd, parent.Get(fd))
	} else if fd.IsList() || fd.Message() != nil {
		return nil, fmt.Errorf("field %s is not set", fd.FullName())
	}
	// an unset field here is a proto3 zero value: ask for its text explicitly
	js, err := protojson.MarshalOptions{UseEnumNumbers: enumNumbers, EmitUnpopulated: !tmp.Has(fd)}.Marshal(tmp.Interface())
	if err != nil {
		return nil, err
	}
	var obj map[string]json.RawMessage
	if err := json.Unmarshal(js, &obj); err != nil {
		return nil, err
	}
	raw, ok := obj[fd.JSONName()]
	if !ok {
		return nil, fmt.Errorf("field %s not emitted by protojson", fd.FullName())
	}
	unq := func(r json.RawMessage) (string, error) {
		if len(r) > 0 && r[0] == '"' {
			var s string
			if err := json.Unmarshal(r, &s); err != nil {
				return "", err
			}
			return s, nil
		}
		return string(r), nil
	}
	if fd.IsList() {
		var elems []json.RawMessage
		if err := json.Unmarshal(raw, &elems); err != nil {
			return nil, err
		}
		out := make([]string, len(elems))
		for i, e := range elems {
			if out[i], err = unq(e); err != nil {
				return nil, err
			}
		}
		return out, nil
	}
	s, err := unq(raw)
	if err != nil {
		return nil, err
	}
	return []string{s}, nil
}

// valueClass is the coarse class of a canonical text used in finding keys.
func valueClass(texts []string) string {
	rank := map[string]int{"plain": 0, "neg": 1, "neg-zero": 2, "quoted": 3, "ctl": 4, "empty": 5}
	best := "plain"
	for _, t := range texts {
		c := "plain"
		switch {
		case t == "":
			c = "empty"
		case strings.IndexFunc(t, func(r rune) bool { return r < 0x20 || r == 0x7f }) >= 0:
			c = "ctl"
		case ambiguousQuoted(t):
			c = "quoted"
		case t == "-0":
			c = "neg-zero"
		case t[0] == '-' && len(t) > 1 && t[1] >= '0' && t[1] <= '9':
			c = "neg"
		}
		if rank[c] > rank[best] {
			best = c
		}
	}
	return best
}

// pathSafe: non-empty text made only of the characters larking documents for
// a path segment (lexer.go tokenPath), i.e. no '/', ':', '%', space, quotes.
func pathSafe(s string) bool {
	if s == "" || !utf8.ValidString(s) {
		return false
	}
	for _, r := range s {
		if !isPathRune(r) {
			return false
		}
	}
	return true
}

func isPathRune(r rune) bool {
	if r >= 0x80 {
		// unicode letters and numbers are documented; keep to letters
		return isLetter(r)
	}
	switch {
	case r >= 'a' && r <= 'z', r >= 'A' && r <= 'Z', r >= '0' && r <= '9':
		return true
	}
	return strings.ContainsRune("-_.~!$&'()*+,;=@", r)
}
