package transcode

import (
	"fmt"
	"io"
	"net/http"
	"strings"
	"sync"
	"time"

	"google.golang.org/protobuf/proto"
	"google.golang.org/protobuf/reflect/protoreflect"

	"verif/internal/mon"
	"verif/internal/textref"
	"verif/internal/vschema"
	"verif/internal/wire"
)

// Concurrent lanes of C03 and C07: the same kind of requests as the
// sequential cases, sent from several goroutines at once to ONE mux. The
// handler echoes the message it received in its reply (vf.Rsp.echo), so every
// client can compare what the handler saw for ITS request with the sequential
// expectation. Overlap is widened with request bodies delivered by a reader
// that yields between small reads.

type concItem struct {
	req   reqSpec
	want  proto.Message // what the handler must receive
	group int           // requests of one group share binding and query string
	label string
}

type concFail struct {
	item concItem
	kind string // rejected | wrong-message | panic | undecodable
	what string
	got  proto.Message
}

func echoReply(md protoreflect.MethodDescriptor, in proto.Message) proto.Message {
	if md.Output().FullName() != "vf.Rsp" || md.Input().FullName() != "vf.Req" {
		return nil
	}
	out := vschema.NewMsg(md.Output())
	out.ProtoReflect().Set(md.Output().Fields().ByName("echo"), protoreflect.ValueOfMessage(cloneMsg(in).ProtoReflect()))
	return out
}

// runConc sends every item rounds times from g goroutines and returns the
// requests whose echo differs from the expectation.
func runConc(e *env, items []concItem, g, rounds int) (fails []concFail, done int) {
	e.rec.mu.Lock()
	e.rec.replyFn = echoReply
	e.rec.mu.Unlock()
	defer func() {
		e.rec.mu.Lock()
		e.rec.replyFn = nil
		e.rec.mu.Unlock()
		e.rec.take()
	}()
	jobs := make(chan concItem)
	var mu sync.Mutex
	var wg sync.WaitGroup
	for w := 0; w < g; w++ {
		wg.Add(1)
		go func() {
			defer wg.Done()
			for it := range jobs {
				resp := wire.Serve(e.mux, it.req.build())
				f := concFail{item: it}
				switch {
				case resp.Wedged:
					f.kind, f.what = "wedged", "request did not return within the watchdog"
				case resp.Panic != nil:
					f.kind, f.what = "panic", resp.Panic.Key()+": "+resp.Panic.Value
				case resp.Code != 200:
					f.kind, f.what = "rejected", fmt.Sprintf("status %d: %s", resp.Code, bodySnippet(resp.Body))
				default:
					rsp := vschema.NewMsg(vschema.Msg("vf.Rsp"))
					_, known, err := decodeBy(e.kind, resp.Header.Get("Content-Type"), resp.Body, rsp)
					if !known || err != nil {
						f.kind, f.what = "undecodable", fmt.Sprintf("Content-Type %q: %v", resp.Header.Get("Content-Type"), err)
						break
					}
					echo := selected(rsp, []protoreflect.FieldDescriptor{rsp.ProtoReflect().Descriptor().Fields().ByName("echo")})
					if !proto.Equal(echo, it.want) {
						f.kind, f.got = "wrong-message", echo
						f.what = diffFields(it.want, echo)
					}
				}
				mu.Lock()
				done++
				if f.kind != "" {
					fails = append(fails, f)
				}
				mu.Unlock()
			}
		}()
	}
	for r := 0; r < rounds; r++ {
		for _, it := range items {
			jobs <- it
		}
	}
	close(jobs)
	wg.Wait()
	return fails, done
}

func concCase(prop string, f concFail) *Case {
	q := f.item.req
	if len(q.Body) > 4096 {
		q.Body = q.Body[:4096]
	}
	return &Case{Prop: prop, Kind: "concurrent", Class: f.item.label, Req: q, MsgJSON: jsonOf(f.item.want),
		Note: "observed under concurrency (requests of several goroutines overlapping on one mux); not replayable sequentially. " + f.what}
}

// runConcC03: bodies of 40-300 KB, JSON and protobuf, half of them gzip, some
// delivered slowly, from 12 goroutines.
func runConcC03(r *mon.Run, g *gen) {
	rules := []RuleSpec{vfRule("conc:body-star", "POST", "/cb0/all", "*"), vfRule("conc:var+body-sub", "PUT", "/cb1/{a}", "sub")}
	e, err := buildDynamic(rules, "")
	if err != nil {
		r.Inconclusive("harness: " + err.Error())
		return
	}
	var items []concItem
	sizes := []int{40000, 70000, 120000, 200000, 300000}
	for i := 0; i < r.Pick(20, 120); i++ {
		p, err := newPlan(rules[i%2])
		if err != nil {
			return
		}
		M := vschema.NewMsg(p.in)
		mr := M.ProtoReflect()
		// every body is recognisable: a mix of two bodies cannot equal either
		fill := strings.Repeat(fmt.Sprintf("<body-%03d>", i), sizes[i%len(sizes)]/10)
		sub := mr.Mutable(p.in.Fields().ByName("sub")).Message()
		setStr(sub, "b", fill)
		sub.Set(sub.Descriptor().Fields().ByName("l"), protoreflect.ValueOfInt64(int64(i+1)))
		if p.rule.Body == "*" {
			setStr(mr, "d", fmt.Sprintf("item-%d", i))
		}
		enc := bodyEnc{ctype: []string{"application/json", "application/protobuf", "application/octet-stream", ""}[i%4], gzip: i%2 == 1}
		c, err := g.finishEnc(p, M, i, func(bodyEnc) string { return "concurrent" }, &enc)
		if err != nil {
			continue
		}
		q := c.Req
		if i%3 == 0 {
			q.Slow = true
			for left := len(q.Body); left > 0 && len(q.Cuts) < 40; left -= 4096 {
				q.Cuts = append(q.Cuts, 4096)
			}
		}
		want, _ := decodeMsg(p.rule.In, c.Msg)
		items = append(items, concItem{req: q, want: want, label: "body-" + enc.String()})
	}
	fails, done := runConc(e, items, 12, r.Pick(3, 10))
	r.Eval(done)
	r.Count("concurrent_requests", done)
	if len(fails) == 0 {
		r.Distinct("concurrent|bodies-40-300KB|12-goroutines")
		return
	}
	for _, f := range fails {
		switch f.kind {
		case "wedged":
			r.Inconclusive(f.what)
		case "panic":
			r.Violate("c03:concurrent:panic", "concurrent requests with large bodies: "+f.what, concCase("C03", f))
		case "rejected", "undecodable":
			r.Violate("c03:concurrent:rejected-valid", fmt.Sprintf("a %s request that is delivered correctly on its own failed while other requests with bodies were in flight: %s", f.item.label, f.what), concCase("C03", f))
		default:
			r.Violate("c03:concurrent:wrong-value", fmt.Sprintf("a %s request delivered a different message while other requests with bodies were in flight: %s", f.item.label, f.what), concCase("C03", f))
		}
	}
}

// runConcC07: groups of requests for the same binding with byte-identical
// query strings (3..15 parameters) and different path values, 8 goroutines.
func runConcC07(r *mon.Run, g *gen) {
	rules := []RuleSpec{vfRule("conc:var-get", "GET", "/cc1/{a}", ""), vfRule("conc:var+body-star", "POST", "/cc2/{a}", "*"),
		vfRule("conc:var-typed", "GET", "/cc3/{a}/x/{n}", ""), vfRule("conc:var-nested+body-sub", "PUT", "/cc4/{sub.a}/{b}", "sub")}
	e, err := buildDynamic(rules, "")
	if err != nil {
		r.Inconclusive("harness: " + err.Error())
		return
	}
	var items []concItem
	group := 0
	captures := map[int]map[string]bool{} // group -> captures used (attribution)
	for ri, rule := range rules {
		p, err := newPlan(rule)
		if err != nil {
			return
		}
		leaves := keyLeaves(p)
		for _, nq := range []int{3, 5, 6, 7, 9, 12, 15} {
			if nq > len(leaves) {
				continue
			}
			group++
			captures[group] = map[string]bool{}
			base := vschema.NewMsg(p.in)
			var query []kv
			for i, lf := range leaves[:nq] {
				tmp := vschema.NewMsg(lf.fd().ContainingMessage()).ProtoReflect()
				setLeaf(tmp, lf.fd(), ri+i, g.rng)
				ts, err := canonTexts(tmp, lf.fd(), false)
				if err != nil || len(ts) != 1 {
					continue
				}
				t := ts[0]
				if lf.fd().Kind() == protoreflect.StringKind {
					t = fmt.Sprintf("q%d", i)
				}
				if textref.Apply(base.ProtoReflect(), lf.fds, t) == nil {
					query = append(query, kv{keyOf(lf.fds, false), t})
				}
			}
			raw := encodeQuery(query)
			for k := 0; k < 16; k++ {
				want := cloneMsg(base)
				texts := map[string]string{}
				for vi, v := range p.vars {
					t := fmt.Sprintf("g%dk%dv%d", group, k, vi)
					if v.fds[len(v.fds)-1].Kind() != protoreflect.StringKind {
						t = fmt.Sprint(1000*group + 10*k + vi)
					}
					if err := textref.Apply(want.ProtoReflect(), v.fds, t); err != nil {
						continue
					}
					texts[v.field] = t
					captures[group][t] = true
				}
				q := reqSpec{Verb: reqVerb(rule), Path: p.instantiate(texts), RawQuery: raw}
				if rule.Body != "" {
					// a body that names none of the bound fields, delivered slowly
					bm := vschema.NewMsg(p.in)
					if p.body != nil {
						bm = vschema.NewMsg(p.body[len(p.body)-1].Message())
					}
					enc := bodyEnc{ctype: "application/json"}
					if q.Body, err = enc.encode(bm); err != nil {
						continue
					}
					q.Header = enc.header()
					q.Slow, q.Cuts = true, []int{1, 1}
					if p.body != nil {
						// the body creates the (empty) body message
						cur := want.ProtoReflect()
						for _, fd := range p.body {
							cur = cur.Mutable(fd).Message()
						}
					}
				}
				items = append(items, concItem{req: q, want: want, group: group, label: fmt.Sprintf("%s,query-params=%d", rule.bodyShape(), nq)})
			}
		}
	}
	fails, done := runConc(e, items, 8, r.Pick(6, 40))
	r.Eval(done)
	r.Count("c07_concurrent_requests", done)
	if len(fails) == 0 {
		r.Distinct("c07|concurrent|same-binding-same-query|8-goroutines")
		return
	}
	for _, f := range fails {
		switch f.kind {
		case "wedged":
			r.Inconclusive(f.what)
		case "panic":
			r.Count("c07_panics_left_to_C09", 1)
		case "rejected", "undecodable":
			r.Count("c07_concurrent_request_rejected_(allowed)", 1)
		default:
			key := "c07:concurrent:wrong-message"
			// does the handler's message carry the capture of ANOTHER request of the group?
			if f.got != nil {
				js := jsonOf(f.got)
				for t := range captures[f.item.group] {
					if strings.Contains(js, "\""+t+"\"") && !strings.Contains(jsonOf(f.item.want), "\""+t+"\"") {
						key = "c07:concurrent:path-value-of-another-request"
						break
					}
				}
			}
			r.Violate(key, fmt.Sprintf("%s %s?%s (%s) overlapping with requests for the same binding and the same query string but other path values: the handler received %s", f.item.req.Verb, f.item.req.Path, f.item.req.RawQuery, f.item.label, f.what), concCase("C07", f))
		}
	}
}

// runConcC04: concurrent GETs over REAL connections (loopback listener through
// larking.NewServer) with self-describing replies of ~768 KiB, alternating
// Accept: application/json / application/protobuf, 8 goroutines. Every client
// must decode exactly the reply built for ITS request.
func runConcC04(r *mon.Run) {
	rules := []RuleSpec{{ID: "conc4:get", In: "vf.Req", Out: "vf.Rsp", Verb: "GET", Tmpl: "/cr/{a}"}}
	e, err := buildDynamic(rules, "")
	if err != nil {
		r.Inconclusive("harness: " + err.Error())
		return
	}
	defer e.close()
	srv, err := e.server()
	if err != nil {
		r.Inconclusive("harness: cannot start listener: " + err.Error())
		return
	}
	const size = 768 << 10
	pattern := func(id string) []byte {
		unit := []byte(fmt.Sprintf("<%s>", id))
		b := make([]byte, 0, size+len(unit))
		for len(b) < size {
			b = append(b, unit...)
		}
		return b[:size]
	}
	e.rec.mu.Lock()
	e.rec.replyFn = func(md protoreflect.MethodDescriptor, in proto.Message) proto.Message {
		if md.Output().FullName() != "vf.Rsp" {
			return nil
		}
		id := in.ProtoReflect().Get(md.Input().Fields().ByName("a")).String()
		out := vschema.NewMsg(md.Output())
		setStr(out.ProtoReflect(), "tag", id)
		out.ProtoReflect().Set(md.Output().Fields().ByName("data"), protoreflect.ValueOfBytes(pattern(id)))
		return out
	}
	e.rec.mu.Unlock()
	type fail struct{ key, what string }
	var mu sync.Mutex
	var fails []fail
	done := 0
	var wg sync.WaitGroup
	goroutines, perG := 8, r.Pick(40, 120)
	for gi := 0; gi < goroutines; gi++ {
		wg.Add(1)
		go func(gi int) {
			defer wg.Done()
			cl := wire.H1Client()
			for k := 0; k < perG; k++ {
				id := fmt.Sprintf("g%dr%d", gi, k)
				accept := []string{"application/json", "application/protobuf"}[(gi+k)%2]
				req, _ := http.NewRequest("GET", srv.URL+"/cr/"+id, nil)
				req.Header.Set("Accept", accept)
				resp, err := cl.Do(req)
				var f *fail
				if err != nil {
					f = &fail{"", "transport: " + err.Error()}
				} else {
					if (gi+k)%3 == 0 {
						// a reader that lags: the server blocks in its socket write
						time.Sleep(2 * time.Millisecond)
					}
					body, rerr := io.ReadAll(resp.Body)
					resp.Body.Close()
					rsp := vschema.NewMsg(vschema.Msg("vf.Rsp"))
					ct := resp.Header.Get("Content-Type")
					switch _, known, derr := decodeBy("", ct, body, rsp); {
					case rerr != nil:
						f = &fail{"", "transport: " + rerr.Error()}
					case resp.StatusCode != 200:
						f = &fail{"c04:concurrent:reply-not-delivered", fmt.Sprintf("status %d: %s", resp.StatusCode, bodySnippet(body))}
					case !known || derr != nil:
						f = &fail{"c04:concurrent:undecodable", fmt.Sprintf("Accept %s: %d body bytes under Content-Type %q do not decode: %v", accept, len(body), ct, derr)}
					default:
						rr := rsp.ProtoReflect()
						tag := rr.Get(rr.Descriptor().Fields().ByName("tag")).String()
						data := rr.Get(rr.Descriptor().Fields().ByName("data")).Bytes()
						want := pattern(id)
						if tag != id {
							f = &fail{"c04:concurrent:reply-of-another-call", fmt.Sprintf("request %s received the reply tagged %q", id, tag)}
						} else if string(data) != string(want) {
							off := 0
							for off < len(data) && off < len(want) && data[off] == want[off] {
								off++
							}
							f = &fail{"c04:concurrent:wrong-reply", fmt.Sprintf("request %s: reply data (%d bytes) differs from the handler's reply at offset %d: got %q want %q", id, len(data), off, snip(data, off), snip(want, off))}
						}
					}
				}
				mu.Lock()
				done++
				if f != nil {
					fails = append(fails, *f)
				}
				mu.Unlock()
			}
		}(gi)
	}
	wg.Wait()
	e.rec.mu.Lock()
	e.rec.replyFn = nil
	e.rec.mu.Unlock()
	r.Eval(done)
	r.Count("c04_concurrent_real_connection_requests", done)
	clean := true
	for _, f := range fails {
		if f.key == "" {
			r.Inconclusive("concurrent lane: " + f.what)
			continue
		}
		clean = false
		r.Violate(f.key, "8 goroutines, GETs of ~768 KiB replies over real connections, Accept alternating json / protobuf: "+f.what,
			&Case{Prop: "C04", Kind: "concurrent", Class: "real-connections", Note: "observed under concurrency over real connections; not replayable sequentially. " + f.what})
	}
	if clean {
		r.Distinct("c04|concurrent|real-connections|768KiB-replies")
	}
}
