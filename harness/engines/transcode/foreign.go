package transcode

import (
	"fmt"
	"io"
	"strings"

	"google.golang.org/protobuf/proto"
	"google.golang.org/protobuf/reflect/protoreflect"
	"larking.io/larking"

	"verif/internal/mon"
	"verif/internal/vschema"
)

// "Another mux was created in this process": lanes of C03 and C04 that run a
// set of cases on a default mux, then create an unrelated mux with
// CodecOption / CompressorOption for BUILT-IN keys (semantically different
// codecs under application/json, application/protobuf,
// application/octet-stream; a pass-through "gzip"), and run the same cases on
// the first mux again: its decoding and its replies must not change. The
// foreign mux is only created here, at the very end of a run.

type identityCompressor struct{}

func (identityCompressor) Name() string { return "gzip" }
func (identityCompressor) Compress(w io.Writer) (io.WriteCloser, error) {
	return nopWriteCloser{w}, nil
}
func (identityCompressor) Decompress(r io.Reader) (io.Reader, error) { return r, nil }

type nopWriteCloser struct{ io.Writer }

func (nopWriteCloser) Close() error { return nil }

func buildForeignMux() error {
	_, err := larking.NewMux(
		larking.CodecOption("application/octet-stream", larking.CodecJSON{}),
		larking.CodecOption("application/json", larking.CodecProto{}),
		larking.CodecOption("application/protobuf", altJSONCodec{}),
		larking.CompressorOption("gzip", identityCompressor{}),
	)
	return err
}

// foreignLane runs the cases, creates the foreign mux, runs them again.
func foreignLane(r *mon.Run, prop string, e *env, cases []*Case) {
	historyLane(r, e, cases, func() error {
		if err := buildForeignMux(); err != nil {
			return err
		}
		r.Count("foreign_mux_created", 1)
		return nil
	}, "after-another-mux-was-created-with-options-for-built-in-keys",
		fmt.Sprintf("the very same request was served correctly by this (default) mux before an unrelated mux was created with CodecOption / CompressorOption for application/json, application/protobuf, application/octet-stream and gzip (%s)", prop),
		"foreign-mux", "cases_unchanged_after_foreign_mux")
}

// historyLane runs the cases, performs the step in between, runs the cases
// again: a case that passed before must pass afterwards.
func historyLane(r *mon.Run, e *env, cases []*Case, between func() error, keySuffix, explain, distinctPrefix, counter string) {
	okBefore := map[int]bool{}
	for i, c := range cases {
		o := execCase(e, c)
		okBefore[i] = len(o.viols) == 0 && o.inconcl == ""
		apply(r, c, o)
	}
	if err := between(); err != nil {
		r.Inconclusive("harness: " + err.Error())
		return
	}
	for i, c := range cases {
		o := execCase(e, c)
		if okBefore[i] {
			for j, v := range o.viols {
				parts := strings.SplitN(v.key, ":", 3)
				if len(parts) >= 2 && !strings.HasPrefix(v.key, "panic@") {
					o.viols[j].key = parts[0] + ":" + parts[1] + ":" + keySuffix
				}
				o.viols[j].what += " - " + explain
			}
			if len(o.viols) == 0 {
				r.Count(counter, 1)
			}
		}
		o.distinct = ""
		if len(o.viols) == 0 && okBefore[i] {
			o.distinct = distinctPrefix + "|" + c.Class
		}
		apply(r, c, o)
	}
}

func runForeignC03(r *mon.Run, g *gen) {
	rules := []RuleSpec{vfRule("foreign:body-star", "POST", "/fm/all", "*"), vfRule("foreign:var+body-sub", "PUT", "/fm/{a}", "sub")}
	e, err := buildDynamic(rules, "")
	if err != nil {
		r.Inconclusive("harness: " + err.Error())
		return
	}
	var cases []*Case
	for i := 0; i < 24; i++ {
		p, err := newPlan(rules[i%2])
		if err != nil {
			return
		}
		M := vschema.NewMsg(p.in)
		sub := M.ProtoReflect().Mutable(p.in.Fields().ByName("sub")).Message()
		setStr(sub, "b", fmt.Sprintf("value-%d", i))
		sub.Set(sub.Descriptor().Fields().ByName("l"), protoreflect.ValueOfInt64(int64(i+1)))
		enc := bodyEnc{ctype: []string{"application/octet-stream", "application/json", "application/protobuf", ""}[i%4], gzip: (i/4)%2 == 1}
		c, err := g.finishEnc(p, M, i, func(b bodyEnc) string { return "body-" + b.String() }, &enc)
		if err != nil {
			continue
		}
		cases = append(cases, c)
	}
	foreignLane(r, "C03", e, cases)
}

func runForeignC04(r *mon.Run, g *gen) {
	rules := []RuleSpec{{ID: "foreign:post", In: "vf.Req", Out: "vf.Req", Verb: "POST", Tmpl: "/fm4/echo", Body: "*"},
		{ID: "foreign:get", In: "vf.Req", Out: "vf.Rsp", Verb: "GET", Tmpl: "/fm4/get/{a}"}}
	e, err := buildDynamic(rules, "")
	if err != nil {
		r.Inconclusive("harness: " + err.Error())
		return
	}
	var cases []*Case
	accs := [][]string{nil, {"application/json"}, {"application/protobuf"}, {"application/octet-stream"}}
	for i := 0; i < 32; i++ {
		p, err := newPlan(rules[i%2])
		if err != nil {
			return
		}
		c, err := g.c04Case(p, "", requestTypes[(i/2)%4], accs[(i/8)%4], [][]string{nil, {"gzip"}}[i%2])
		if err != nil {
			continue
		}
		c.Handler = ""
		delete(c.Req.Header, "Twirp-Version")
		cases = append(cases, c)
	}
	foreignLane(r, "C04", e, cases)
}

var _ proto.Message

// runHistoryC04: Accept-table cases on a mux with unary-only extra codecs,
// before and after server-streaming / bidi HTTP requests on the same mux.
func runHistoryC04(r *mon.Run, g *gen) {
	rules := []RuleSpec{
		{ID: "hist:post", In: "vf.Req", Out: "vf.Req", Verb: "POST", Tmpl: "/h4/echo", Body: "*"},
		{ID: "hist:get", In: "vf.Req", Out: "vf.Rsp", Verb: "GET", Tmpl: "/h4/get/{a}"},
		{ID: "hist:server-stream", In: "vf.Req", Out: "vf.Rsp", Verb: "GET", Tmpl: "/h4/stream/{a}", Stream: "server"},
		{ID: "hist:bidi", In: "vf.Req", Out: "vf.Rsp", Verb: "POST", Tmpl: "/h4/bidi", Body: "*", Stream: "bidi"},
	}
	e, err := buildDynamic(rules, muxCustom)
	if err != nil {
		r.Inconclusive("harness: " + err.Error())
		return
	}
	var cases []*Case
	accs := append(append([][]string{nil, {"application/json"}, {"application/protobuf"}, {"*/*"}, {"text/plain"}}, customAccepts...), []string{"application/octet-stream"})
	types := []string{"", "application/json", "application/protobuf", ctAltEarly, ctAltJSON}
	for i, acc := range accs {
		for j := 0; j < 2; j++ {
			p, err := newPlan(rules[(i+j)%2])
			if err != nil {
				return
			}
			c, err := g.c04Case(p, muxCustom, types[(i+j)%len(types)], acc, nil)
			if err != nil {
				continue
			}
			c.Handler = ""
			delete(c.Req.Header, "Twirp-Version")
			cases = append(cases, c)
		}
	}
	streamed := 0
	historyLane(r, e, cases, func() error {
		for i, acc := range [][]string{nil, {"application/json"}, {"application/protobuf"}, {ctAltEarly}, {"*/*"}, {ctAltJSON + ", application/json;q=0.5"}} {
			hdr := map[string][]string{}
			if acc != nil {
				hdr["Accept"] = acc
			}
			q := reqSpec{Verb: "GET", Path: fmt.Sprintf("/h4/stream/s%d", i), Header: hdr}
			if i%2 == 1 {
				q = reqSpec{Verb: "POST", Path: "/h4/bidi", Header: map[string][]string{"Content-Type": {"application/json"}}, Body: []byte(`{"a":"x"}{"a":"y"}`)}
				if acc != nil {
					q.Header["Accept"] = acc
				}
			}
			resp, calls := serve(e, q)
			if resp.Panic == nil && len(calls) > 0 {
				streamed++
			}
		}
		r.Count("history_streaming_requests_served", streamed)
		return nil
	}, "after-streaming-requests-on-the-same-mux",
		"the very same request was answered correctly by this mux before it served server-streaming / bidi HTTP requests", "history", "cases_unchanged_after_streaming_requests")
}
