package transcode

import (
	"fmt"
	"io"
	"strings"

	"google.golang.org/protobuf/proto"
	"google.golang.org/protobuf/reflect/protoreflect"
	"larking.io/larking"

	"verif/internal/mon"
	"verif/internal/vschema"
)

// "Another mux was created in this process": lanes of C03 and C04 that run a
// set of cases on a default mux, then create an unrelated mux with
// CodecOption / CompressorOption for BUILT-IN keys (semantically different
// codecs under application/json, application/protobuf,
// application/octet-stream; a pass-through "gzip"), and run the same cases on
// the first mux again: its decoding and its replies must not change. The
// foreign mux is only created here, at the very end of a run.

type identityCompressor struct{}

func (identityCompressor) Name() string { return "gzip" }
func (identityCompressor) Compress(w io.Writer) (io.WriteCloser, error) {
	return nopWriteCloser{w}, nil
}
func (identityCompressor) Decompress(r io.Reader) (io.Reader, error) { return r, nil }

type nopWriteCloser struct{ io.Writer }

func (nopWriteCloser) Close() error { return nil }

func buildForeignMux() error {
	_, err := larking.NewMux(
		larking.CodecOption("application/octet-stream", larking.CodecJSON{}),
		larking.CodecOption("application/json", larking.CodecProto{}),
		larking.CodecOption("application/protobuf", altJSONCodec{}),
		larking.CompressorOption("gzip", identityCompressor{}),
	)
	return err
}

// foreignLane runs the cases, creates the foreign mux, runs them again.
func foreignLane(r *mon.Run, prop string, e *env, cases []*Case) {
	okBefore := map[int]bool{}
	for i, c := range cases {
		o := execCase(e, c)
		okBefore[i] = len(o.viols) == 0 && o.inconcl == ""
		apply(r, c, o)
	}
	if err := buildForeignMux(); err != nil {
		r.Inconclusive("harness: foreign mux: " + err.Error())
		return
	}
	r.Count("foreign_mux_created", 1)
	for i, c := range cases {
		o := execCase(e, c)
		if okBefore[i] {
			for j, v := range o.viols {
				parts := strings.SplitN(v.key, ":", 3)
				if len(parts) >= 2 && !strings.HasPrefix(v.key, "panic@") {
					o.viols[j].key = parts[0] + ":" + parts[1] + ":after-another-mux-was-created-with-options-for-built-in-keys"
				}
				o.viols[j].what += fmt.Sprintf(" - the very same request was served correctly by this (default) mux before an unrelated mux was created with CodecOption / CompressorOption for application/json, application/protobuf, application/octet-stream and gzip (%s)", prop)
			}
			if len(o.viols) == 0 {
				r.Count("cases_unchanged_after_foreign_mux", 1)
			}
		}
		o.distinct = ""
		if len(o.viols) == 0 && okBefore[i] {
			o.distinct = "foreign-mux|" + c.Class
		}
		apply(r, c, o)
	}
}

func runForeignC03(r *mon.Run, g *gen) {
	rules := []RuleSpec{vfRule("foreign:body-star", "POST", "/fm/all", "*"), vfRule("foreign:var+body-sub", "PUT", "/fm/{a}", "sub")}
	e, err := buildDynamic(rules, "")
	if err != nil {
		r.Inconclusive("harness: " + err.Error())
		return
	}
	var cases []*Case
	for i := 0; i < 24; i++ {
		p, err := newPlan(rules[i%2])
		if err != nil {
			return
		}
		M := vschema.NewMsg(p.in)
		sub := M.ProtoReflect().Mutable(p.in.Fields().ByName("sub")).Message()
		setStr(sub, "b", fmt.Sprintf("value-%d", i))
		sub.Set(sub.Descriptor().Fields().ByName("l"), protoreflect.ValueOfInt64(int64(i+1)))
		enc := bodyEnc{ctype: []string{"application/octet-stream", "application/json", "application/protobuf", ""}[i%4], gzip: (i/4)%2 == 1}
		c, err := g.finishEnc(p, M, i, func(b bodyEnc) string { return "body-" + b.String() }, &enc)
		if err != nil {
			continue
		}
		cases = append(cases, c)
	}
	foreignLane(r, "C03", e, cases)
}

func runForeignC04(r *mon.Run, g *gen) {
	rules := []RuleSpec{{ID: "foreign:post", In: "vf.Req", Out: "vf.Req", Verb: "POST", Tmpl: "/fm4/echo", Body: "*"},
		{ID: "foreign:get", In: "vf.Req", Out: "vf.Rsp", Verb: "GET", Tmpl: "/fm4/get/{a}"}}
	e, err := buildDynamic(rules, "")
	if err != nil {
		r.Inconclusive("harness: " + err.Error())
		return
	}
	var cases []*Case
	accs := [][]string{nil, {"application/json"}, {"application/protobuf"}, {"application/octet-stream"}}
	for i := 0; i < 32; i++ {
		p, err := newPlan(rules[i%2])
		if err != nil {
			return
		}
		c, err := g.c04Case(p, "", requestTypes[(i/2)%4], accs[(i/8)%4], [][]string{nil, {"gzip"}}[i%2])
		if err != nil {
			continue
		}
		c.Handler = ""
		delete(c.Req.Header, "Twirp-Version")
		cases = append(cases, c)
	}
	foreignLane(r, "C04", e, cases)
}

var _ proto.Message
