package transcode

import (
	"bytes"
	"fmt"
	"io"
	"math/rand"
	"net/http"
	"net/url"
	"runtime"
	"sort"
	"strings"
	"time"
	"unicode"

	"google.golang.org/protobuf/encoding/protojson"
	"google.golang.org/protobuf/proto"
	"google.golang.org/protobuf/reflect/protoreflect"

	"verif/internal/textref"
	"verif/internal/tmplref"
	"verif/internal/vschema"
	"verif/internal/wire"
)

func isLetter(r rune) bool { return unicode.IsLetter(r) }

// reqSpec is a fully materialised HTTP request.
type reqSpec struct {
	Verb     string              `json:"verb"`
	Path     string              `json:"path"`
	RawQuery string              `json:"raw_query,omitempty"`
	Header   map[string][]string `json:"header,omitempty"`
	Body     []byte              `json:"body,omitempty"`
	// How the body reaches the server (requests with a body only):
	// Mode "" = HTTP/1.1 with Content-Length; "h2-content-length";
	// "h2-unknown-length" (HTTP/2 without content-length: ContentLength -1,
	// no Transfer-Encoding); "h1-unknown-length" (HTTP/1.0 style, delimited
	// by close); "h1-chunked" (ContentLength -1, Transfer-Encoding chunked).
	Mode string `json:"mode,omitempty"`
	// Cuts / EOFWithData: the body is delivered by a fragmenting reader.
	Cuts        []int `json:"cuts,omitempty"`
	EOFWithData bool  `json:"eof_with_data,omitempty"`
	// Slow: the reader yields the processor before every read (widens the
	// overlap of concurrent requests).
	Slow bool `json:"slow,omitempty"`
	// Escape: the path is sent in an over-escaped spelling (characters that
	// need no escaping written as %XX): "one-upper", "one-lower", "all-upper",
	// "all-lower". URL.Path and URL.RawPath are set as net/http's server does
	// (url.ParseRequestURI of the request target). "" = Path used verbatim.
	Escape string `json:"escape,omitempty"`
	// Transport names the single non-default delivery feature of the request
	// (finding keys): one of the modes, "fragmented-reads",
	// "gzip-members=N", "gzip-empty-member".
	Transport string `json:"transport,omitempty"`
}

type yieldReader struct{ r io.Reader }

func (y yieldReader) Read(b []byte) (int, error) {
	runtime.Gosched()
	time.Sleep(20 * time.Microsecond)
	return y.r.Read(b)
}

type plainReader struct{ r io.Reader }

func (p plainReader) Read(b []byte) (int, error) { return p.r.Read(b) }

var escapeModes = []string{"one-upper", "all-lower", "one-lower", "all-upper"}

// escapedTarget spells the path with unnecessary percent-escapes. '/' and ':'
// (the structure of the path) stay as they are.
func escapedTarget(path, mode string) string {
	hex := "0123456789ABCDEF"
	if strings.HasSuffix(mode, "lower") {
		hex = "0123456789abcdef"
	}
	all := strings.HasPrefix(mode, "all")
	var sb strings.Builder
	done := false
	for i := 0; i < len(path); i++ {
		c := path[i]
		unreserved := c >= 'a' && c <= 'z' || c >= 'A' && c <= 'Z' || c >= '0' && c <= '9' || strings.IndexByte("-._~", c) >= 0
		sub := strings.IndexByte("!$&'()*+,;=@", c) >= 0
		switch {
		case c == '/' || c == ':':
			sb.WriteByte(c)
		case !unreserved && !sub:
			// must be escaped anyway (non-ASCII, space, ...)
			sb.WriteByte('%')
			sb.WriteByte(hex[c>>4])
			sb.WriteByte(hex[c&15])
		case all || (!done && i > 1 && unreserved):
			done = true
			sb.WriteByte('%')
			sb.WriteByte(hex[c>>4])
			sb.WriteByte(hex[c&15])
		default:
			sb.WriteByte(c)
		}
	}
	return sb.String()
}

// withEscape gives the request the URL a server derives from the escaped
// request target.
func (q reqSpec) withEscape(req *http.Request) *http.Request {
	if q.Escape == "" {
		return req
	}
	target := escapedTarget(q.Path, q.Escape)
	if q.RawQuery != "" {
		target += "?" + q.RawQuery
	}
	u, err := url.ParseRequestURI(target)
	if err != nil {
		return req
	}
	req.URL.Path, req.URL.RawPath, req.RequestURI = u.Path, u.RawPath, target
	return req
}

func (q reqSpec) build() *http.Request { return q.withEscape(q.build0()) }

func (q reqSpec) build0() *http.Request {
	if q.Body == nil {
		return wire.BodyRequest(q.Verb, q.Path, q.RawQuery, http.Header(q.Header), nil)
	}
	var rd io.Reader = bytes.NewReader(q.Body)
	if len(q.Cuts) > 0 || q.EOFWithData {
		rd = &wire.ScriptReader{Data: q.Body, Cuts: q.Cuts, EOFWithData: q.EOFWithData}
	}
	if q.Slow {
		rd = yieldReader{rd}
	}
	cl := int64(len(q.Body))
	switch q.Mode {
	case "h2-unknown-length", "h1-unknown-length", "h1-chunked":
		cl = -1
		rd = plainReader{rd}
	}
	req := wire.NewRequest(q.Verb, q.Path, q.RawQuery, http.Header(q.Header), rd, cl)
	switch q.Mode {
	case "h2-unknown-length", "h2-content-length":
		req.Proto, req.ProtoMajor, req.ProtoMinor = "HTTP/2.0", 2, 0
	case "h1-unknown-length":
		req.Proto, req.ProtoMajor, req.ProtoMinor = "HTTP/1.0", 1, 0
		req.Close = true
	case "h1-chunked":
		req.TransferEncoding = []string{"chunked"}
	}
	return req
}

// defaultTransport is the same request delivered the plain way: HTTP/1.1,
// Content-Length, one read, a single gzip member.
func (q reqSpec) defaultTransport() reqSpec {
	d := q
	d.Mode, d.Cuts, d.EOFWithData, d.Transport, d.Escape = "", nil, false, "", ""
	if q.Transport == "json-whitespace-padding" {
		d.Body = bytes.TrimSpace(q.Body)
	}
	if strings.HasPrefix(q.Transport, "gzip-") && q.Body != nil {
		if raw, err := wire.Gunzip(q.Body); err == nil {
			d.Body = wire.Gzip(raw)
		}
	}
	return d
}

var transportFeatures = []string{"", "h2-unknown-length", "", "h1-chunked", "gzip-members=2", "", "h2-content-length", "fragmented-reads", "",
	"h1-unknown-length", "gzip-members=3", "", "fragmented-reads", "gzip-empty-member", "h2-unknown-length", "json-whitespace-padding"}

var jsonPads = []string{" ", "\n", "\r\n\t ", "\t\t", "  \n\n  "}

// gzipMembers compresses raw as n gzip members cut at random offsets (RFC
// 1952: a gzip file is a series of members, its content their concatenation).
func gzipMembers(rng *rand.Rand, raw []byte, n int, emptyMember bool) []byte {
	var parts [][]byte
	rest := raw
	for i := 0; i < n-1 && len(rest) > 0; i++ {
		k := 1 + rng.Intn(len(rest))
		if k == len(rest) && len(rest) > 1 {
			k = len(rest) - 1
		}
		parts = append(parts, rest[:k])
		rest = rest[k:]
	}
	parts = append(parts, rest)
	if emptyMember {
		i := rng.Intn(len(parts) + 1)
		parts = append(parts[:i], append([][]byte{nil}, parts[i:]...)...)
	}
	var out []byte
	for _, p := range parts {
		out = append(out, wire.Gzip(p)...)
	}
	return out
}

// applyTransport gives a request with a body one delivery feature.
func applyTransport(rng *rand.Rand, q *reqSpec, feature string) {
	if q.Body == nil || feature == "" {
		return
	}
	gz := len(q.Header["Content-Encoding"]) > 0
	switch {
	case strings.HasPrefix(feature, "gzip-"):
		if !gz {
			return
		}
		raw, err := wire.Gunzip(q.Body)
		if err != nil {
			return
		}
		switch feature {
		case "gzip-members=2":
			q.Body = gzipMembers(rng, raw, 2, false)
		case "gzip-members=3":
			q.Body = gzipMembers(rng, raw, 3, false)
		default:
			q.Body = gzipMembers(rng, raw, 1+rng.Intn(2), true)
		}
	case feature == "json-whitespace-padding":
		// JSON text may be surrounded by white space (RFC 8259)
		ct := ""
		if v := q.Header["Content-Type"]; len(v) > 0 {
			ct = v[0]
		}
		if gz || (ct != "" && ct != "application/json") || len(q.Body) == 0 {
			return
		}
		q.Body = []byte(jsonPads[rng.Intn(len(jsonPads))] + string(q.Body) + jsonPads[rng.Intn(len(jsonPads))])
	case feature == "fragmented-reads":
		if len(q.Body) == 0 {
			return
		}
		for left := len(q.Body); left > 0 && len(q.Cuts) < 64; {
			k := 1 + rng.Intn(1+left/2)
			if rng.Intn(3) == 0 {
				k = 1
			}
			q.Cuts = append(q.Cuts, k)
			left -= k
		}
		q.EOFWithData = rng.Intn(2) == 0
	default:
		q.Mode = feature
		if rng.Intn(3) == 0 && len(q.Body) > 1 && feature != "h2-content-length" {
			// unknown-length bodies usually arrive in several reads
			q.Cuts = []int{1 + rng.Intn(len(q.Body))}
		}
	}
	q.Transport = feature
}

type kv struct{ k, v string }

func encodeQuery(kvs []kv) string {
	parts := make([]string, len(kvs))
	for i, e := range kvs {
		parts[i] = url.QueryEscape(e.k) + "=" + url.QueryEscape(e.v)
	}
	return strings.Join(parts, "&")
}

// shuffleKeepKeyOrder permutes the pairs while keeping the relative order of
// the pairs that share a key (the order of a repeated field's elements).
func shuffleKeepKeyOrder(rng *rand.Rand, kvs []kv) []kv {
	n := len(kvs)
	slots := rng.Perm(n)
	byKey := map[string][]int{}
	for i, e := range kvs {
		byKey[e.k] = append(byKey[e.k], slots[i])
	}
	for _, s := range byKey {
		sort.Ints(s)
	}
	out := make([]kv, n)
	next := map[string]int{}
	for _, e := range kvs {
		out[byKey[e.k][next[e.k]]] = e
		next[e.k]++
	}
	return out
}

var pathStrVals = []string{"x", "ab", "Z_9", "a.b", "a-b", "~", "a!b", "$&'", "(a)", "*", "a+b", "a,b", "a;b", "k=v", "@me", "1", "true", "0",
	"é", "日本", "null", "-1", "1e3", strings.Repeat("p", 200), "ü1", "get",
	// '+' is a literal plus in a path, whatever the spelling of the request
	"rock+roll+1", "c++", "+", "a+b+c", "1+1=2",
	// dot segments are ordinary path text for a variable (no path cleaning)
	"docs", "..", "img", ".", "logo.png", "...", "a.", ".a", "a..b", ".."}

// pathTextFor picks a canonical, path-safe text for a variable. idx < 0 =
// random choice.
func (p *plan) pathTextFor(rng *rand.Rand, v pathVar, idx int) (string, error) {
	fd := v.fds[len(v.fds)-1]
	seg := func(k int) string {
		if idx >= 0 {
			return pathStrVals[(idx+k)%len(pathStrVals)]
		}
		return pathStrVals[rng.Intn(len(pathStrVals))]
	}
	single := isSingleStar(v.pat)
	if isLiteralOnly(v.pat) {
		// a constant variable such as {kind=books}: the only text it captures
		var segs []string
		for _, s := range v.pat {
			segs = append(segs, s.Text)
		}
		return strings.Join(segs, "/"), nil
	}
	if !single {
		if fd.Kind() != protoreflect.StringKind {
			return "", fmt.Errorf("multi-segment pattern on non-string field %s", v.field)
		}
		var segs []string
		k := 0
		for _, s := range v.pat {
			switch s.Kind {
			case tmplref.Lit:
				segs = append(segs, s.Text)
			case tmplref.Star:
				segs = append(segs, seg(k))
				k++
			case tmplref.StarStar:
				n := 1 + rng.Intn(3)
				if idx >= 0 {
					n = 1 + idx%3
				}
				for j := 0; j < n; j++ {
					segs = append(segs, seg(k))
					k++
				}
			default:
				return "", fmt.Errorf("unsupported pattern in %s", v.field)
			}
		}
		return strings.Join(segs, "/"), nil
	}
	if fd.Kind() == protoreflect.StringKind {
		return seg(0), nil
	}
	// typed: derive the text from a value (value -> canonical text), keep it
	// only if it is path-safe
	for tries := 0; tries < 200; tries++ {
		tmp := vschema.NewMsg(fd.ContainingMessage()).ProtoReflect()
		k := -1
		if idx >= 0 {
			k = idx + tries
		}
		setLeaf(tmp, fd, k, rng)
		if fd.IsList() {
			return "", fmt.Errorf("path variable on repeated field %s", v.field)
		}
		ts, err := canonTexts(tmp, fd, rng.Intn(4) == 0)
		if err != nil || len(ts) != 1 {
			continue
		}
		if pathSafe(ts[0]) {
			return ts[0], nil
		}
	}
	return "", fmt.Errorf("no path-safe canonical text for %s", v.field)
}

func isSingleStar(pat []tmplref.Seg) bool { return len(pat) == 1 && pat[0].Kind == tmplref.Star }

func isLiteralOnly(pat []tmplref.Seg) bool {
	for _, s := range pat {
		if s.Kind != tmplref.Lit {
			return false
		}
	}
	return len(pat) > 0
}

// fit gives every path-bound field of M a path-expressible value and returns
// the text of each variable. The value is what the reference (protojson)
// makes of the text.
func (p *plan) fit(rng *rand.Rand, M proto.Message, idx int) (map[string]string, error) {
	texts := map[string]string{}
	for i, v := range p.vars {
		var lastErr error
		done := false
		for tries := 0; tries < 30 && !done; tries++ {
			k := idx
			if idx >= 0 {
				k = idx + i + tries
			}
			t, err := p.pathTextFor(rng, v, k)
			if err != nil {
				return nil, err
			}
			if !canonicalFor(v.fds, t) {
				// e.g. "null" for a wrapper: protojson reads it as "unset"
				lastErr = fmt.Errorf("text %q is not the canonical text of its protojson value for %s", t, v.field)
				continue
			}
			if err := textref.Apply(M.ProtoReflect(), v.fds, t); err != nil {
				return nil, fmt.Errorf("reference rejects generated path text %q for %s: %v", t, v.field, err)
			}
			texts[v.field] = t
			done = true
		}
		if !done {
			return nil, lastErr
		}
	}
	return texts, nil
}

// canonicalFor reports whether text is a canonical proto3-JSON text of the
// value protojson reads from it (by enum name or by enum number).
func canonicalFor(fds []protoreflect.FieldDescriptor, text string) bool {
	fd := fds[len(fds)-1]
	if fd.Kind() == protoreflect.StringKind {
		return true
	}
	root := vschema.NewMsg(fds[0].ContainingMessage())
	if err := textref.Apply(root.ProtoReflect(), fds, text); err != nil {
		return false
	}
	cur := root.ProtoReflect()
	for _, f := range fds[:len(fds)-1] {
		cur = cur.Get(f).Message()
	}
	if fd.Message() != nil && !cur.Has(fd) {
		return false
	}
	for _, num := range []bool{false, true} {
		if ts, err := canonTexts(cur, fd, num); err == nil && len(ts) == 1 && ts[0] == text {
			return true
		}
	}
	return false
}

// hasPath reports whether the field reached by fds is set in root.
func hasPath(root protoreflect.Message, fds []protoreflect.FieldDescriptor) bool {
	cur := root
	for i, fd := range fds {
		if !cur.Has(fd) {
			return false
		}
		if i < len(fds)-1 {
			cur = cur.Get(fd).Message()
		}
	}
	return true
}

func getPath(root protoreflect.Message, fds []protoreflect.FieldDescriptor) (protoreflect.Value, bool) {
	cur := root
	for i, fd := range fds {
		if i == len(fds)-1 {
			return cur.Get(fd), cur.Has(fd)
		}
		if !cur.Has(fd) {
			// default value of the leaf
			return defaultOf(fds[len(fds)-1]), false
		}
		cur = cur.Get(fd).Message()
	}
	return protoreflect.Value{}, false
}

func defaultOf(fd protoreflect.FieldDescriptor) protoreflect.Value {
	if fd.Message() != nil || fd.IsList() || fd.IsMap() {
		return protoreflect.Value{}
	}
	return fd.Default()
}

func clearPath(root protoreflect.Message, fds []protoreflect.FieldDescriptor) {
	cur := root
	for i, fd := range fds {
		if !cur.Has(fd) {
			return
		}
		if i == len(fds)-1 {
			cur.Clear(fd)
			return
		}
		cur = cur.Mutable(fd).Message()
	}
}

func setFields(m protoreflect.Message) []protoreflect.FieldDescriptor {
	var out []protoreflect.FieldDescriptor
	fs := m.Descriptor().Fields()
	for i := 0; i < fs.Len(); i++ {
		if fd := fs.Get(i); m.Has(fd) {
			out = append(out, fd)
		}
	}
	return out
}

func isEmptyMsg(m protoreflect.Message) bool {
	return len(setFields(m)) == 0 && len(m.GetUnknown()) == 0
}

// normalise restricts M to what is expressible under the rule: the parts
// that have to travel in the query string lose maps, repeated messages,
// Struct/Any/Value/ListValue/Empty and present-but-empty plain messages; an
// empty body sub-message is dropped (an empty protobuf body is no body).
func (p *plan) normalise(M proto.Message) {
	if p.rule.Body == "*" {
		return
	}
	bodyPath := p.bodyPath()
	// a message holding a path-bound field is created by the binding itself
	holdsVar := func(path string) bool {
		for _, v := range p.vars {
			if strings.HasPrefix(v.field, path+".") {
				return true
			}
		}
		return false
	}
	var walk func(m protoreflect.Message, prefix string)
	walk = func(m protoreflect.Message, prefix string) {
		for _, fd := range setFields(m) {
			path := prefix + string(fd.Name())
			switch {
			case p.isPathVar(path):
			case path == bodyPath:
				if isEmptyMsg(m.Get(fd).Message()) && !holdsVar(path) {
					m.Clear(fd)
				}
			case isNullEnum(fd):
				m.Clear(fd)
			case isURLLeaf(fd):
				if fd.Message() != nil && wktName(fd.Message()) == "StringValue" {
					sub := m.Get(fd).Message()
					vfd := sub.Descriptor().Fields().ByName("value")
					if ambiguousQuoted(sub.Get(vfd).String()) {
						m.Mutable(fd).Message().Set(vfd, protoreflect.ValueOfString("x"+sub.Get(vfd).String()))
					}
				}
			case isPlainMsg(fd):
				sub := m.Mutable(fd).Message()
				walk(sub, path+".")
				if isEmptyMsg(sub) && !holdsVar(path) {
					m.Clear(fd)
				}
			default:
				m.Clear(fd)
			}
		}
	}
	walk(M.ProtoReflect(), "")
}

// naming: how query keys are spelled.
const (
	nameProto = iota
	nameJSON
	nameMixed
)

type splitOpts struct {
	naming         int
	enumNumbers    bool
	keepPathInBody bool // leave path-bound fields (with the same value) in the body
	shuffle        bool
}

type pieces struct {
	path    string
	query   []kv
	bodyMsg proto.Message // nil = no body
}

func fieldKey(rng *rand.Rand, fd protoreflect.FieldDescriptor, naming int) string {
	switch naming {
	case nameJSON:
		return fd.JSONName()
	case nameMixed:
		if rng.Intn(2) == 0 {
			return fd.JSONName()
		}
	}
	return string(fd.Name())
}

// instantiate renders the template with the variable texts; top-level
// wildcards get filler segments.
func (p *plan) instantiate(texts map[string]string) string { return p.instantiateTail(texts, false) }

// endsInStarStar: the template's last segment is ** or a variable whose
// pattern ends in **.
func (p *plan) endsInStarStar() bool {
	if len(p.t.Segs) < 2 {
		return false
	}
	last := p.t.Segs[len(p.t.Segs)-1]
	if last.Kind == tmplref.StarStar {
		return true
	}
	return last.Kind == tmplref.Var && len(last.Pat) == 1 && last.Pat[0].Kind == tmplref.StarStar
}

// instantiateTail with zeroTail renders a trailing ** (bare or variable) with
// ZERO segments: the path stops right before it.
func (p *plan) instantiateTail(texts map[string]string, zeroTail bool) string {
	var segs []string
	for i, s := range p.t.Segs {
		if zeroTail && i == len(p.t.Segs)-1 {
			break
		}
		switch s.Kind {
		case tmplref.Lit:
			segs = append(segs, s.Text)
		case tmplref.Star:
			segs = append(segs, "zz")
		case tmplref.StarStar:
			segs = append(segs, "zz", "yy")
		case tmplref.Var:
			segs = append(segs, texts[protoPath(textref.Resolve(p.in, s.Field))])
		}
	}
	path := "/" + strings.Join(segs, "/")
	if p.t.Verb != "" {
		path += ":" + p.t.Verb
	}
	return path
}

// split divides M into path, query pairs and body message as the rule
// prescribes.
func (p *plan) split(rng *rand.Rand, M proto.Message, texts map[string]string, o splitOpts) (pieces, error) {
	var out pieces
	out.path = p.instantiate(texts)
	root := M.ProtoReflect()
	bodyPath := p.bodyPath()

	clearVars := func(m protoreflect.Message, under []protoreflect.FieldDescriptor) {
		if o.keepPathInBody {
			return
		}
		for _, v := range p.vars {
			if len(v.fds) <= len(under) {
				continue
			}
			match := true
			for i := range under {
				if v.fds[i] != under[i] {
					match = false
				}
			}
			if match {
				clearPath(m, v.fds[len(under):])
			}
		}
	}
	switch {
	case p.rule.Body == "*":
		b := cloneMsg(M)
		clearVars(b.ProtoReflect(), nil)
		out.bodyMsg = b
		return out, nil
	case p.body != nil:
		if hasPath(root, p.body) {
			v, _ := getPath(root, p.body)
			b := cloneMsg(v.Message().Interface())
			clearVars(b.ProtoReflect(), p.body)
			out.bodyMsg = b
		}
	}
	var err error
	var walk func(m protoreflect.Message, keyPrefix, protoPrefix string)
	walk = func(m protoreflect.Message, keyPrefix, protoPrefix string) {
		for _, fd := range setFields(m) {
			pp := protoPrefix + string(fd.Name())
			if p.isPathVar(pp) || pp == bodyPath {
				continue
			}
			key := keyPrefix + fieldKey(rng, fd, o.naming)
			switch {
			case isPlainMsg(fd):
				walk(m.Get(fd).Message(), key+".", pp+".")
			case isURLLeaf(fd):
				ts, e := canonTexts(m, fd, o.enumNumbers)
				if e != nil {
					err = fmt.Errorf("%s: %v", pp, e)
					return
				}
				for _, t := range ts {
					out.query = append(out.query, kv{key, t})
				}
			default:
				err = fmt.Errorf("%s is not expressible in the query string", pp)
			}
		}
	}
	walk(root, "", "")
	if err != nil {
		return out, err
	}
	if o.shuffle {
		out.query = shuffleKeepKeyOrder(rng, out.query)
	}
	return out, nil
}

// bodyEnc describes how a body message is put on the wire.
type bodyEnc struct {
	ctype  string // "", application/json, application/protobuf, application/octet-stream
	gzip   bool
	jsonFl int // bit0 UseProtoNames, bit1 UseEnumNumbers, bit2 Multiline
}

func (b bodyEnc) String() string {
	c := b.ctype
	switch c {
	case "":
		c = "absent"
	default:
		c = strings.TrimPrefix(c, "application/")
	}
	if b.gzip {
		c += "+gzip"
	}
	return c
}

func (b bodyEnc) isJSON() bool { return b.ctype == "" || b.ctype == "application/json" }

// custom reports whether the content type needs a mux with the extra codecs.
func (b bodyEnc) custom() bool { return isCustomType(b.ctype) }

func (b bodyEnc) encode(m proto.Message) ([]byte, error) { return b.encodeFor("", m) }

// encodeFor encodes for a mux of the given kind (on the replaced-codecs mux
// application/json and application/protobuf are the marked codecs).
func (b bodyEnc) encodeFor(kind string, m proto.Message) ([]byte, error) {
	var raw []byte
	var err error
	ct := b.ctype
	if ct == "" {
		ct = "application/json"
	}
	switch {
	case markOf(kind, ct) == altJSONMagic && !isCustomType(ct):
		raw, err = altJSONCodec{}.Marshal(m)
	case markOf(kind, ct) == altProtoMagic && !isCustomType(ct):
		raw, err = altProtoCodec{}.Marshal(m)
	case b.isJSON():
		raw, err = protojson.MarshalOptions{UseProtoNames: b.jsonFl&1 != 0, UseEnumNumbers: b.jsonFl&2 != 0, Multiline: b.jsonFl&4 != 0}.Marshal(m)
	case b.ctype == ctAltJSON || b.ctype == ctAltEarly || popCodecOf(b.ctype) == "json":
		raw, err = altJSONCodec{}.Marshal(m)
	case b.ctype == ctAltProto || popCodecOf(b.ctype) == "proto":
		raw, err = altProtoCodec{}.Marshal(m)
	default:
		raw, err = proto.Marshal(m)
	}
	if err != nil {
		return nil, err
	}
	if b.gzip {
		raw = wire.Gzip(raw)
	}
	return raw, nil
}

func (b bodyEnc) header() map[string][]string {
	h := map[string][]string{}
	if b.ctype != "" {
		h["Content-Type"] = []string{b.ctype}
	}
	if b.gzip {
		h["Content-Encoding"] = []string{"gzip"}
	}
	return h
}

var bodyEncs = []bodyEnc{
	{ctype: "application/json"}, {ctype: "application/protobuf"}, {ctype: "application/octet-stream"}, {ctype: ""},
	{ctype: "application/json", gzip: true}, {ctype: "application/protobuf", gzip: true}, {ctype: "application/octet-stream", gzip: true}, {ctype: "", gzip: true},
	// media types added with larking.CodecOption (served by the custom-codecs mux)
	{ctype: ctAltJSON}, {ctype: ctAltProto}, {ctype: ctAltJSON, gzip: true}, {ctype: ctAltProto, gzip: true},
}

func reqVerb(rule RuleSpec) string {
	v := strings.ToUpper(rule.Verb)
	if v == "*" {
		return "POST"
	}
	return v
}

// assemble builds the request for the pieces.
func assemble(rule RuleSpec, pc pieces, enc bodyEnc) (reqSpec, error) {
	q := reqSpec{Verb: reqVerb(rule), Path: pc.path, RawQuery: encodeQuery(pc.query)}
	if pc.bodyMsg != nil {
		b, err := enc.encode(pc.bodyMsg)
		if err != nil {
			return q, err
		}
		q.Body = b
		q.Header = enc.header()
	}
	return q, nil
}
