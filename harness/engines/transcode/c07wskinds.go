package transcode

import (
	"encoding/json"
	"fmt"
	"strings"

	"google.golang.org/protobuf/encoding/protojson"
	"google.golang.org/protobuf/proto"
	"google.golang.org/protobuf/reflect/protoreflect"

	"verif/internal/mon"
	"verif/internal/vschema"
)

// C07 over the WebSocket transport, value-class dimension: websocket-kind
// bindings whose variables cover every scalar kind (and scalar-like well-known
// types, oneof members, nested fields), with the capture and the competing
// values drawn from the two value classes of a field: its ZERO value (0,
// false, first enum value by name and by number, "", 0s, wrapper of 0) and
// other values. The URL parameters of a WebSocket call are applied to the
// first message by the stream's RecvMsg, not by the HTTP transcoding path.

// wsKindRules are websocket-kind bindings (bidi methods) with typed variables.
func wsKindRules() []RuleSpec {
	ws := func(id, in, tmpl, body string) RuleSpec {
		return RuleSpec{ID: id, In: in, Out: "vf.Rsp", Verb: "WEBSOCKET", Tmpl: tmpl, Body: body}
	}
	const cx = "larking.testpb.ComplexRequest"
	return []RuleSpec{
		ws("ws:kinds-integers+body-star", "vf.Req", "/wk1/{n}/{l}/{u}/{ul}/{sn}/{sl}", "*"),
		ws("ws:kinds-bool-enum-floats+body-star", "vf.Req", "/wk2/{f}/{e}/{dbl}/{flt}", "*"),
		ws("ws:kinds-fixed+body-star", "vf.Req", "/wk3/{f32}/{f64}/{sf32}/{sf64}", "*"),
		ws("ws:kinds-string-bytes+body-star", "vf.Req", "/wk4/{a}/{y}", "*"),
		ws("ws:kinds-nested+body-sub", "vf.Req", "/wk5/{sub.n}/{sub.e}/{sub.l}/{sub.deep.f}/{sub.deep.n}", "sub"),
		ws("ws:kinds-nested+body-star", "vf.Req", "/wk6/{sub.n}/{sub.deep.f}/{sub.a}", "*"),
		ws("ws:kinds-wkt+body-star", "vf.Req", "/wk7/{wl}/{dur}", "*"),
		ws("ws:kinds-oneof+body-star", "vf.Req", "/wk8/{on}", "*"),
		ws("ws:kinds-oneof-nested+body-osub", "vf.Req", "/wk9/{osub.n}/{osub.e}", "osub"),
		ws("ws:kinds-nobody", "vf.Req", "/wka/{n}/{f}/{e}/{sub.l}", ""),
		ws("ws:cx-kinds+body-star", cx, "/wkb/{uint64_value}/{bool_value}/{float_value}/{sint64_value}/{string_value}", "*"),
		ws("ws:cx-kinds-nested+body-nested", cx, "/wkc/{nested.int32_value}/{nested.bool_value}/{nested.enum_value}/{nested.double_value}", "nested"),
	}
}

// kindGroup is the coarse kind of a field used in finding keys.
func kindGroup(fd protoreflect.FieldDescriptor) string {
	if fd.Message() != nil {
		return "wkt"
	}
	switch fd.Kind() {
	case protoreflect.BoolKind:
		return "bool"
	case protoreflect.EnumKind:
		return "enum"
	case protoreflect.StringKind:
		return "string"
	case protoreflect.BytesKind:
		return "bytes"
	case protoreflect.FloatKind, protoreflect.DoubleKind:
		return "float"
	}
	return "integer"
}

// zeroText is the canonical proto3-JSON text of the field's zero value: "0",
// "false", the first enum value (name or number), "" for string and bytes,
// and for a scalar-like well-known message the text of the message whose
// fields are all zero ("0" for a numeric wrapper, "0s").
func zeroText(fd protoreflect.FieldDescriptor, enumNumbers bool) (string, bool) {
	if fd.IsList() || fd.IsMap() {
		return "", false
	}
	parent := vschema.NewMsg(fd.ContainingMessage()).ProtoReflect()
	if fd.Message() != nil {
		if !urlWKT[wktName(fd.Message())] {
			return "", false
		}
		parent.Mutable(fd)
	}
	ts, err := canonTexts(parent, fd, enumNumbers)
	if err != nil || len(ts) != 1 {
		return "", false
	}
	return ts[0], true
}

// sameValueText: both texts denote the same value of the field (reference).
func sameValueText(md protoreflect.MessageDescriptor, fds []protoreflect.FieldDescriptor, a, b string) bool {
	ma, e1 := onlyField(md, fds, a)
	mb, e2 := onlyField(md, fds, b)
	return e1 == nil && e2 == nil && proto.Equal(ma, mb)
}

// rawJSONFor is the JSON literal protojson writes for the value the reference
// reads from text (zero values included, which protojson omits by default).
func rawJSONFor(md protoreflect.MessageDescriptor, fds []protoreflect.FieldDescriptor, text string) (string, error) {
	m, err := onlyField(md, fds, text)
	if err != nil {
		return "", err
	}
	cur := m.ProtoReflect()
	for _, f := range fds[:len(fds)-1] {
		cur = cur.Get(f).Message()
	}
	fd := fds[len(fds)-1]
	tmp := cur.New()
	if cur.Has(fd) {
		tmp.Set(fd, cur.Get(fd))
	} else if fd.Message() != nil {
		return "", fmt.Errorf("text %q leaves %s unset", text, fd.FullName())
	}
	js, err := protojson.MarshalOptions{EmitUnpopulated: !tmp.Has(fd)}.Marshal(tmp.Interface())
	if err != nil {
		return "", err
	}
	var obj map[string]json.RawMessage
	if err := json.Unmarshal(js, &obj); err != nil {
		return "", err
	}
	raw, ok := obj[fd.JSONName()]
	if !ok {
		return "", fmt.Errorf("field %s not emitted by protojson", fd.FullName())
	}
	return string(raw), nil
}

// nestJSON writes {"k1":{"k2":...:raw}} for the field path.
func nestJSON(fds []protoreflect.FieldDescriptor, jsonNames bool, raw string) string {
	var sb strings.Builder
	for _, fd := range fds {
		name := string(fd.Name())
		if jsonNames {
			name = fd.JSONName()
		}
		k, _ := json.Marshal(name)
		sb.WriteString("{" + string(k) + ":")
	}
	sb.WriteString(raw)
	sb.WriteString(strings.Repeat("}", len(fds)))
	return sb.String()
}

var errNoSuchValue = fmt.Errorf("the field has no further value of this class")

type wsKindOpts struct {
	capZero, compZero bool   // value class of the capture / of the competing value(s)
	qv                string // none | proto-name | json-name
	first             bool   // the first frame names the bound field
	othersZero        bool   // the other variables of the rule capture their zero values too
	enumNumbers       bool   // zero enum values are spelled by number
}

// wsKindCase builds one WebSocket case of the value-class dimension. nil =
// the combination does not exist for this variable (e.g. an empty string
// cannot be captured from a path).
func (g *gen) wsKindCase(p *plan, v pathVar, idx int, o wsKindOpts) (*Case, error) {
	if !isSingleStar(v.pat) || (o.capZero && o.compZero) {
		return nil, nil
	}
	fd := v.fds[len(v.fds)-1]
	if o.enumNumbers && (fd.Enum() == nil || !(o.capZero || o.compZero)) {
		return nil, nil
	}
	base := vschema.NewMsg(p.in)
	texts, err := p.fit(g.rng, base, idx)
	if err != nil {
		return nil, err
	}
	zt, zok := zeroText(fd, o.enumNumbers)
	if (o.capZero || o.compZero) && !zok {
		return nil, nil
	}
	nonZero := func(k int, not string) (string, error) {
		for tries := 0; tries < 80; tries++ {
			t, err := p.pathTextFor(g.rng, starVar(v), idx+k+tries)
			if err != nil {
				return "", err
			}
			if !canonicalFor(v.fds, t) || (zok && sameValueText(p.in, v.fds, t, zt)) {
				continue
			}
			if not != "" && sameValueText(p.in, v.fds, t, not) {
				continue
			}
			return t, nil
		}
		if not != "" {
			return "", errNoSuchValue // e.g. a bool has one non-zero value only
		}
		return "", fmt.Errorf("no non-zero value for %s", v.field)
	}
	var P string
	if o.capZero {
		if !pathSafe(zt) || !canonicalFor(v.fds, zt) {
			return nil, nil // the zero value has no path text (string, bytes)
		}
		P = zt
	} else if P, err = nonZero(0, ""); err != nil {
		return nil, err
	}
	texts[v.field] = P
	if o.othersZero {
		n := 0
		for _, w := range p.vars {
			if w.field == v.field || !isSingleStar(w.pat) {
				continue
			}
			if wz, ok := zeroText(w.fds[len(w.fds)-1], false); ok && pathSafe(wz) && canonicalFor(w.fds, wz) {
				texts[w.field] = wz
				n++
			}
		}
		if n == 0 {
			return nil, nil
		}
	}
	inBody := p.rule.Body == "*" || (p.body != nil && strings.HasPrefix(v.field, p.bodyPath()+"."))
	if o.first && !inBody {
		return nil, nil
	}
	if o.qv == "none" && !o.first {
		return nil, nil
	}
	compete := func(k int) (string, error) {
		if o.compZero {
			return zt, nil
		}
		return nonZero(k, P)
	}
	c := &Case{Prop: "C07", Kind: "c07-ws", Rule: p.rule, Field: v.field, Text: P, Compete: map[string]string{}}
	c.Req = reqSpec{Verb: "GET", Path: p.instantiate(texts)}
	if o.qv != "none" {
		Q, err := compete(7)
		if err == errNoSuchValue {
			return nil, nil
		}
		if err != nil {
			return nil, err
		}
		key := keyOf(v.fds, o.qv == "json-name")
		if o.qv == "json-name" && key == keyOf(v.fds, false) {
			return nil, nil
		}
		c.Compete["query"] = Q
		c.Req.RawQuery = encodeQuery([]kv{{key, Q}})
	}
	if p.rule.Body != "" {
		frame := "{}"
		if o.first {
			Qb, err := compete(13)
			if err == errNoSuchValue {
				return nil, nil
			}
			if err != nil {
				return nil, err
			}
			raw, err := rawJSONFor(p.in, v.fds, Qb)
			if err != nil {
				return nil, err
			}
			rel := v.fds
			if p.body != nil {
				rel = v.fds[len(p.body):]
			}
			c.Compete["body"] = Qb
			frame = nestJSON(rel, g.n%2 == 0, raw)
		}
		c.Frames = []string{frame}
	}
	g.n++
	class := func(zero bool) string {
		if zero {
			return "zero-value"
		}
		return "nonzero"
	}
	capClass, compClass := class(o.capZero), class(o.compZero)
	// -0 is a value of its own for the reference (populated, numerically zero)
	if P == "-0" {
		capClass = "negative-zero"
	}
	if c.Compete["query"] == "-0" || c.Compete["body"] == "-0" {
		compClass = "negative-zero"
	}
	c.Extra = "capture=" + capClass + ",competitor=" + compClass + ":" + kindGroup(fd)
	others := "table"
	if o.othersZero {
		others = "zero-value"
	}
	c.Via = fmt.Sprintf("websocket,value-classes,capture=%s,competitor=%s,query=%s,first-frame-names-field=%v,other-captures=%s", capClass, compClass, o.qv, o.first, others)
	if o.enumNumbers {
		c.Via += ",zero-enum-by-number"
	}
	c.Class = p.rule.bodyShape() + ":" + c.Via
	return c, nil
}

// runWSKinds runs the value-class matrix over the WebSocket transport.
func runWSKinds(r *mon.Run, g *gen) {
	rules := wsKindRules()
	e, err := buildDynamic(rules, "")
	if err != nil {
		r.Inconclusive("harness: websocket value-class rules: " + err.Error())
		return
	}
	defer e.close()
	kept := map[string]int{}
	for _, rule := range rules {
		if msg, bad := e.regErr[rule.ID]; bad {
			r.Inconclusive("harness: websocket rule " + rule.ID + " was not registered: " + msg)
			continue
		}
		p, err := newPlan(rule)
		if err != nil {
			r.Inconclusive("harness: " + err.Error())
			continue
		}
		for _, v := range p.vars {
			for k := 0; k < r.Pick(1, 6); k++ {
				for _, cl := range [][2]bool{{true, false}, {false, true}, {false, false}} {
					for ci, ch := range []struct {
						qv    string
						first bool
					}{{"proto-name", false}, {"none", true}, {"proto-name", true}, {"json-name", true}, {"json-name", false}} {
						for _, oz := range []bool{false, true} {
							for _, en := range []bool{false, true} {
								if oz && !cl[0] {
									continue // only next to a zero capture
								}
								if !cl[0] && !cl[1] && ci > 2 && !r.Thorough() {
									continue
								}
								c, err := g.wsKindCase(p, v, 1+4*k+ci, wsKindOpts{capZero: cl[0], compZero: cl[1], qv: ch.qv, first: ch.first, othersZero: oz, enumNumbers: en})
								if err != nil {
									r.Count("generator_rejected_case", 1)
									r.Set("generator_reject_example", rule.ID+": "+err.Error())
									continue
								}
								if c == nil {
									continue
								}
								o := execCase(e, c)
								apply(r, c, o)
								if o.distinct != "" || len(o.viols) > 0 {
									kept[c.Extra[:strings.Index(c.Extra, ":")]]++
								}
							}
						}
					}
				}
			}
		}
	}
	// the dimension must have been observed, not only refused
	for _, cl := range []string{"capture=zero-value,competitor=nonzero", "capture=nonzero,competitor=zero-value", "capture=nonzero,competitor=nonzero"} {
		if kept[cl] == 0 {
			r.Inconclusive("websocket value classes: no dispatched request observed for " + cl)
		}
	}
}
