package transcode

import (
	"bytes"
	"compress/gzip"
	"fmt"
	"io"
	"sort"
	"strings"

	"larking.io/larking"

	"verif/internal/mon"
)

// The mux-population lane of C04.
//
// A process usually holds several muxes (a public API, an internal API, a mux
// per test...). Each is created with its own small set of options that EXTEND
// the default tables (CodecOption with new media types, CompressorOption with
// new codings). What a mux negotiates must be a function of its own options
// and of the request - not of which other muxes were created before or after
// it. The lane creates a population of muxes, one per small option set (zero,
// one, two, three extra media types sorting before / between / after the
// built-in ones, zero, one or two extra compressors, both) and
//   - serves each new mux a negotiation table built from ITS OWN registered
//     universe (every registered type alone, preferred, as the only admitted
//     one; types registered on OTHER muxes only; codings of other muxes),
//   - re-serves the tables of muxes created earlier (the first default mux,
//     the previous mux, one older mux picked by the PRNG),
//   - creates a fresh default mux after every option mux and serves its table,
//   - finally re-serves every mux of the population once more.
// The oracle is the absolute one of C04 (independent decode by Content-Type,
// RFC 7231 evaluation over the mux's own registered types); the history only
// decides the finding key: a case that was answered correctly before the
// latest mux was created and is not afterwards is keyed
// <family>:mux-population:subject=<default-options|extended-options>,
// <created-before|created-after>-another-mux-with-extended-options; the exact
// option classes of subject and neighbour are in the text and the counters.

// popCodecPool: media types for CodecOption. The codec is given by the suffix
// (-vf-json: marked JSON codec, -vf-proto: marked proto codec); the position
// relative to the built-in types is computed, not declared.
var popCodecPool = []string{
	"application/a-vf-json", "application/b-vf-proto", // before application/json
	"application/m-vf-json", "application/n-vf-proto", // between application/json and application/octet-stream
	"application/p-vf-json", "application/oz-vf-proto", // between application/octet-stream and application/protobuf
	"application/x-vf-json", "application/x-vf-proto", "text/z-vf-json", // after application/protobuf
}

// popCodingPool: content codings for CompressorOption (before / between /
// after "gzip" and "identity").
var popCodingPool = []string{"br-vf", "hz-vf", "zz-vf"}

// popCodecOf: "json" / "proto" for a pool media type, "" otherwise.
func popCodecOf(ct string) string {
	switch {
	case strings.HasSuffix(ct, "-vf-json"):
		return "json"
	case strings.HasSuffix(ct, "-vf-proto"):
		return "proto"
	}
	return ""
}

func isPopCoding(ce string) bool { return strings.HasSuffix(ce, "-vf") && ce != "-vf" }

// popKind is the env kind of a mux built with the given extra media types and
// codings: "pop[<types>|<codings>]".
func popKind(codecs, codings []string) string {
	c := append([]string(nil), codecs...)
	z := append([]string(nil), codings...)
	sort.Strings(c)
	sort.Strings(z)
	return "pop[" + strings.Join(c, ",") + "|" + strings.Join(z, ",") + "]"
}

func parsePopKind(kind string) (codecs, codings []string, ok bool) {
	if !strings.HasPrefix(kind, "pop[") || !strings.HasSuffix(kind, "]") {
		return nil, nil, false
	}
	a, b, found := strings.Cut(kind[4:len(kind)-1], "|")
	if !found {
		return nil, nil, false
	}
	if a != "" {
		codecs = strings.Split(a, ",")
	}
	if b != "" {
		codings = strings.Split(b, ",")
	}
	return codecs, codings, true
}

// popHas reports whether a mux of the kind registered the media type with
// CodecOption.
func popHas(kind, ct string) bool {
	codecs, _, ok := parsePopKind(kind)
	if !ok {
		return false
	}
	for _, t := range codecs {
		if t == ct {
			return true
		}
	}
	return false
}

func popOptions(kind string) []larking.MuxOption {
	codecs, codings, ok := parsePopKind(kind)
	if !ok {
		return nil
	}
	var opts []larking.MuxOption
	for _, t := range codecs {
		if popCodecOf(t) == "json" {
			opts = append(opts, larking.CodecOption(t, altJSONCodec{}))
		} else {
			opts = append(opts, larking.CodecOption(t, altProtoCodec{}))
		}
	}
	for _, z := range codings {
		opts = append(opts, larking.CompressorOption(z, markedGzip{z}))
	}
	return opts
}

// popMediaTypes: the registered universe of a pop mux, sorted.
func popMediaTypes(kind string) []string {
	codecs, _, _ := parsePopKind(kind)
	u := append(append([]string(nil), builtinTypes...), codecs...)
	sort.Strings(u)
	return u
}

// popClass is the structural class of an option set: how many extra media
// types, where they sort relative to the built-in ones, how many extra
// compressors.
func popClass(kind string) string {
	codecs, codings, ok := parsePopKind(kind)
	if !ok || (len(codecs) == 0 && len(codings) == 0) {
		return "default-options"
	}
	var parts []string
	if n := len(codecs); n > 0 {
		pos := map[string]bool{}
		for _, t := range codecs {
			before := 0
			for _, b := range builtinTypes {
				if b < t {
					before++
				}
			}
			switch before {
			case 0:
				pos["before"] = true
			case len(builtinTypes):
				pos["after"] = true
			default:
				pos["between"] = true
			}
		}
		var ps []string
		for _, p := range []string{"before", "between", "after"} {
			if pos[p] {
				ps = append(ps, p)
			}
		}
		s := "s"
		if n == 1 {
			s = ""
		}
		parts = append(parts, fmt.Sprintf("%d-extra-codec%s(sorting-%s-the-built-in-types)", n, s, strings.Join(ps, "+")))
	}
	if n := len(codings); n > 0 {
		s := "s"
		if n == 1 {
			s = ""
		}
		parts = append(parts, fmt.Sprintf("%d-extra-compressor%s", n, s))
	}
	return strings.Join(parts, "+")
}

// markedGzip is a compressor for CompressorOption: a line naming the coding
// followed by a gzip stream, so that the harness can tell which compressor
// produced a body.
type markedGzip struct{ name string }

func (c markedGzip) Name() string { return c.name }

type markedGzipWriter struct {
	w    io.Writer
	name string
	z    *gzip.Writer
}

func (m *markedGzipWriter) start() error {
	if m.z != nil {
		return nil
	}
	if _, err := io.WriteString(m.w, "VFZ:"+m.name+"\n"); err != nil {
		return err
	}
	m.z = gzip.NewWriter(m.w)
	return nil
}

func (m *markedGzipWriter) Write(p []byte) (int, error) {
	if err := m.start(); err != nil {
		return 0, err
	}
	return m.z.Write(p)
}

func (m *markedGzipWriter) Close() error {
	if err := m.start(); err != nil {
		return err
	}
	return m.z.Close()
}

func (c markedGzip) Compress(w io.Writer) (io.WriteCloser, error) {
	return &markedGzipWriter{w: w, name: c.name}, nil
}

func (c markedGzip) Decompress(r io.Reader) (io.Reader, error) {
	mark := "VFZ:" + c.name + "\n"
	buf := make([]byte, len(mark))
	if _, err := io.ReadFull(r, buf); err != nil {
		return nil, err
	}
	if string(buf) != mark {
		return nil, fmt.Errorf("%s: missing mark", c.name)
	}
	return gzip.NewReader(r)
}

// popDecompress is the harness's decoder of a pool coding.
func popDecompress(ce string, body []byte) ([]byte, error) {
	z, err := markedGzip{ce}.Decompress(bytes.NewReader(body))
	if err != nil {
		return nil, err
	}
	return io.ReadAll(z)
}

// popOptionSets enumerates the option sets of the population: every single
// pool media type, every pair of positions, two triples; the compressor sets
// (none, one, two) rotate over them in the quick tier and are crossed with
// them in the thorough tier.
func popOptionSets(thorough bool) []string {
	var codecSets [][]string
	for _, t := range popCodecPool {
		codecSets = append(codecSets, []string{t})
	}
	// pairs: one representative per position pair (incl. same position)
	reps := []string{"application/a-vf-json", "application/n-vf-proto", "application/p-vf-json", "application/x-vf-proto", "text/z-vf-json"}
	for i := range reps {
		for j := i + 1; j < len(reps); j++ {
			codecSets = append(codecSets, []string{reps[i], reps[j]})
		}
	}
	codecSets = append(codecSets, []string{"application/a-vf-json", "application/b-vf-proto"}, []string{"application/x-vf-json", "application/x-vf-proto"},
		[]string{"application/m-vf-json", "application/oz-vf-proto"})
	codecSets = append(codecSets, []string{"application/a-vf-json", "application/m-vf-json", "application/x-vf-proto"},
		[]string{"application/b-vf-proto", "application/oz-vf-proto", "text/z-vf-json"})
	codingSets := [][]string{nil, {"hz-vf"}, {"br-vf", "zz-vf"}, nil, {"zz-vf"}, {"br-vf"}}
	var kinds []string
	// compressors only
	for _, z := range codingSets {
		if len(z) > 0 {
			kinds = append(kinds, popKind(nil, z))
		}
	}
	for i, c := range codecSets {
		if thorough {
			for _, z := range [][]string{nil, {"hz-vf"}, {"br-vf", "zz-vf"}} {
				kinds = append(kinds, popKind(c, z))
			}
			continue
		}
		kinds = append(kinds, popKind(c, codingSets[i%len(codingSets)]))
	}
	// the same option set may appear once only per round
	seen := map[string]bool{}
	out := kinds[:0]
	for _, k := range kinds {
		if !seen[k] {
			seen[k] = true
			out = append(out, k)
		}
	}
	return out
}

// popAccepts is the negotiation table of a mux with the registered universe u.
func popAccepts(u []string) [][]string {
	out := [][]string{nil, {"*/*"}, {"application/*;q=0.3"}, {"text/plain"}}
	reg := map[string]bool{}
	for _, t := range u {
		reg[t] = true
	}
	for _, t := range u {
		out = append(out, []string{t}, []string{t + ";q=0.9, text/plain;q=0.1"})
		// every other registered type excluded: only t is admitted
		var ex []string
		for _, o := range u {
			if o != t {
				ex = append(ex, o+";q=0")
			}
		}
		out = append(out, []string{strings.Join(append(ex, "*/*;q=0.1"), ", ")})
	}
	// media types registered on OTHER muxes only: alone (none admitted: the
	// request's own type), and in front of a built-in type (that one is admitted)
	k := 0
	for _, x := range popCodecPool {
		if reg[x] {
			continue
		}
		out = append(out, []string{x}, []string{x + ", " + builtinTypes[k%len(builtinTypes)] + ";q=0.5"})
		k++
	}
	return out
}

var popRules = []RuleSpec{
	{ID: "pop:post", In: "vf.Req", Out: "vf.Req", Verb: "POST", Tmpl: "/pop4/echo", Body: "*"},
	{ID: "pop:get", In: "vf.Req", Out: "vf.Rsp", Verb: "GET", Tmpl: "/pop4/get/{a}"},
}

// popMux is one member of the population.
type popMux struct {
	e     *env
	kind  string
	class string
	cases []*Case
	ok    []bool // outcome of the latest serving of each case
	born  int
}

type popLane struct {
	r       *mon.Run
	g       *gen
	muxes   []*popMux
	lastOf  map[string][]bool // kind -> latest outcome per case index on any mux of that kind
	lastOpt string            // class of the latest mux created with options
}

func (l *popLane) create(kind string) *popMux {
	e, err := buildDynamic(popRules, kind)
	if err != nil {
		l.r.Inconclusive("harness: " + err.Error())
		return nil
	}
	pm := &popMux{e: e, kind: kind, class: popClass(kind), born: len(l.muxes)}
	u := mediaTypesOf(kind)
	types := append([]string{""}, u...)
	// Accept-Encoding: the codings of this mux and of other muxes
	encs := [][]string{nil, {"gzip"}, {"identity"}}
	for _, z := range popCodingPool {
		encs = append(encs, []string{z}, []string{z + ", gzip;q=0.5"})
	}
	for i, acc := range popAccepts(u) {
		p, err := newPlan(popRules[i%2])
		if err != nil {
			l.r.Inconclusive("harness: " + err.Error())
			return nil
		}
		c, err := l.g.c04Case(p, kind, types[(i/2+pm.born)%len(types)], acc, encs[(i+pm.born)%len(encs)])
		if err != nil {
			l.r.Count("generator_rejected_case", 1)
			continue
		}
		c.Handler = ""
		delete(c.Req.Header, "Twirp-Version")
		// the shape of a case names the class of the option set, not the set
		c.Class = strings.Replace(c.Class, "|mux="+kind, "|mux="+pm.class, 1)
		pm.cases = append(pm.cases, c)
	}
	pm.ok = make([]bool, len(pm.cases))
	l.muxes = append(l.muxes, pm)
	l.r.Count("population_muxes_created", 1)
	l.r.Distinct("population|created|" + pm.class)
	return pm
}

// serve runs the table of pm. rel is "created-before" (pm existed before the
// latest option mux was created) or "created-after" (pm is new).
func (l *popLane) serve(pm *popMux, rel string) {
	if pm == nil {
		return
	}
	neighbour := l.lastOpt
	if neighbour == "" {
		neighbour = "none"
	}
	for i, c := range pm.cases {
		prevKnown, prevOK := true, pm.ok[i]
		if rel == "created-after" {
			prev, seen := l.lastOf[pm.kind]
			prevKnown = seen && i < len(prev)
			prevOK = prevKnown && prev[i]
		}
		o := execCase(pm.e, c)
		ok := len(o.viols) == 0 && o.inconcl == ""
		o.distinct = ""
		switch {
		case ok:
			o.distinct = "population|" + pm.class + "|" + rel + "|neighbour=" + neighbour + "|" + c.Class
			if rel == "created-before" {
				l.r.Count("population_cases_unchanged_on_earlier_muxes", 1)
			} else {
				l.r.Count("population_cases_correct_on_new_muxes", 1)
			}
		case len(o.viols) > 0 && prevKnown && !prevOK:
			// already failing before the latest mux was created: reported at
			// the transition, only counted here
			l.r.Count("population_cases_still_failing_after_reported_transition", 1)
			o.viols = nil
		case len(o.viols) > 0:
			l.r.Count("population_cases_changed_by_another_mux", 1)
			l.r.Count("population_cases_changed_after_a_mux_with["+neighbour+"]", 1)
			// the key names the coarse class (does the subject extend the
			// default tables itself, did it exist before); the option classes
			// of subject and neighbour are in the text and in the counters
			subj := "extended-options"
			if pm.class == "default-options" {
				subj = "default-options"
			}
			for j, v := range o.viols {
				if strings.HasPrefix(v.key, "panic@") {
					continue
				}
				parts := strings.SplitN(v.key, ":", 3)
				if len(parts) >= 2 {
					o.viols[j].key = parts[0] + ":" + parts[1] + ":mux-population:subject=" + subj + "," + rel + "-another-mux-with-extended-options"
				}
				if rel == "created-before" {
					o.viols[j].what += fmt.Sprintf(" - the very same request was answered correctly by this mux (%s) before another mux was created with %s; %d muxes exist in the process", pm.kind, neighbour, len(l.muxes))
				} else {
					o.viols[j].what += fmt.Sprintf(" - this mux (%s) was created after a mux with %s; %d muxes exist in the process", pm.kind, neighbour, len(l.muxes))
				}
			}
		}
		if o.inconcl == "" {
			pm.ok[i] = ok
			if l.lastOf[pm.kind] == nil || len(l.lastOf[pm.kind]) != len(pm.ok) {
				l.lastOf[pm.kind] = make([]bool, len(pm.ok))
			}
			l.lastOf[pm.kind][i] = ok
		}
		apply(l.r, c, o)
	}
}

// runPopulationC04 is the lane. Round one visits the option sets in a
// canonical order (small sets first), the further rounds in PRNG order.
func runPopulationC04(r *mon.Run, g *gen) {
	l := &popLane{r: r, g: g, lastOf: map[string][]bool{}}
	rng := r.Rand("c04-population")
	first := l.create("")
	l.serve(first, "created-after")
	sets := popOptionSets(r.Thorough())
	r.Set("population_option_sets_per_round", len(sets))
	rounds := r.Pick(2, 4)
	for round := 0; round < rounds; round++ {
		order := append([]string(nil), sets...)
		if round > 0 {
			rng.Shuffle(len(order), func(i, j int) { order[i], order[j] = order[j], order[i] })
		}
		for _, kind := range order {
			var prev *popMux
			if n := len(l.muxes); n > 0 {
				prev = l.muxes[n-1]
			}
			pm := l.create(kind)
			if pm == nil {
				return
			}
			l.serve(pm, "created-after")
			l.lastOpt = pm.class
			// muxes that existed before
			l.serve(first, "created-before")
			if prev != nil && prev != first {
				l.serve(prev, "created-before")
			}
			// muxes = [first, older..., prev, pm]
			if n := len(l.muxes) - 3; n > 0 {
				l.serve(l.muxes[1+rng.Intn(n)], "created-before")
			}
			// a mux with default options created afterwards
			l.serve(l.create(""), "created-after")
		}
	}
	for _, pm := range l.muxes {
		l.serve(pm, "created-before")
	}
	for _, pm := range l.muxes {
		pm.e.close()
	}
}

// buildNeighbourPopulation creates (and drops) one mux per option set: used by
// Replay, where the mux under test must not live alone in the process.
func buildNeighbourPopulation() {
	for _, kind := range popOptionSets(false) {
		larking.NewMux(popOptions(kind)...) //nolint:errcheck
	}
}
