package transcode

import (
	"bytes"
	"fmt"
	"math/rand"
	"regexp"
	"sort"
	"strings"

	"google.golang.org/protobuf/proto"
	"google.golang.org/protobuf/reflect/protoreflect"
	"google.golang.org/protobuf/types/known/structpb"

	"verif/internal/mon"
	"verif/internal/vschema"
	"verif/internal/wire"
)

// ------------------------------------------------------------ RFC 7231 Accept

// mediaRange is one element of an Accept header.
type mediaRange struct {
	typ, sub string
	q        float64
}

func (m mediaRange) specificity() int {
	switch {
	case m.typ == "*":
		return 0
	case m.sub == "*":
		return 1
	}
	return 2
}

func isTchar(c byte) bool {
	switch {
	case c >= 'a' && c <= 'z', c >= 'A' && c <= 'Z', c >= '0' && c <= '9':
		return true
	}
	return strings.IndexByte("!#$%&'*+-.^_`|~", c) >= 0
}

func isToken(s string) bool {
	if s == "" {
		return false
	}
	for i := 0; i < len(s); i++ {
		if !isTchar(s[i]) {
			return false
		}
	}
	return true
}

var reQvalue = regexp.MustCompile(`^(0(\.[0-9]{0,3})?|1(\.0{0,3})?)$`)

func trimOWS(s string) string { return strings.Trim(s, " \t") }

// parseAccept7231 parses the combined Accept field values. ok is false when
// the header is outside the part of RFC 7231 section 5.3.2 the engine
// evaluates: #( media-range [ OWS ";" OWS "q=" qvalue ] ) with lower-case
// tokens, no media-type parameters, no accept-ext, no quoted strings and no
// empty list elements. Such headers only get the "no crash / decodable by
// its own Content-Type" check.
func parseAccept7231(values []string) (ranges []mediaRange, ok bool) {
	ranges, excl, ok := parseAcceptExcl(values)
	if len(excl) > 0 {
		return nil, false
	}
	return ranges, ok
}

// parseAcceptExcl additionally understands the one unambiguous use of
// media-type parameters: "type/subtype;param=value;q=0" (the weight follows
// the parameters, RFC 7231 5.3.2) EXCLUDES that type whatever the parameter
// means. Such types are returned in excluded and not in ranges.
func parseAcceptExcl(values []string) (ranges []mediaRange, excluded []string, ok bool) {
	for _, v := range values {
		if strings.ContainsAny(v, "\"\r\n") || v != trimOWS(v) {
			return nil, nil, false
		}
		for _, el := range strings.Split(v, ",") {
			el = trimOWS(el)
			if el == "" {
				return nil, nil, false
			}
			parts := strings.Split(el, ";")
			mr := trimOWS(parts[0])
			if mr != strings.ToLower(mr) {
				return nil, nil, false
			}
			t, s, found := strings.Cut(mr, "/")
			if !found || !isToken(t) || !isToken(s) {
				return nil, nil, false
			}
			if t == "*" && s != "*" {
				return nil, nil, false
			}
			if (strings.Contains(t, "*") && t != "*") || (strings.Contains(s, "*") && s != "*") {
				return nil, nil, false
			}
			r := mediaRange{typ: t, sub: s, q: 1}
			switch len(parts) {
			case 1:
			case 2:
				prm := trimOWS(parts[1])
				if !strings.HasPrefix(prm, "q=") || !reQvalue.MatchString(prm[2:]) {
					return nil, nil, false
				}
				fmt.Sscanf(prm[2:], "%g", &r.q)
			default:
				// type/subtype;param=value[;...];q=0
				last := trimOWS(parts[len(parts)-1])
				if r.typ == "*" || r.sub == "*" || !strings.HasPrefix(last, "q=") || !reQvalue.MatchString(last[2:]) {
					return nil, nil, false
				}
				var q float64
				fmt.Sscanf(last[2:], "%g", &q)
				if q != 0 {
					return nil, nil, false
				}
				for _, prm := range parts[1 : len(parts)-1] {
					k, val, found := strings.Cut(trimOWS(prm), "=")
					if !found || !isToken(k) || !isToken(val) || strings.EqualFold(k, "q") {
						return nil, nil, false
					}
				}
				excluded = append(excluded, r.typ+"/"+r.sub)
				continue
			}
			ranges = append(ranges, r)
		}
	}
	return ranges, excluded, true
}

// admitted evaluates a media type against the ranges: the most specific
// matching ranges decide (RFC 7231 5.3.2); when several equally specific
// ranges match, qmin/qmax give the span of their weights.
func admitted(ranges []mediaRange, mediaType string) (matched bool, qmin, qmax float64) {
	t, s, _ := strings.Cut(mediaType, "/")
	best := -1
	for _, r := range ranges {
		if !((r.typ == "*" && r.sub == "*") || (r.typ == t && r.sub == "*") || (r.typ == t && r.sub == s)) {
			continue
		}
		sp := r.specificity()
		switch {
		case sp > best:
			best, qmin, qmax = sp, r.q, r.q
		case sp == best:
			if r.q < qmin {
				qmin = r.q
			}
			if r.q > qmax {
				qmax = r.q
			}
		}
	}
	return best >= 0, qmin, qmax
}

func isRegistered(kind, ct string) bool {
	for _, t := range mediaTypesOf(kind) {
		if t == ct {
			return true
		}
	}
	return false
}

// acceptClass is the structural class of an Accept header.
func acceptClass(kind string, values []string) string {
	if len(values) == 0 {
		return "absent"
	}
	ranges, ok := parseAccept7231(values)
	if !ok {
		return "unparseable"
	}
	var parts []string
	for _, r := range ranges {
		sp := []string{"*/*", "type/*", "exact"}[r.specificity()]
		if r.specificity() == 2 && !isRegistered(kind, r.typ+"/"+r.sub) {
			sp = "exact-unregistered"
		} else if r.specificity() == 2 && isCustomType(r.typ+"/"+r.sub) {
			sp = "exact-custom"
		}
		if r.specificity() == 1 && r.typ != "application" {
			sp = "type/*-unregistered"
		}
		q := "q>0"
		if r.q == 0 {
			q = "q=0"
		}
		parts = append(parts, sp+";"+q)
	}
	// the class is the set of range kinds, not their order
	sort.Strings(parts)
	uniq := parts[:0]
	for i, x := range parts {
		if i == 0 || x != parts[i-1] {
			uniq = append(uniq, x)
		}
	}
	if len(values) > 1 {
		uniq = append(uniq, "split")
	}
	return strings.Join(uniq, ",")
}

// ------------------------------------------------------------ execution

func selected(reply proto.Message, resp []protoreflect.FieldDescriptor) proto.Message {
	cur := reply.ProtoReflect()
	for _, fd := range resp {
		if !cur.Has(fd) {
			return vschema.NewMsg(fd.Message())
		}
		cur = cur.Get(fd).Message()
	}
	return cur.Interface()
}

func outClass(md protoreflect.MessageDescriptor) string {
	if md.FullName() == "google.api.HttpBody" {
		return "httpbody"
	}
	if wktName(md) != "" {
		return "well-known-type"
	}
	return "message"
}

// execC04 serves the request with the planted reply and checks the response
// body and headers. A failure of a case whose handler touches the response
// metadata (grpc.SetHeader / SendHeader / SetTrailer) is retried with a plain
// handler: if that works the finding key names the handler behaviour.
func execC04(e *env, c *Case) (o outcome) {
	o = execC04Once(e, c, c.Handler)
	if len(o.viols) > 0 && len(c.Req.Header["Twirp-Version"]) > 0 {
		c2 := *c
		c2.Req.Header = map[string][]string{}
		for k, v := range c.Req.Header {
			if k != "Twirp-Version" {
				c2.Req.Header[k] = v
			}
		}
		if o2 := execC04Once(e, &c2, c.Handler); len(o2.viols) == 0 && o2.inconcl == "" {
			for i := range o.viols {
				o.viols[i].key = keyFamily(o.viols[i].key) + ":twirp-version-header"
				o.viols[i].what += " - the same request without the Twirp-Version header is answered correctly"
			}
			return o
		}
	}
	if c.Rule.Via == "config" {
		// failures of the body / response_body selection on a rule that came
		// through ServiceConfigOption name that in the key
		cls := ":service-config-rule"
		if c.Rule.Ann != nil && c.Rule.Ann.Tmpl == "" {
			cls = ":service-config-rule-redeclaring-annotated-route"
		}
		for i, v := range o.viols {
			if strings.HasPrefix(v.key, "c04:undecodable:") || strings.HasPrefix(v.key, "c04:wrong-reply:") || strings.HasPrefix(v.key, "c04:httpbody:") {
				o.viols[i].key = keyFamily(v.key) + cls
			}
		}
	}
	if len(o.viols) > 0 && c.Handler != "" {
		if o2 := execC04Once(e, c, ""); len(o2.viols) == 0 && o2.inconcl == "" {
			hc := c.Handler
			if strings.Contains(hc, "send-header") {
				hc = "send-header" // every variant that sends the headers early
			}
			for i := range o.viols {
				o.viols[i].key = keyFamily(o.viols[i].key) + ":handler=" + hc
				o.viols[i].what += " - the same request is answered correctly when the handler does not call " + c.Handler
			}
		}
	}
	return o
}

func execC04Once(e *env, c *Case, handler string) (o outcome) {
	p, err := newPlan(c.Rule)
	if err != nil {
		o.inconcl = "bad case: " + err.Error()
		return
	}
	if msg, ok := e.regErr[c.Rule.ID]; ok {
		o.add("c04:response_body:valid-rule-rejected:body="+c.Rule.bodyShape(), fmt.Sprintf("rule %s %s body=%q response_body=%q (field of %s) was rejected at registration: %s",
			c.Rule.Verb, c.Rule.Tmpl, c.Rule.Body, c.Rule.Resp, c.Rule.Out, msg))
		return
	}
	if pi, ok := e.regPanic[c.Rule.ID]; ok {
		o.add(pi.Key(), fmt.Sprintf("registration of rule %s %s response_body=%q panicked: %s", c.Rule.Verb, c.Rule.Tmpl, c.Rule.Resp, pi.Value))
		return
	}
	reply, err := decodeMsg(c.Rule.Out, c.Reply)
	if err != nil {
		o.inconcl = "bad case: " + err.Error()
		return
	}
	want := selected(reply, p.resp)
	if wktName(want.ProtoReflect().Descriptor()) != "" && roundTrips(want) != nil {
		// e.g. an unset google.protobuf.Value: the reference cannot encode it either
		o.count("c04_no_claim_reference_cannot_encode_selected_reply")
		return
	}
	e.rec.setReply(reply)
	e.rec.setHdrMode(handler)
	resp, calls := serve(e, c.Req)
	e.rec.setReply(nil)
	e.rec.setHdrMode("")
	hdr := func(k string) string {
		if v := c.Req.Header[k]; len(v) > 0 {
			return strings.Join(v, " | ")
		}
		return "(absent)"
	}
	ctx := fmt.Sprintf("rule %s %s body=%q response_body=%q; request %s %s Content-Type=%s Accept=%s Accept-Encoding=%s", c.Rule.Verb, c.Rule.Tmpl, c.Rule.Body, c.Rule.Resp,
		c.Req.Verb, c.Req.Path, hdr("Content-Type"), hdr("Accept"), hdr("Accept-Encoding"))
	if _, _, pop := parsePopKind(e.kind); pop {
		ctx += "; mux created with " + popClass(e.kind) + " " + e.kind
	} else if e.kind != "" {
		ctx += "; mux with " + e.kind + " (" + ctAltJSON + ", " + ctAltProto + ")"
	}
	if handler != "" {
		ctx += "; handler calls " + handler
	}
	if resp.Wedged {
		o.inconcl = "request did not return within the watchdog"
		return
	}
	if resp.Panic != nil {
		o.add(resp.Panic.Key(), ctx+": panic: "+resp.Panic.Value)
		return
	}
	if len(calls) == 0 {
		o.count("c04_request_did_not_reach_the_handler")
		return
	}
	oc := outClass(want.ProtoReflect().Descriptor())
	if c.Rule.Resp != "" {
		oc += "+response_body"
	}
	if resp.Code != 200 {
		o.add("c04:reply-not-delivered:"+oc, fmt.Sprintf("%s: the handler returned a reply but the client got status %d: %s", ctx, resp.Code, bodySnippet(resp.Body)))
		return
	}
	ct := resp.Header.Get("Content-Type")
	ce := resp.Header.Get("Content-Encoding")
	payload := resp.Body
	switch ce {
	case "", "identity":
	case "gzip":
		un, err := wire.Gunzip(resp.Body)
		if err != nil {
			o.add("c04:content-encoding:gzip-header-but-not-gzip-bytes", fmt.Sprintf("%s: Content-Encoding: gzip but the body does not gunzip: %v", ctx, err))
			return
		}
		payload = un
	default:
		if isPopCoding(ce) {
			// a coding registered with CompressorOption (population lane): the
			// header is truthful when the harness's decoder of that coding
			// accepts the bytes
			un, err := popDecompress(ce, resp.Body)
			if err != nil {
				o.add("c04:content-encoding:extra-coding-header-but-not-those-bytes", fmt.Sprintf("%s: Content-Encoding %q but the body does not decode with that coding: %v", ctx, ce, err))
				return
			}
			payload = un
			o.count("responses_encoded_with_an_extra_compressor")
			break
		}
		o.add("c04:content-encoding:unknown-coding", fmt.Sprintf("%s: Content-Encoding %q", ctx, ce))
		return
	}
	hiddenGzip := func() bool {
		if ce == "gzip" || len(payload) < 2 || payload[0] != 0x1f || payload[1] != 0x8b {
			return false
		}
		_, err := wire.Gunzip(payload)
		return err == nil
	}
	wmd := want.ProtoReflect().Descriptor()
	if wmd.FullName() == "google.api.HttpBody" {
		wr := want.ProtoReflect()
		data := wr.Get(wmd.Fields().ByName("data")).Bytes()
		wct := wr.Get(wmd.Fields().ByName("content_type")).String()
		if !bytes.Equal(payload, data) {
			if hiddenGzip() {
				o.add("c04:content-encoding:gzip-bytes-without-header", ctx+": the body is gzip-compressed but Content-Encoding is "+fmt.Sprintf("%q", ce))
				return
			}
			o.add("c04:httpbody:data-mismatch:"+oc, fmt.Sprintf("%s: HttpBody reply with %d data bytes, response body has %d bytes (Content-Type %q)", ctx, len(data), len(payload), ct))
			return
		}
		if ct != wct {
			o.add("c04:httpbody:content-type-mismatch:"+oc, fmt.Sprintf("%s: HttpBody content_type %q, response Content-Type %q", ctx, wct, ct))
			return
		}
		o.distinct = "c04|" + c.Rule.ID + "|httpbody|" + c.Class + "|ce=" + ce
		return
	}
	got := vschema.NewMsg(wmd)
	codec, known, derr := decodeBy(e.kind, ct, payload, got)
	if !known {
		o.add("c04:undecodable:content-type-not-a-registered-codec:"+oc, fmt.Sprintf("%s: response Content-Type %q names no registered codec; body %q", ctx, ct, bodySnippet(payload)))
		return
	}
	if derr != nil || !proto.Equal(got, want) {
		for _, magic := range []string{altJSONMagic, altProtoMagic} {
			if markOf(e.kind, ct) != magic && strings.HasPrefix(string(payload), magic) {
				o.add("c04:foreign-codec-output:"+strings.TrimPrefix(ct, "application/"), fmt.Sprintf("%s: the body under Content-Type %q starts with the mark %q of a codec this mux never registered for that type (it was registered with CodecOption on ANOTHER mux of the process)", ctx, ct, magic))
				return
			}
		}
		if hiddenGzip() {
			o.add("c04:content-encoding:gzip-bytes-without-header", ctx+": the body is gzip-compressed but Content-Encoding is "+fmt.Sprintf("%q", ce))
			return
		}
		if derr != nil {
			o.add("c04:undecodable:"+codec+":"+oc, fmt.Sprintf("%s: body does not decode with the codec named by Content-Type %q: %v; body %q", ctx, ct, derr, bodySnippet(payload)))
			return
		}
		o.add("c04:wrong-reply:"+codec+":"+oc, fmt.Sprintf("%s: decoded reply differs from the handler's reply: %s", ctx, diffFields(want, got)))
		return
	}
	// Accept admission
	acc := c.Req.Header["Accept"]
	reqCT := "application/json"
	if v := c.Req.Header["Content-Type"]; len(v) > 0 {
		reqCT = v[0]
	}
	verdict := "accept-not-evaluated"
	if len(acc) == 0 {
		verdict = "accept-absent"
	} else if ranges, excl, ok := parseAcceptExcl(acc); ok && len(excl) > 0 {
		// "type;param=x;q=0": the type is excluded. A server that ignores the
		// whole header line and answers in the request's own type is accepted
		// too; choosing the excluded type although it is not the request's own
		// and another registered type is admitted is not.
		verdict = "accept-parameter-q0"
		isExcl := false
		for _, x := range excl {
			isExcl = isExcl || x == ct
		}
		otherAdmitted := false
		for _, t := range e.mediaTypes() {
			tExcl := false
			for _, x := range excl {
				tExcl = tExcl || x == t
			}
			if m, qmin, _ := admitted(ranges, t); m && qmin > 0 && !tExcl {
				otherAdmitted = true
			}
		}
		if isExcl && ct != reqCT && otherAdmitted {
			o.add("c04:accept:q0-excluded-type-chosen:excluded-by=exact-with-parameter", fmt.Sprintf("%s: response Content-Type %q is excluded by a range with a media-type parameter followed by q=0, is not the request's own type, and another registered type is admitted", ctx, ct))
			return
		}
	} else if ranges, ok := parseAccept7231(acc); ok {
		anyMust, anyMay := false, false
		builtinMust, customMust := false, false
		for _, t := range e.mediaTypes() {
			if m, qmin, qmax := admitted(ranges, t); m {
				anyMust = anyMust || qmin > 0
				anyMay = anyMay || qmax > 0
				if qmin > 0 && isCustomType(t) {
					customMust = true
				} else if qmin > 0 {
					builtinMust = true
				}
			}
		}
		m, _, qmax := admitted(ranges, ct)
		// structural class of a failure: the specificity of the range that
		// decides the response type (excluded-by, when its weight is 0) and of
		// the most specific q>0 range that matches it (chosen-via)
		specName := func(i int) string {
			if i < 0 {
				return "none"
			}
			return []string{"*/*", "type/*", "exact"}[i]
		}
		ctT, ctS, _ := strings.Cut(ct, "/")
		decide, via := -1, -1
		for _, rg := range ranges {
			if !((rg.typ == "*" && rg.sub == "*") || (rg.typ == ctT && rg.sub == "*") || (rg.typ == ctT && rg.sub == ctS)) {
				continue
			}
			if sp := rg.specificity(); sp > decide {
				decide = sp
			}
			if sp := rg.specificity(); rg.q > 0 && sp > via {
				via = sp
			}
		}
		cls := "excluded-by=" + specName(decide) + ",chosen-via=" + specName(via)
		if m && qmax <= 0 {
			// the response type is explicitly excluded: one key family for both
			// conditions below
			cls = "q0-excluded-type-chosen:" + cls
		}
		if customMust && !builtinMust {
			// only media types added with CodecOption satisfy the header: one
			// key per condition, whatever the ranges look like
			cls = "admitted=custom-codec-types-only"
		}
		switch {
		case anyMust:
			if !m || qmax <= 0 {
				why := "matched by no range"
				if m {
					why = "excluded with q=0 by its most specific range"
				}
				o.add(acceptKey("response-type-not-admitted", cls), fmt.Sprintf("%s: response Content-Type %q is %s although a registered type is admitted with q>0", ctx, ct, why))
				return
			}
			verdict = "admitted"
		case !anyMay:
			if ct != reqCT {
				o.add(acceptKey("none-admitted-response-not-request-type", cls), fmt.Sprintf("%s: no registered type is admitted, response Content-Type %q is not the request's own type %q", ctx, ct, reqCT))
				return
			}
			verdict = "none-admitted-request-type"
		default:
			verdict = "accept-ambiguous"
		}
	}
	o.distinct = "c04|" + c.Rule.ID + "|" + codec + "|" + c.Class + "|" + verdict + "|ce=" + ce
	if len(c.Req.Header["Accept-Encoding"]) > 0 && ce == "" {
		o.count("responses_identity_although_accept_encoding_present")
	}
	if ce == "gzip" {
		o.count("responses_gzip_encoded")
	}
	return
}

// keyFamily keeps the first three segments of a finding key.
func keyFamily(key string) string {
	parts := strings.Split(key, ":")
	if len(parts) > 3 && !strings.HasPrefix(key, "panic@") {
		parts = parts[:3]
	}
	return strings.Join(parts, ":")
}

func acceptKey(cond, cls string) string {
	if strings.HasPrefix(cls, "q0-excluded-type-chosen:") {
		return "c04:accept:" + cls
	}
	return "c04:accept:" + cond + ":" + cls
}

// ------------------------------------------------------------ generation

func replyRules() (dynamic, real []RuleSpec) {
	rule := func(id, out, verb, tmpl, body, resp string) RuleSpec {
		return RuleSpec{ID: id, In: "vf.Req", Out: out, Verb: verb, Tmpl: tmpl, Body: body, Resp: resp}
	}
	cx := "larking.testpb.ComplexRequest"
	hb := "google.api.HttpBody"
	dynamic = []RuleSpec{
		rule("c4:post-req", "vf.Req", "POST", "/c4/echo", "*", ""),
		rule("c4:get-req", "vf.Req", "GET", "/c4/get/{a}", "", ""),
		rule("c4:post-complex", cx, "POST", "/c4/cx", "*", ""),
		rule("c4:get-complex", cx, "GET", "/c4/cx/{a}", "", ""),
		rule("c4:get-rsp", "vf.Rsp", "GET", "/c4/rsp/{a}", "", ""),
		rule("c4:get-httpbody", hb, "GET", "/c4/raw/{a}", "", ""),
		rule("c4:post-httpbody", hb, "POST", "/c4/raw", "*", ""),
		rule("c4:rb-get-echo", "vf.Rsp", "GET", "/c4/rb1/{a}", "", "echo"),
		rule("c4:rb-post-star-echo", "vf.Rsp", "POST", "/c4/rb2", "*", "echo"),
		rule("c4:rb-post-sub-sub", "vf.Rsp", "POST", "/c4/rb3", "sub", "sub"),
		rule("c4:rb-post-sub-echo", "vf.Rsp", "POST", "/c4/rb4", "sub", "echo"),
		rule("c4:rb-get-httpbody", "vf.Rsp", "GET", "/c4/rb5/{a}", "", "body"),
		rule("c4:rb-post-star-sub", "vf.Rsp", "POST", "/c4/rb6", "*", "sub"),
	}
	// rules delivered through ServiceConfigOption: routes of their own and
	// re-declarations of the annotated route with another body / response_body
	cfg := func(id, verb, tmpl, body, resp string, ann *annSpec) RuleSpec {
		return RuleSpec{ID: id, In: "vf.Req", Out: "vf.Rsp", Verb: verb, Tmpl: tmpl, Body: body, Resp: resp, Via: "config", Ann: ann}
	}
	// replies that ARE well-known types with a JSON form of their own, and
	// response_body selectors on such fields
	for _, w := range []string{"Timestamp", "Duration", "FieldMask", "BoolValue", "Int32Value", "Int64Value", "UInt32Value", "UInt64Value", "FloatValue",
		"DoubleValue", "StringValue", "BytesValue", "Struct", "Value", "ListValue", "Empty"} {
		dynamic = append(dynamic, rule("c4:wkt-reply-"+w, "google.protobuf."+w, "GET", "/c4/w/"+strings.ToLower(w)+"/{a}", "", ""))
	}
	for _, f := range []string{"ts", "dur", "fm", "ws", "wl"} {
		dynamic = append(dynamic, rule("c4:wkt-rb-req-"+f, "vf.Req", "GET", "/c4/wr/"+f+"/{a}", "", f))
	}
	for _, f := range []string{"timestamp", "duration", "field_mask", "bool_value_wrapper", "int32_value_wrapper", "uint64_value_wrapper", "float_value_wrapper",
		"double_value_wrapper", "string_value_wrapper", "bytes_value_wrapper", "struct", "value", "list_value", "empty"} {
		dynamic = append(dynamic, rule("c4:wkt-rb-complex-"+f, cx, "POST", "/c4/wc/"+f, "*", f))
	}
	// additional bindings whose response_body / body differ from the primary rule's
	add := func(id, verb, tmpl, body, resp string, primary *annSpec, adds ...annSpec) RuleSpec {
		return RuleSpec{ID: id, In: "vf.Req", Out: "vf.Rsp", Verb: verb, Tmpl: tmpl, Body: body, Resp: resp, Primary: primary, Adds: adds}
	}
	dynamic = append(dynamic,
		add("c4:additional-whole-under-primary-resp", "GET", "/c4/a1/{a}", "", "", &annSpec{Verb: "GET", Tmpl: "/c4/a1p/{a}", Resp: "echo"}),
		add("c4:additional-resp-under-primary-whole", "GET", "/c4/a2/{a}", "", "sub", &annSpec{Verb: "GET", Tmpl: "/c4/a2p/{a}"}),
		add("c4:additional-other-resp-and-body", "POST", "/c4/a3", "sub", "echo", &annSpec{Verb: "POST", Tmpl: "/c4/a3p", Body: "*", Resp: "sub"}),
		add("c4:additional-httpbody-under-primary-msg", "GET", "/c4/a5/{a}", "", "body", &annSpec{Verb: "GET", Tmpl: "/c4/a5p/{a}", Resp: "echo"}),
		add("c4:primary-resp-with-additionals", "GET", "/c4/a4/{a}", "", "sub", nil, annSpec{Verb: "GET", Tmpl: "/c4/a4x/{a}"}, annSpec{Verb: "POST", Tmpl: "/c4/a4y", Body: "*", Resp: "echo"}),
	)
	dynamic = append(dynamic,
		cfg("c4:cfg-own-route-resp-echo", "GET", "/c4/k1/{a}", "", "echo", nil),
		cfg("c4:cfg-own-route-whole", "POST", "/c4/k2", "*", "", &annSpec{Verb: "GET", Tmpl: "/c4/k2ann/{a}", Resp: "sub"}),
		cfg("c4:cfg-adds-resp-to-annotated-route", "POST", "/c4/k3", "*", "echo", &annSpec{Body: "*"}),
		cfg("c4:cfg-changes-resp-of-annotated-route", "GET", "/c4/k4/{a}", "", "sub", &annSpec{Resp: "echo"}),
		cfg("c4:cfg-drops-resp-of-annotated-route", "GET", "/c4/k5/{a}", "", "", &annSpec{Resp: "echo"}),
		cfg("c4:cfg-changes-body-and-resp", "POST", "/c4/k6", "sub", "body", &annSpec{Body: "*"}),
	)
	rsp := "larking.testpb."
	real = []RuleSpec{
		pbRule("Messaging", "GetShelf", "GetShelfRequest", rsp+"Shelf", "GET", "/v1/{name=shelves/*}", ""),
		pbRule("Messaging", "GetBook", "GetBookRequest", rsp+"Book", "GET", "/v1/{name=shelves/*/books/*}", ""),
		pbRule("Messaging", "UpdateBook", "UpdateBookRequest", rsp+"Book", "PATCH", "/v1/{book.name=shelves/*/books/*}", "book"),
		pbRule("Messaging", "GetMessageOne", "GetMessageRequestOne", rsp+"Message", "GET", "/v1/messages/{name=name/*}", ""),
		pbRule("Files", "UploadDownload", "UploadFileRequest", hb, "POST", "/files/{filename}", "file"),
		pbRule("WellKnown", "Check", "Scalars", "google.protobuf.Empty", "GET", "/v1/wellknown", ""),
		// implicit routes: any verb, /package.Service/Method, body "*"
		pbRule("Messaging", "GetMessageOne", "GetMessageRequestOne", rsp+"Message", "*", "/larking.testpb.Messaging/GetMessageOne", "*"),
		pbRule("Messaging", "GetBook", "GetBookRequest", rsp+"Book", "*", "/larking.testpb.Messaging/GetBook", "*"),
	}
	return
}

var (
	mediaPool = []string{"application/json", "application/protobuf", "application/octet-stream", "application/*", "*/*", "text/plain", "text/*",
		"application/xml", "image/png", "application/grpc", "application/x-protobuf", "application/json", "application/protobuf", "*/*"}
	junkPool = []string{"google.api.HttpBody", "json", "*", "application/", "/json", "application/json/extra", "a b/c", ";q=1", "application/json;",
		"application/json;q=", "application/json;q=2", "application/json;q=0.1234", "application/json;q=-1", "application/json;q=abc", "\"application/json\"",
		"application/json;charset=utf-8", "application/json;q=0.5;ext=1", "APPLICATION/JSON", "*/json", ",", "", "application/json;Q=0.5", "application/json; q = 0.5",
		"text/plain;q=0.5;x=1, application/protobuf", "\x00", "application/protobuf,", "google.api.HttpBody;q=0.9"}
	qPool   = []string{"", "", "0", "0.1", "0.5", "1", "1.000", "0.000", "0.001", "0.9"}
	sepPool = []string{",", ", ", " ,\t", ",  ", " , "}
	semPool = []string{";", "; ", " ;", " ; ", ";\t"}

	fixedAccepts = [][]string{
		nil,
		{"application/json"}, {"application/protobuf"}, {"application/octet-stream"}, {"*/*"}, {"application/*"},
		{"application/json;q=0, */*"}, {"application/json;q=0, application/*"}, {"application/protobuf;q=0, */*;q=0.5"}, {"application/*;q=0, */*"},
		{"*/*;q=0"}, {"application/json;q=0"}, {"text/plain"}, {"text/*, application/protobuf;q=0.1"},
		{"application/json;q=0", "*/*"}, {"application/json;q=0.000, application/octet-stream;q=0, */*;q=0.1"},
		{"application/protobuf;q=0.5, application/json;q=1.000"}, {"text/plain, application/octet-stream ; q=0.5"},
		{"application/json;q=0, application/protobuf;q=0, application/octet-stream;q=0, */*"},
		{"google.api.HttpBody"}, {"google.api.HttpBody, application/json;q=0.5"}, {"application/json;q=0.5, google.api.HttpBody"},
		{"text/plain", "google.api.HttpBody;q=0.9"},
		{"application/*;q=0, application/protobuf;q=0.9, */*"},
		{"application/json;q=0, application/octet-stream;q=0, application/protobuf;q=0.5, */*;q=0.9"},
		{"application/protobuf;q=0, application/octet-stream"}, {"application/*;q=0.5, application/json;q=0"},
		{"application/json;charset=utf-8;q=0, application/protobuf"}, {"application/protobuf;v=1;q=0, application/json"},
		{"application/json; charset=utf-8 ; q=0.000, */*"}, {"application/octet-stream;x=y;q=0, application/json;charset=utf-8;q=0, application/*"},
	}
	acceptEncodingPool = [][]string{nil, nil, {"gzip"}, {"identity"}, {"*"}, {"gzip;q=0"}, {"deflate, br"}, {"gzip, identity;q=0.5"}, {"identity;q=0, gzip"},
		{"junk/x"}, {"application/json"}, {"gzip;q=0.5, *;q=0"}, {"gzip", "deflate"}, {"GZIP"}, {"x-gzip"}, {"google.api.HttpBody"}}
	requestTypes   = []string{"", "application/json", "application/protobuf", "application/octet-stream"}
	httpBodyCTypes = []string{"text/plain", "application/json", "image/png", "text/html; charset=utf-8", "application/x-custom+json;v=2", "application/octet-stream",
		"multipart/form-data; boundary=xyz", "application/protobuf", "text/plain;charset=\"utf-8\"", "x/y", "application/vnd.api+json; profile=\"a b\""}
)

// customAccepts name the media types registered with CodecOption.
var customAccepts = [][]string{
	{ctAltJSON}, {ctAltProto}, {ctAltJSON + ";q=0.5, text/plain"}, {"application/json;q=0, " + ctAltProto},
	{"application/json;q=0, application/protobuf;q=0, application/octet-stream;q=0, " + ctAltJSON + ";q=0.1"},
	{"text/plain, " + ctAltProto + ";q=0.3, image/png"}, {ctAltJSON + ";q=0, */*"}, {ctAltProto, ctAltJSON + ";q=0"},
	{"application/*;q=0, " + ctAltProto}, {ctAltJSON + ";q=0, " + ctAltProto + ";q=0, text/*"},
	{ctAltEarly}, {ctAltEarly + ";q=0.4, text/plain"}, {"application/json;q=0, " + ctAltEarly},
}

func init() {
	for _, j := range junkPool {
		fixedAccepts = append(fixedAccepts, []string{j})
	}
}

func randAccept(rng *rand.Rand, kind string) []string {
	n := 1 + rng.Intn(4)
	var parts []string
	for i := 0; i < n; i++ {
		var el string
		if rng.Intn(10) == 0 {
			el = junkPool[rng.Intn(len(junkPool))]
		} else {
			el = mediaPool[rng.Intn(len(mediaPool))]
			if kind == muxCustom && rng.Intn(3) == 0 {
				el = []string{ctAltJSON, ctAltProto, ctAltEarly}[rng.Intn(3)]
			}
			if q := qPool[rng.Intn(len(qPool))]; q != "" {
				el += semPool[rng.Intn(len(semPool))] + "q=" + q
			}
		}
		parts = append(parts, el)
	}
	if len(parts) > 1 && rng.Intn(4) == 0 {
		k := 1 + rng.Intn(len(parts)-1)
		return []string{strings.Join(parts[:k], sepPool[rng.Intn(len(sepPool))]), strings.Join(parts[k:], sepPool[rng.Intn(len(sepPool))])}
	}
	return []string{strings.Join(parts, sepPool[rng.Intn(len(sepPool))])}
}

// genReply generates a reply of type md that survives both codecs.
func (g *gen) genReply(md protoreflect.MessageDescriptor) proto.Message {
	if w := wktName(md); w != "" {
		// a well-known type as the reply itself: default-valued and not
		for tries := 0; tries < 20; tries++ {
			m := vschema.NewMsg(md)
			switch {
			case g.rng.Intn(3) == 0:
				// default-valued (all fields unset)
			case urlWKT[w]:
				fillWKT(m.ProtoReflect(), g.rng.Intn(12)-2, g.rng)
			case w == "Struct":
				x, _ := structpb.NewStruct(map[string]any{"k": 1.5, "s": randString(g.rng), "n": nil, "l": []any{true, "x"}})
				m = x
			case w == "Value":
				m = []proto.Message{structpb.NewNumberValue(0), structpb.NewStringValue(""), structpb.NewBoolValue(false), structpb.NewNullValue(),
					structpb.NewStringValue(randString(g.rng)), structpb.NewNumberValue(g.rng.NormFloat64())}[g.rng.Intn(6)]
			case w == "ListValue":
				x, _ := structpb.NewList([]any{1.0, "a", nil})
				m = x
			}
			if roundTrips(m) == nil {
				return m
			}
		}
		return vschema.NewMsg(md)
	}
	if md.FullName() == "google.api.HttpBody" {
		m := vschema.NewMsg(md)
		r := m.ProtoReflect()
		var data []byte
		switch g.rng.Intn(6) {
		case 0:
		case 1:
			data = allBytes()
		case 2:
			data = make([]byte, 64<<10)
			g.rng.Read(data)
		case 3:
			data = []byte(`{"looks":"like json"}`)
		default:
			data = make([]byte, g.rng.Intn(300))
			g.rng.Read(data)
		}
		r.Set(md.Fields().ByName("content_type"), protoreflect.ValueOfString(httpBodyCTypes[g.rng.Intn(len(httpBodyCTypes))]))
		if len(data) > 0 {
			r.Set(md.Fields().ByName("data"), protoreflect.ValueOfBytes(data))
		}
		return m
	}
	for tries := 0; ; tries++ {
		var m proto.Message
		switch k := g.rng.Intn(12); {
		case k == 0 || tries > 20:
			m = vschema.NewMsg(md)
		default:
			d := (1 + 8*g.rng.Float64()) / float64(numFields(md))
			if d > 0.6 {
				d = 0.6
			}
			m = genMessage(g.rng, md, genOpts{density: d, bodyOnly: true, depth: 3})
			if k == 1 {
				// large reply
				fs := md.Fields()
				for i := 0; i < fs.Len(); i++ {
					if fd := fs.Get(i); fd.Kind() == protoreflect.StringKind && !fd.IsList() && fd.ContainingOneof() == nil {
						m.ProtoReflect().Set(fd, protoreflect.ValueOfString(strings.Repeat("large é ", 20000)))
						break
					}
				}
			}
		}
		if roundTrips(m) == nil {
			return m
		}
		g.r.Count("generator_rejected_reply", 1)
	}
}

// c04Case builds a valid request for the rule with the given negotiation
// headers and a planted reply.
var c04HandlerModes = []string{"", "send-header", "", "set-header", "", "send-header-empty", "", "set-header+send-header", "", "set-trailer", ""}

func (g *gen) c04Case(p *plan, kind, reqCT string, accept, acceptEnc []string) (*Case, error) {
	base := vschema.NewMsg(p.in)
	texts, err := p.fit(g.rng, base, -1)
	if err != nil {
		return nil, err
	}
	g.n++
	q := reqSpec{Verb: reqVerb(p.rule), Path: p.instantiate(texts), Header: map[string][]string{}}
	if reqCT != "" {
		q.Header["Content-Type"] = []string{reqCT}
	}
	if p.rule.Body != "" {
		var bodyMsg proto.Message = vschema.NewMsg(p.in)
		if p.body != nil {
			bodyMsg = vschema.NewMsg(p.body[len(p.body)-1].Message())
		}
		enc := bodyEnc{ctype: reqCT, gzip: g.n%5 == 0}
		if bodyMsg.ProtoReflect().Descriptor().FullName() == "google.api.HttpBody" {
			q.Body = []byte("raw upload bytes")
			if enc.gzip {
				q.Body = wire.Gzip(q.Body)
			}
		} else if q.Body, err = enc.encodeFor(kind, bodyMsg); err != nil {
			return nil, err
		}
		if enc.gzip {
			q.Header["Content-Encoding"] = []string{"gzip"}
		}
	}
	if len(accept) > 0 {
		q.Header["Accept"] = accept
	}
	if len(acceptEnc) > 0 {
		q.Header["Accept-Encoding"] = acceptEnc
	}
	reply := g.genReply(p.out)
	wireR, err := proto.Marshal(reply)
	if err != nil {
		return nil, err
	}
	rc := reqCT
	if rc == "" {
		rc = "absent"
	}
	if g.n%4 == 1 {
		// sent by Twirp clients and by proxies that add it: must not change
		// the negotiation of a successful reply
		q.Header["Twirp-Version"] = []string{[]string{"v5.12.0", "v7.1.0", "7", "x"}[(g.n/4)%4]}
	}
	handler := c04HandlerModes[g.n%len(c04HandlerModes)]
	cls := "req=" + strings.TrimPrefix(rc, "application/") + "|accept=" + acceptClass(kind, accept)
	if handler != "" {
		cls += "|handler=" + handler
	}
	if kind != "" {
		cls += "|mux=" + kind
	}
	return &Case{Prop: "C04", Kind: "c04", Class: cls, Rule: p.rule, Mux: kind, Handler: handler, Req: q,
		Reply: wireR, ReplyJSON: jsonOf(reply)}, nil
}

const ruleC04 = "unary rules returning vf.Req, larking.testpb.ComplexRequest (maps, Struct, Any, every scalar), vf.Rsp, google.api.HttpBody and real larking.testpb methods (GetShelf, GetBook, UpdateBook, GetMessageOne, Files.UploadDownload, WellKnown.Check); with and without response_body (top-level message fields incl. an HttpBody field; body '', '*' and <field>). The recording handler returns a planted reply (generator of C03: boundary / random values, empty, ~160 KiB, HttpBody with content types incl. parameters and arbitrary bytes up to 64 KiB). Requests: Content-Type absent / application/json / application/protobuf / application/octet-stream (optionally gzip bodies), Accept headers = a fixed table (single types, wildcards, q=0 exclusions, all-excluded, junk tokens, google.api.HttpBody, duplicated headers) x all request types, plus random headers (1-4 ranges, exact / type/* / */*, q in {absent,0,0.000,0.001,0.1,0.5,0.9,1,1.000}, OWS variants, junk elements, split over two header lines), Accept-Encoding values. Two further dimensions: (1) the handler touches the response metadata before returning (every 2nd case: grpc.SetHeader, grpc.SendHeader = headers sent early, SendHeader(nil), SetHeader+SendHeader, SetTrailer) - a failure that disappears with a plain handler is keyed handler=<mode>; (2) every rule also lives on a mux with two extra media types registered through larking.CodecOption (application/x-vf-json, application/x-vf-proto; magic-prefixed so the decoder can tell the named codec produced the body): there the registered universe has five types, request bodies / Content-Types and Accept headers name the extra types (fixed table of 10 headers x all six request types, the general fixed table with rotating request types, a third of the random headers). (3) a third mux REPLACES application/json and application/protobuf by the marked codecs, and a second plain mux is built after the option muxes: the plain muxes (built before and after) must answer in the built-in codecs, never carry a mark, and fall back for headers naming the extra types; (3b) the same tables on a mux with StatsOption + pass-through interceptors and on a mux whose FilesOption registry is a re-ordered second build of the descriptors while the handlers build replies on the first; (3f) request histories: on a mux with unary-only CodecOption codecs (one media type sorting before the built-in ones) the Accept-table cases are served, then server-streaming and bidi HTTP requests with various Accept headers are served by the SAME mux, then the same cases again - negotiation must be a function of the request, not of earlier requests; (3e) a concurrent lane: 8 goroutines send GETs over real loopback connections for self-describing replies of ~768 KiB, Accept alternating json / protobuf, and each must decode its own reply; (3g) a POPULATION of muxes in one process: one mux per small set of options that extend the default tables (every single extra CodecOption media type of a pool of nine sorting before / between / after the built-in types, pairs over all position pairs, triples, with none / one / two extra CompressorOption codings); each new mux is served a table built from its own registered universe (each registered type alone, preferred, and as the only type not excluded; types registered on other muxes only, alone and in front of a built-in type; Accept-Encoding naming own and foreign codings), then the tables of muxes created earlier are served again (the first default mux, the previous mux, a PRNG-chosen older one), a fresh default mux is created and served, and at the end every mux of the population is served once more; first round in canonical order, further rounds in PRNG order; a case that was answered correctly before the latest mux was created and is not afterwards is keyed mux-population:subject=<default-options|extended-options>,<created-before|created-after>-another-mux-with-extended-options (the option classes of both are in the text and in counters; a case already failing before the latest creation is counted, not reported again); (3h) the REQUEST content type as a dimension of the Accept tables: methods with a raw request body (google.api.HttpBody as the whole body, as a body-selected field, nested; POST / PUT / PATCH) or no body (GET / DELETE) and an ordinary reply (vf.Rsp, vf.Req, response_body, a well-known type), called with Content-Types no codec is registered for (other top-level types, parameters, +suffix types, a registered type with a parameter; the registered ones as controls) under a table built from the request's own type T and the registered universe (*/*, type-of-T/*, T alone, T next to / before / after a registered type at higher, equal and lower weights, T excluded, all registered excluded, two header lines) plus random headers over the same ranges, on the default and the custom-codecs mux: whenever a registered type is admitted with q>0 the reply must arrive in an admitted registered type and decode with it, whatever the header says about T (a failure that disappears when the same request is sent under a registered type is keyed request-content-type-not-a-registered-codec:accept-matches-it-via=<*/*|type/*|exact|none>); where no registered type is admitted or the header is absent / not evaluated, no claim is made and the outcome is counted; at the very end the foreign-mux lane (see C03) re-serves a set of cases after an unrelated mux was created with options for the built-in keys; (3d) a quarter of the requests carry a Twirp-Version header (a failure that disappears without it is keyed twirp-version-header), on annotated and implicit routes; (3c) replies that ARE well-known types with a JSON form of their own (Timestamp, Duration, FieldMask, the nine wrappers, Struct, Value, ListValue, Empty), default-valued and not, as the method's reply and as the response_body-selected field of vf.Req / ComplexRequest; (4a) rules with additional_bindings whose bindings differ from the primary rule in response_body and body (both the additional binding and the primary are exercised); (4) rules delivered through ServiceConfigOption (selector = method): on routes of their own and re-declaring the annotated route of the method with another body / response_body (the service configuration wins). Oracles: independent decode by the response Content-Type (protojson / proto.Unmarshal / the harness decoders of the extra codecs) and proto.Equal with the reply or its response_body field; HttpBody: body == data and Content-Type == content_type; Content-Encoding gzip must gunzip to the payload, absent / identity means the body is the payload; RFC 7231 5.3.2 evaluator (most specific range wins, q=0 excludes), applied only when the header parses under the evaluated grammar: if a registered type is admitted the response type must be admitted, if none is the response type must be the request's own (JSON when absent). distinct = (rule, response codec, request type, Accept class, admission verdict, response Content-Encoding). Stateful part: sequences of 16-40 requests on one mux against an asset-server handler that owns long-lived buffers (1 B - 40 KB) and long-lived reply messages and serves them repeatedly without copying (fresh HttpBody / vf.Rsp per call whose data / bytes field aliases the buffer; the same long-lived vf.Rsp whose response_body-selected HttpBody or vf.Req sub-message holds it), interleaved with other transcoded requests with request bodies and replies of 0 B - 60 KB in all codecs; every reply is checked against an expectation built from an independent pristine copy, after every step every handler-owned buffer must still equal its pristine copy (canary) and at the end every long-lived reply message must equal a freshly built one; distinct there = (asset shape, codec) of assets served again intact after other traffic"

// RunC04 is the unary-response-fidelity check.
func RunC04(r *mon.Run) {
	r.Rule = ruleC04
	r.Floor = 150
	r.Assume("replies are far below the default send limit; request content types are the registered media types of the mux under test (three built-in ones, plus two CodecOption types on the custom-codecs mux) or absent - in the request-content-type lane also media types without a registered codec, where the claim is made only for Accept headers that admit a registered type with q>0; Accept headers outside the evaluated RFC 7231 grammar (media-type parameters, accept-ext, upper case, empty elements, quoted strings) only get the no-crash / decodable-by-own-Content-Type check; response compression itself is not required by the property, only the truthfulness of Content-Encoding")
	g := &gen{r: r, rng: r.Rand("c04")}
	dyn, real := replyRules()
	all := append(append([]RuleSpec(nil), dyn...), real...)
	type rp struct {
		p *plan
		e *env
	}
	plansOf := map[string][]rp{}
	// build order matters for state shared between muxes: a plain mux first,
	// then the muxes built with CodecOption, then a second plain mux
	for _, slot := range []string{"", muxCustom, muxReplaced, "late", muxWithOptions, muxSkew} {
		kind := slot
		if slot == "late" {
			kind = ""
		}
		envD, err := buildDynamic(dyn, kind)
		if err != nil {
			r.Inconclusive("harness: " + err.Error())
			return
		}
		envR, err := buildTestpb(kind)
		if err != nil {
			r.Inconclusive("harness: " + err.Error())
			return
		}
		for _, rule := range all {
			p, err := newPlan(rule)
			if err != nil {
				r.Inconclusive("harness: " + err.Error())
				continue
			}
			e := envD
			if rule.Svc != "" {
				e = envR
			}
			plansOf[slot] = append(plansOf[slot], rp{p, e})
		}
	}
	plans := plansOf[""]
	do := func(x rp, reqCT string, acc, ae []string) {
		c, err := g.c04Case(x.p, x.e.kind, reqCT, acc, ae)
		if err != nil {
			r.Count("generator_rejected_case", 1)
			r.Set("generator_reject_example", x.p.rule.ID+": "+err.Error())
			return
		}
		apply(r, c, execCase(x.e, c))
	}
	// fixed table x request types x rules
	thinWKT := func(x rp, k int) bool {
		// the many well-known-type reply rules share the negotiation code
		// paths of the others: a slice of the tables is enough
		return strings.HasPrefix(x.p.rule.ID, "c4:wkt-") && k%r.Pick(7, 2) != 0
	}
	for _, x := range plans {
		for i, acc := range fixedAccepts {
			for j, ct := range requestTypes {
				if thinWKT(x, i+j) {
					continue
				}
				do(x, ct, acc, acceptEncodingPool[(i+j)%len(acceptEncodingPool)])
			}
		}
	}
	// the mux with two extra CodecOption media types: the fixed table plus
	// headers naming the extra types, request types rotating over all six
	// the plain muxes must not know the extra types: headers naming them fall back
	for xi, x := range plans {
		for i, acc := range customAccepts {
			do(x, requestTypes[(i+xi)%len(requestTypes)], acc, nil)
		}
	}
	// the mux with replaced built-in codecs, and the plain mux built after the
	// option muxes: the fixed table with rotating request types
	for _, slot := range []string{muxReplaced, "late", muxWithOptions, muxSkew} {
		for xi, x := range plansOf[slot] {
			if slot == muxSkew && x.p.rule.Svc != "" {
				continue
			}
			for i, acc := range append(append([][]string(nil), fixedAccepts...), customAccepts...) {
				if (!r.Thorough() && (i+xi)%3 != 0) || thinWKT(x, i+xi) {
					continue
				}
				do(x, requestTypes[(i+xi)%len(requestTypes)], acc, acceptEncodingPool[(i+xi)%len(acceptEncodingPool)])
			}
		}
	}
	customTypes := append(append([]string(nil), requestTypes...), ctAltJSON, ctAltProto, ctAltEarly)
	for xi, x := range plansOf[muxCustom] {
		for i, acc := range append(append([][]string(nil), customAccepts...), fixedAccepts...) {
			if thinWKT(x, i+xi) {
				continue
			}
			if i < len(customAccepts) {
				for _, ct := range customTypes {
					do(x, ct, acc, acceptEncodingPool[(i+xi)%len(acceptEncodingPool)])
				}
				continue
			}
			do(x, customTypes[(i+xi)%len(customTypes)], acc, acceptEncodingPool[(i+xi)%len(acceptEncodingPool)])
		}
	}
	// stateful sequences: replies served from long-lived handler buffers
	runSequences(r, g)
	// random negotiation headers
	n := r.Pick(2500, 150000)
	for k := 0; k < n; k++ {
		kind, types := "", requestTypes
		switch k % 6 {
		case 2, 5:
			kind, types = muxCustom, customTypes
		case 3:
			kind = muxReplaced
		case 4:
			kind = "late"
		}
		x := plansOf[kind][g.rng.Intn(len(plansOf[kind]))]
		if kind == "late" {
			kind = ""
		}
		var acc []string
		if g.rng.Intn(8) != 0 {
			acc = randAccept(g.rng, kind)
		}
		do(x, types[g.rng.Intn(len(types))], acc, acceptEncodingPool[g.rng.Intn(len(acceptEncodingPool))])
	}
	// the request content type as a dimension: uploads / stray types no codec is registered for
	runUploadC04(r, g)
	// request histories: the Accept tables after streaming requests on the same mux
	runHistoryC04(r, g)
	// concurrent clients over real connections with large replies
	runConcC04(r)
	// a population of muxes, one per small set of options extending the default tables
	runPopulationC04(r, g)
	// last of all: another mux with options for built-in keys appears in the process
	runForeignC04(r, g)
}
