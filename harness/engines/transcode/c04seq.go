package transcode

import (
	"bytes"
	"fmt"
	"strconv"
	"strings"

	"google.golang.org/protobuf/encoding/protojson"
	"google.golang.org/protobuf/proto"
	"google.golang.org/protobuf/reflect/protoreflect"

	"verif/internal/mon"
	"verif/internal/vschema"
	"verif/internal/wire"
)

// Stateful part of C04: sequences of requests on ONE mux against a handler
// that behaves like an asset / cache server. It owns long-lived buffers and
// long-lived reply messages and serves them again and again without copying:
// a fresh google.api.HttpBody (or vf.Rsp) per call whose bytes field aliases
// the handler's buffer, or the very same long-lived vf.Rsp whose
// response_body-selected sub-message holds the buffer. Asset downloads are
// interleaved with other transcoded requests of varying request / reply
// sizes. Oracles: (1) every reply equals an expectation built from an
// independent pristine copy of the asset; (2) canary: after every step each
// handler-owned buffer still equals its pristine copy, and at the end each
// long-lived reply message still equals a freshly built one. (2) catches a
// write into handler memory even before the asset is served again.

type seqStep struct {
	Rule  int     `json:"rule"` // index into Case.Rules
	Req   reqSpec `json:"req"`
	Asset int     `json:"asset"`           // >= 0: download of this asset; -1: other traffic
	Reply []byte  `json:"reply,omitempty"` // other traffic: wire bytes of the planted reply
}

// The first four rules are the asset shapes (asset k has shape k % 4).
var seqShapes = []string{"httpbody-data", "bytes-field", "response_body-httpbody-data", "response_body-message-bytes"}

func seqRules() []RuleSpec {
	rule := func(id, out, verb, tmpl, body, resp string) RuleSpec {
		return RuleSpec{ID: id, In: "vf.Req", Out: out, Verb: verb, Tmpl: tmpl, Body: body, Resp: resp}
	}
	return []RuleSpec{
		rule("s4:raw", "google.api.HttpBody", "GET", "/s4/raw/{a}", "", ""),
		rule("s4:rsp", "vf.Rsp", "GET", "/s4/rsp/{a}", "", ""),
		rule("s4:rb-body", "vf.Rsp", "GET", "/s4/rbb/{a}", "", "body"),
		rule("s4:rb-echo", "vf.Rsp", "GET", "/s4/rbe/{a}", "", "echo"),
		rule("s4:other-post", "vf.Req", "POST", "/s4/echo", "*", ""),
		rule("s4:other-get", "vf.Req", "GET", "/s4/get/{a}", "", ""),
	}
}

func setStr(m protoreflect.Message, name, v string) {
	m.Set(m.Descriptor().Fields().ByName(protoreflect.Name(name)), protoreflect.ValueOfString(v))
}

// assetReply builds the reply of an asset from the given data slice, which is
// stored in the message as it is (no copy).
func assetReply(shape, k int, data []byte) proto.Message {
	httpBody := func(ct string) protoreflect.Message {
		hb := vschema.NewMsg(vschema.Msg("google.api.HttpBody")).ProtoReflect()
		setStr(hb, "content_type", ct)
		hb.Set(hb.Descriptor().Fields().ByName("data"), protoreflect.ValueOfBytes(data))
		return hb
	}
	switch shape {
	case 0:
		return httpBody(fmt.Sprintf("application/x-asset-%d", k)).Interface()
	}
	rsp := vschema.NewMsg(vschema.Msg("vf.Rsp")).ProtoReflect()
	fs := rsp.Descriptor().Fields()
	setStr(rsp, "tag", "asset")
	setStr(rsp, "method", fmt.Sprintf("asset-%d", k))
	rsp.Set(fs.ByName("n"), protoreflect.ValueOfInt64(int64(k)))
	switch shape {
	case 1:
		rsp.Set(fs.ByName("data"), protoreflect.ValueOfBytes(data))
		rsp.Mutable(fs.ByName("items")).List().Append(protoreflect.ValueOfString("item"))
	case 2:
		rsp.Set(fs.ByName("body"), protoreflect.ValueOfMessage(httpBody("image/x-asset; k="+strconv.Itoa(k))))
	case 3:
		echo := rsp.Mutable(fs.ByName("echo")).Message()
		setStr(echo, "a", "asset")
		echo.Set(echo.Descriptor().Fields().ByName("y"), protoreflect.ValueOfBytes(data))
		echo.Set(echo.Descriptor().Fields().ByName("n"), protoreflect.ValueOfInt32(int32(k+1)))
		echo.Mutable(echo.Descriptor().Fields().ByName("rs")).List().Append(protoreflect.ValueOfString("p"))
	}
	return rsp.Interface()
}

// assetHandler is the handler-side state of one sequence.
type assetHandler struct {
	pristine [][]byte
	live     [][]byte        // handler-owned buffers
	shared   []proto.Message // long-lived replies (response_body shapes), nil otherwise
}

func newAssetHandler(assets [][]byte) *assetHandler {
	h := &assetHandler{}
	for k, a := range assets {
		h.pristine = append(h.pristine, append([]byte(nil), a...))
		live := make([]byte, len(a), len(a)+(k*7)%33)
		copy(live, a)
		h.live = append(h.live, live)
		var sh proto.Message
		if shape := k % 4; shape >= 2 {
			sh = assetReply(shape, k, live)
		}
		h.shared = append(h.shared, sh)
	}
	return h
}

func (h *assetHandler) reply(md protoreflect.MethodDescriptor, in proto.Message) proto.Message {
	idx, err := strconv.Atoi(strings.TrimPrefix(string(md.Name()), "Me"))
	if err != nil || idx >= 4 {
		return nil
	}
	a := in.ProtoReflect().Get(in.ProtoReflect().Descriptor().Fields().ByName("a")).String()
	k, err := strconv.Atoi(strings.TrimPrefix(a, "k"))
	if err != nil || k < 0 || k >= len(h.live) || k%4 != idx {
		return nil
	}
	if h.shared[k] != nil {
		return h.shared[k]
	}
	return assetReply(idx, k, h.live[k])
}

// canary returns the first handler-owned buffer that differs from its
// pristine copy.
func (h *assetHandler) canary() (k, off int, ok bool) {
	for k := range h.live {
		if !bytes.Equal(h.live[k], h.pristine[k]) {
			off := 0
			for off < len(h.live[k]) && off < len(h.pristine[k]) && h.live[k][off] == h.pristine[k][off] {
				off++
			}
			return k, off, false
		}
	}
	return 0, 0, true
}

// checkBody compares a 200 response with the expected (response_body
// selected) message; it returns "" when the client can decode exactly want.
func checkBody(resp *wire.Resp, want proto.Message) (codec, problem string) {
	payload := resp.Body
	switch ce := resp.Header.Get("Content-Encoding"); ce {
	case "", "identity":
	case "gzip":
		un, err := wire.Gunzip(resp.Body)
		if err != nil {
			return "", "Content-Encoding: gzip but the body does not gunzip"
		}
		payload = un
	default:
		return "", fmt.Sprintf("unknown Content-Encoding %q", ce)
	}
	ct := resp.Header.Get("Content-Type")
	wmd := want.ProtoReflect().Descriptor()
	if wmd.FullName() == "google.api.HttpBody" {
		wr := want.ProtoReflect()
		data := wr.Get(wmd.Fields().ByName("data")).Bytes()
		if !bytes.Equal(payload, data) {
			off := 0
			for off < len(payload) && off < len(data) && payload[off] == data[off] {
				off++
			}
			return "raw", fmt.Sprintf("HttpBody data of %d bytes, response body of %d bytes, first difference at offset %d", len(data), len(payload), off)
		}
		if wct := wr.Get(wmd.Fields().ByName("content_type")).String(); ct != wct {
			return "raw", fmt.Sprintf("HttpBody content_type %q, response Content-Type %q", wct, ct)
		}
		return "raw", ""
	}
	got := vschema.NewMsg(wmd)
	var err error
	switch ct {
	case "application/json":
		codec, err = "json", protojson.Unmarshal(payload, got)
	case "application/protobuf", "application/octet-stream":
		codec, err = "protobuf", proto.Unmarshal(payload, got)
	default:
		return "", fmt.Sprintf("response Content-Type %q names no registered codec", ct)
	}
	if err != nil {
		return codec, fmt.Sprintf("body does not decode with the codec named by Content-Type %q: %v", ct, err)
	}
	if !proto.Equal(got, want) {
		return codec, "decoded reply differs: " + diffFields(want, got)
	}
	return codec, ""
}

func stepDesc(c *Case, i int) string {
	st := c.Steps[i]
	what := "other traffic"
	if st.Asset >= 0 {
		what = fmt.Sprintf("download of asset %d (%s, %d bytes)", st.Asset, seqShapes[st.Asset%4], len(c.Assets[st.Asset]))
	}
	return fmt.Sprintf("step %d: %s %s [%s, request body %d bytes]", i, st.Req.Verb, st.Req.Path, what, len(st.Req.Body))
}

// execSeq runs one sequence on the mux of e.
func execSeq(e *env, c *Case) (o outcome) {
	if len(c.Rules) < 4 || len(c.Steps) == 0 {
		o.inconcl = "bad sequence case"
		return
	}
	var plans []*plan
	for _, rule := range c.Rules {
		p, err := newPlan(rule)
		if err != nil {
			o.inconcl = "bad case: " + err.Error()
			return
		}
		if msg, ok := e.regErr[rule.ID]; ok {
			o.inconcl = "sequence rule not registrable on this tree: " + msg
			return
		}
		plans = append(plans, p)
	}
	h := newAssetHandler(c.Assets)
	e.rec.mu.Lock()
	e.rec.replyFn = h.reply
	e.rec.mu.Unlock()
	defer func() {
		e.rec.mu.Lock()
		e.rec.replyFn = nil
		e.rec.mu.Unlock()
		e.rec.setReply(nil)
	}()
	lastServed := map[int]int{} // asset -> step of its last download
	otherSince := map[int]int{} // asset -> other requests since its last download
	o.evals = -1
	for i, st := range c.Steps {
		o.evals++
		if st.Rule < 0 || st.Rule >= len(plans) || st.Asset >= len(c.Assets) {
			o.inconcl = "bad sequence case"
			return
		}
		p := plans[st.Rule]
		var want proto.Message
		shape := "other"
		if st.Asset >= 0 {
			shape = seqShapes[st.Asset%4]
			want = selected(assetReply(st.Asset%4, st.Asset, append([]byte(nil), c.Assets[st.Asset]...)), p.resp)
			e.rec.setReply(nil)
		} else {
			rep, err := decodeMsg(p.rule.Out, st.Reply)
			if err != nil {
				o.inconcl = "bad case: " + err.Error()
				return
			}
			want = selected(rep, p.resp)
			e.rec.setReply(rep)
		}
		resp, calls := serve(e, st.Req)
		if resp.Wedged {
			o.inconcl = "request did not return within the watchdog"
			return
		}
		if resp.Panic != nil {
			o.add(resp.Panic.Key(), stepDesc(c, i)+" panicked: "+resp.Panic.Value)
			return
		}
		// canary first: a write into handler memory is the root event
		if k, off, ok := h.canary(); !ok {
			o.add("c04:seq:handler-buffer-modified:"+seqShapes[k%4], fmt.Sprintf("after %s the handler-owned buffer of asset %d (%s, %d bytes, last served at step %d) no longer equals its pristine copy: first difference at offset %d (now %q..., was %q...); the handler never writes to it, so a request served by the mux wrote into memory of a reply it had been handed earlier",
				stepDesc(c, i), k, seqShapes[k%4], len(h.pristine[k]), lastServed[k], off, snip(h.live[k], off), snip(h.pristine[k], off)))
			return
		}
		if len(calls) == 0 {
			o.count("c04_seq_request_did_not_reach_the_handler")
			continue
		}
		if resp.Code != 200 {
			o.add("c04:seq:reply-not-delivered:"+shape, fmt.Sprintf("%s: the handler returned a reply but the client got status %d: %s", stepDesc(c, i), resp.Code, bodySnippet(resp.Body)))
			return
		}
		codec, problem := checkBody(resp, want)
		if problem != "" {
			o.add("c04:seq:wrong-reply:"+shape, fmt.Sprintf("%s (Accept %v): %s; the expectation is built from an independent copy of the asset, the handler's own buffer is still intact", stepDesc(c, i), st.Req.Header["Accept"], problem))
			return
		}
		if st.Asset >= 0 {
			if _, again := lastServed[st.Asset]; again && otherSince[st.Asset] > 0 {
				o.more = append(o.more, "c04|seq|"+shape+"|"+codec+"|served-again-after-other-traffic")
				o.count("seq_assets_served_again_intact")
			}
			lastServed[st.Asset] = i
			otherSince[st.Asset] = 0
		}
		for k := range lastServed {
			if k != st.Asset {
				otherSince[k]++
			}
		}
	}
	// the long-lived reply messages themselves must be what the handler built
	for k, sh := range h.shared {
		if sh == nil {
			continue
		}
		if fresh := assetReply(k%4, k, append([]byte(nil), c.Assets[k]...)); !proto.Equal(sh, fresh) {
			o.add("c04:seq:handler-message-modified:"+seqShapes[k%4], fmt.Sprintf("after the sequence the handler's long-lived reply of asset %d differs from a freshly built one: %s", k, diffFields(fresh, sh)))
			return
		}
	}
	o.distinct = "c04|seq|" + c.Class
	o.count("seq_sequences_completed")
	return
}

func snip(b []byte, off int) string {
	end := off + 12
	if end > len(b) {
		end = len(b)
	}
	if off > len(b) {
		off = len(b)
	}
	return string(b[off:end])
}

var (
	seqAssetSizes = []int{1, 10, 63, 64, 65, 100, 300, 1000, 5000, 40000}
	seqBodySizes  = []int{0, 5, 40, 64, 100, 200, 900, 5000, 60000}
	seqAccepts    = [][]string{nil, {"application/json"}, {"application/protobuf"}, {"application/octet-stream"}, {"*/*"}}
)

// genSequence materialises one sequence.
func (g *gen) genSequence(rules []RuleSpec, plans []*plan) (*Case, error) {
	c := &Case{Prop: "C04", Kind: "c04-seq", Rules: rules, Rule: rules[0]}
	nAssets := 4 + g.rng.Intn(5)
	for k := 0; k < nAssets; k++ {
		n := seqAssetSizes[g.rng.Intn(len(seqAssetSizes))]
		if g.rng.Intn(3) == 0 {
			n = 1 + g.rng.Intn(400)
		}
		a := make([]byte, n)
		g.rng.Read(a)
		if g.rng.Intn(2) == 0 {
			// recognisable text makes foreign bytes readable in reports
			copy(a, bytes.Repeat([]byte(fmt.Sprintf("<asset-%d>", k)), n/8+1))
		}
		c.Assets = append(c.Assets, a)
	}
	nSteps := 16 + g.rng.Intn(24)
	for i := 0; i < nSteps; i++ {
		g.n++
		st := seqStep{Asset: -1}
		hdr := map[string][]string{}
		if acc := seqAccepts[g.rng.Intn(len(seqAccepts))]; acc != nil {
			hdr["Accept"] = acc
		}
		switch {
		case g.rng.Intn(2) == 0:
			k := g.rng.Intn(nAssets)
			st.Asset, st.Rule = k, k%4
			st.Req = reqSpec{Verb: "GET", Path: plans[st.Rule].instantiate(map[string]string{"a": "k" + strconv.Itoa(k)}), Header: hdr}
		default:
			st.Rule = 4 + g.rng.Intn(2)
			p := plans[st.Rule]
			rep := vschema.NewMsg(p.out)
			if g.rng.Intn(3) != 0 {
				setStr(rep.ProtoReflect(), "b", strings.Repeat("r", seqBodySizes[g.rng.Intn(len(seqBodySizes))]))
				rep.ProtoReflect().Set(p.out.Fields().ByName("n"), protoreflect.ValueOfInt32(int32(i+1)))
			}
			var err error
			if st.Reply, err = proto.Marshal(rep); err != nil {
				return nil, err
			}
			st.Req = reqSpec{Verb: reqVerb(p.rule), Path: p.instantiate(map[string]string{"a": "x" + strconv.Itoa(i)}), Header: hdr}
			if p.rule.Body != "" {
				in := vschema.NewMsg(p.in)
				setStr(in.ProtoReflect(), "c", strings.Repeat("q", seqBodySizes[g.rng.Intn(len(seqBodySizes))]))
				enc := bodyEnc{ctype: requestTypes[g.rng.Intn(len(requestTypes))], gzip: g.rng.Intn(6) == 0}
				if st.Req.Body, err = enc.encode(in); err != nil {
					return nil, err
				}
				for k, v := range enc.header() {
					hdr[k] = v
				}
			}
		}
		c.Steps = append(c.Steps, st)
	}
	c.Class = fmt.Sprintf("assets=%d", nAssets)
	return c, nil
}

func runSequences(r *mon.Run, g *gen) {
	rules := seqRules()
	e, err := buildDynamic(rules, "")
	if err != nil {
		r.Inconclusive("harness: " + err.Error())
		return
	}
	var plans []*plan
	for _, rule := range rules {
		p, err := newPlan(rule)
		if err != nil {
			r.Inconclusive("harness: " + err.Error())
			return
		}
		plans = append(plans, p)
	}
	n := r.Pick(60, 2500)
	for i := 0; i < n; i++ {
		c, err := g.genSequence(rules, plans)
		if err != nil {
			r.Count("generator_rejected_case", 1)
			continue
		}
		o := execCase(e, c)
		r.Count("seq_requests", 1+o.evals)
		apply(r, c, o)
	}
}
