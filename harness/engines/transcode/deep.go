package transcode

import (
	"fmt"
	"math"
	"strings"
	"sync"

	"google.golang.org/protobuf/proto"
	"google.golang.org/protobuf/reflect/protodesc"
	"google.golang.org/protobuf/reflect/protoreflect"
	"google.golang.org/protobuf/reflect/protoregistry"
	"google.golang.org/protobuf/types/descriptorpb"
	"google.golang.org/protobuf/types/known/structpb"

	"verif/internal/mon"
	"verif/internal/vschema"
)

// Body boundary dimension of C03: nesting depth and size of body-mapped
// fields. The engine's own message types (package vf.transcode) are
// registered in protoregistry.GlobalFiles so that vschema can resolve them:
//
//	Node { Node child = 1; string v = 2; repeated Node kids = 3; }
//	Deep { string id = 1; Node root = 2; google.protobuf.Value value = 3;
//	       google.protobuf.Struct st = 4; google.protobuf.ListValue lv = 5;
//	       string s = 6; repeated string many = 7; bytes blob = 8;
//	       repeated int32 nums = 9; map<string,string> m = 10; }
var deepOnce sync.Once

func deepTypes() {
	deepOnce.Do(func() {
		sp := func(s string) *string { return &s }
		ip := func(i int32) *int32 { return &i }
		fld := func(name string, num int32, typ descriptorpb.FieldDescriptorProto_Type, typeName string, rep bool) *descriptorpb.FieldDescriptorProto {
			f := &descriptorpb.FieldDescriptorProto{Name: sp(name), Number: ip(num), Type: typ.Enum(), Label: descriptorpb.FieldDescriptorProto_LABEL_OPTIONAL.Enum()}
			if rep {
				f.Label = descriptorpb.FieldDescriptorProto_LABEL_REPEATED.Enum()
			}
			if typeName != "" {
				f.TypeName = sp(typeName)
			}
			return f
		}
		const (
			tStr   = descriptorpb.FieldDescriptorProto_TYPE_STRING
			tMsg   = descriptorpb.FieldDescriptorProto_TYPE_MESSAGE
			tBytes = descriptorpb.FieldDescriptorProto_TYPE_BYTES
			tI32   = descriptorpb.FieldDescriptorProto_TYPE_INT32
			tI64   = descriptorpb.FieldDescriptorProto_TYPE_INT64
			tS64   = descriptorpb.FieldDescriptorProto_TYPE_SINT64
			tU32   = descriptorpb.FieldDescriptorProto_TYPE_UINT32
			tF64   = descriptorpb.FieldDescriptorProto_TYPE_FIXED64
			tF32   = descriptorpb.FieldDescriptorProto_TYPE_FIXED32
		)
		tr := true
		fdp := &descriptorpb.FileDescriptorProto{
			Name: sp("vf/transcode_types.proto"), Package: sp("vf.transcode"), Syntax: sp("proto3"),
			Dependency: []string{"google/protobuf/struct.proto"},
			MessageType: []*descriptorpb.DescriptorProto{
				{Name: sp("Node"), Field: []*descriptorpb.FieldDescriptorProto{
					fld("child", 1, tMsg, ".vf.transcode.Node", false), fld("v", 2, tStr, "", false), fld("kids", 3, tMsg, ".vf.transcode.Node", true)}},
				// wire-byte alphabet types: field 1 / field 4 of kinds whose
				// encodings can consist of arbitrary repeated bytes
				{Name: sp("WireStr"), Field: []*descriptorpb.FieldDescriptorProto{fld("f1", 1, tStr, "", false), fld("f4", 4, tI64, "", false)}},
				{Name: sp("WireBytes"), Field: []*descriptorpb.FieldDescriptorProto{fld("f1", 1, tBytes, "", false), fld("f4", 4, tS64, "", false)}},
				{Name: sp("WireFix64"), Field: []*descriptorpb.FieldDescriptorProto{fld("f1", 1, tF64, "", false), fld("f4", 4, tU32, "", false)}},
				{Name: sp("WireFix32"), Field: []*descriptorpb.FieldDescriptorProto{fld("f1", 1, tF32, "", false), fld("f4", 4, tI32, "", false)}},
				{Name: sp("WireHolder"), Field: []*descriptorpb.FieldDescriptorProto{fld("id", 1, tStr, "", false), fld("ws", 2, tMsg, ".vf.transcode.WireStr", false),
					fld("wb", 3, tMsg, ".vf.transcode.WireBytes", false), fld("wf", 4, tMsg, ".vf.transcode.WireFix64", false)}},
				wordsType(sp, fld),
				{Name: sp("Deep"), Field: []*descriptorpb.FieldDescriptorProto{
					fld("id", 1, tStr, "", false), fld("root", 2, tMsg, ".vf.transcode.Node", false),
					fld("value", 3, tMsg, ".google.protobuf.Value", false), fld("st", 4, tMsg, ".google.protobuf.Struct", false),
					fld("lv", 5, tMsg, ".google.protobuf.ListValue", false), fld("s", 6, tStr, "", false), fld("many", 7, tStr, "", true),
					fld("blob", 8, tBytes, "", false), fld("nums", 9, tI32, "", true), fld("m", 10, tMsg, ".vf.transcode.Deep.MEntry", true)},
					NestedType: []*descriptorpb.DescriptorProto{{Name: sp("MEntry"), Field: []*descriptorpb.FieldDescriptorProto{
						fld("key", 1, tStr, "", false), fld("value", 2, tStr, "", false)}, Options: &descriptorpb.MessageOptions{MapEntry: &tr}}}},
			},
		}
		fd, err := protodesc.NewFile(fdp, protoregistry.GlobalFiles)
		if err != nil {
			panic("transcode: deep types: " + err.Error())
		}
		if err := protoregistry.GlobalFiles.RegisterFile(fd); err != nil {
			panic("transcode: deep types: " + err.Error())
		}
	})
}

// reservedWords are field names that look like URL "system parameters",
// HTTP / RPC vocabulary or literals.
var reservedWords = []string{"alt", "callback", "fields", "key", "pretty_print", "quota_user", "access_token", "oauth_token", "upload_protocol",
	"upload_type", "body", "path", "query", "method", "verb", "filter", "select", "format", "id", "name", "type", "value", "json", "proto", "grpc",
	"http", "null", "true", "false", "user_ip", "trace", "xgafv"}

// wordsType: message Words { string <word> = 1..; Words sub = 60; repeated string keys = 61; }
func wordsType(sp func(string) *string, fld func(string, int32, descriptorpb.FieldDescriptorProto_Type, string, bool) *descriptorpb.FieldDescriptorProto) *descriptorpb.DescriptorProto {
	m := &descriptorpb.DescriptorProto{Name: sp("Words")}
	for i, w := range reservedWords {
		typ := descriptorpb.FieldDescriptorProto_TYPE_STRING
		if w == "pretty_print" {
			typ = descriptorpb.FieldDescriptorProto_TYPE_BOOL
		}
		m.Field = append(m.Field, fld(w, int32(i+1), typ, "", false))
	}
	m.Field = append(m.Field, fld("sub", 60, descriptorpb.FieldDescriptorProto_TYPE_MESSAGE, ".vf.transcode.Words", false),
		fld("keys", 61, descriptorpb.FieldDescriptorProto_TYPE_STRING, "", true))
	return m
}

func deepRules() []RuleSpec {
	deepTypes()
	return []RuleSpec{
		{ID: "deep:body-star", In: "vf.transcode.Deep", Out: "vf.Rsp", Verb: "POST", Tmpl: "/dp/all", Body: "*"},
		{ID: "deep:var+body-root", In: "vf.transcode.Deep", Out: "vf.Rsp", Verb: "PUT", Tmpl: "/dq/{id}", Body: "root"},
		{ID: "deep:complex-body-star", In: "larking.testpb.ComplexRequest", Out: "vf.Rsp", Verb: "POST", Tmpl: "/dc/all", Body: "*"},
		{ID: "wire:str", In: "vf.transcode.WireStr", Out: "vf.Rsp", Verb: "POST", Tmpl: "/wb/str", Body: "*"},
		{ID: "wire:bytes", In: "vf.transcode.WireBytes", Out: "vf.Rsp", Verb: "POST", Tmpl: "/wb/bytes", Body: "*"},
		{ID: "wire:fix64", In: "vf.transcode.WireFix64", Out: "vf.Rsp", Verb: "POST", Tmpl: "/wb/fix64", Body: "*"},
		{ID: "wire:fix32", In: "vf.transcode.WireFix32", Out: "vf.Rsp", Verb: "POST", Tmpl: "/wb/fix32", Body: "*"},
		{ID: "wire:holder-ws", In: "vf.transcode.WireHolder", Out: "vf.Rsp", Verb: "PUT", Tmpl: "/wh/{id}/ws", Body: "ws"},
		{ID: "wire:holder-wb", In: "vf.transcode.WireHolder", Out: "vf.Rsp", Verb: "PUT", Tmpl: "/wh/{id}/wb", Body: "wb"},
		{ID: "wire:holder-wf", In: "vf.transcode.WireHolder", Out: "vf.Rsp", Verb: "PUT", Tmpl: "/wh/{id}/wf", Body: "wf"},
		{ID: "wire:complex", In: "larking.testpb.ComplexRequest", Out: "vf.Rsp", Verb: "POST", Tmpl: "/wb/complex", Body: "*"},
		{ID: "wire:message", In: "larking.testpb.Message", Out: "vf.Rsp", Verb: "POST", Tmpl: "/wb/message", Body: "*"},
	}
}

func nestedValue(depth int, kind string) *structpb.Value {
	v := structpb.NewStringValue("leaf")
	for i := 0; i < depth; i++ {
		switch kind {
		case "list":
			v = structpb.NewListValue(&structpb.ListValue{Values: []*structpb.Value{v}})
		default:
			v = structpb.NewStructValue(&structpb.Struct{Fields: map[string]*structpb.Value{"k": v}})
		}
	}
	return v
}

// setWKT stores a generated well-known message in a (possibly dynamic) field.
func setWKT(m protoreflect.Message, name string, x proto.Message) error {
	fd := m.Descriptor().Fields().ByName(protoreflect.Name(name))
	if fd == nil {
		return fmt.Errorf("no field %s", name)
	}
	m.Set(fd, protoreflect.ValueOfMessage(x.ProtoReflect()))
	return nil
}

// deepShapes: shape name -> (rule IDs it applies to, builder). family is the
// class used in finding keys.
type deepShape struct {
	name, family string
	rules        []string
	build        func(m protoreflect.Message, depth int) error
}

// nodeChain nests depth Node messages below m.field: through the singular
// field child, or (repeated) through one-element kids lists.
func nodeChain(m protoreflect.Message, field string, depth int, repeated bool) {
	cur := m.Mutable(m.Descriptor().Fields().ByName(protoreflect.Name(field))).Message()
	for i := 1; i < depth; i++ {
		if repeated {
			l := cur.Mutable(cur.Descriptor().Fields().ByName("kids")).List()
			l.Append(l.NewElement())
			cur = l.Get(0).Message()
		} else {
			cur = cur.Mutable(cur.Descriptor().Fields().ByName("child")).Message()
		}
	}
	cur.Set(cur.Descriptor().Fields().ByName("v"), protoreflect.ValueOfString("leaf"))
}

var deepShapes = []deepShape{
	{"node-chain", "message-recursion", []string{"deep:body-star", "deep:var+body-root"}, func(m protoreflect.Message, d int) error {
		nodeChain(m, "root", d, false)
		return nil
	}},
	{"node-repeated-chain", "message-recursion", []string{"deep:body-star"}, func(m protoreflect.Message, d int) error {
		nodeChain(m, "root", d, true)
		return nil
	}},
	{"value-list", "value-recursion", []string{"deep:body-star", "deep:complex-body-star"}, func(m protoreflect.Message, d int) error {
		return setWKT(m, "value", nestedValue(d, "list"))
	}},
	{"struct", "value-recursion", []string{"deep:body-star", "deep:complex-body-star"}, func(m protoreflect.Message, d int) error {
		name := "st"
		if m.Descriptor().Fields().ByName("st") == nil {
			name = "struct"
		}
		return setWKT(m, name, nestedValue(d, "struct").GetStructValue())
	}},
	{"list-value", "value-recursion", []string{"deep:body-star", "deep:complex-body-star"}, func(m protoreflect.Message, d int) error {
		name := "lv"
		if m.Descriptor().Fields().ByName("lv") == nil {
			name = "list_value"
		}
		return setWKT(m, name, nestedValue(d, "list").GetListValue())
	}},
}

// largeShapes: big but flat bodies, below the 4 MiB receive limit.
var largeShapes = []struct {
	name  string
	sizes []int
	build func(m protoreflect.Message, n int)
}{
	{"string", []int{10000, 100000, 1000000}, func(m protoreflect.Message, n int) {
		m.Set(m.Descriptor().Fields().ByName("s"), protoreflect.ValueOfString(strings.Repeat("long é", n/7+1)))
	}},
	{"bytes", []int{10000, 1000000}, func(m protoreflect.Message, n int) {
		b := make([]byte, n)
		for i := range b {
			b[i] = byte(i * 7)
		}
		m.Set(m.Descriptor().Fields().ByName("blob"), protoreflect.ValueOfBytes(b))
	}},
	{"repeated-string", []int{10000, 100000}, func(m protoreflect.Message, n int) {
		l := m.Mutable(m.Descriptor().Fields().ByName("many")).List()
		for i := 0; i < n; i++ {
			l.Append(protoreflect.ValueOfString("e"))
		}
	}},
	{"repeated-int32", []int{10000, 100000}, func(m protoreflect.Message, n int) {
		l := m.Mutable(m.Descriptor().Fields().ByName("nums")).List()
		for i := 0; i < n; i++ {
			l.Append(protoreflect.ValueOfInt32(int32(i - n/2)))
		}
	}},
	{"map", []int{10000}, func(m protoreflect.Message, n int) {
		mp := m.Mutable(m.Descriptor().Fields().ByName("m")).Map()
		for i := 0; i < n; i++ {
			mp.Set(protoreflect.ValueOfString(fmt.Sprintf("k%d", i)).MapKey(), protoreflect.ValueOfString("v"))
		}
	}},
	{"repeated-message", []int{10000}, func(m protoreflect.Message, n int) {
		root := m.Mutable(m.Descriptor().Fields().ByName("root")).Message()
		l := root.Mutable(root.Descriptor().Fields().ByName("kids")).List()
		for i := 0; i < n; i++ {
			e := l.NewElement()
			e.Message().Set(e.Message().Descriptor().Fields().ByName("v"), protoreflect.ValueOfString("x"))
			l.Append(e)
		}
	}},
}

// ------------------------------------------------------------ wire bytes

// wireBytes are the byte values used to fill field values: the four JSON
// white-space bytes, NUL, DEL, 0xff and bytes that look like JSON syntax.
var wireBytes = []byte{0x20, 0x09, 0x0a, 0x0d, 0x00, 0x7f, 0xff, '{', '"', 0x01, 0x80}

func rep8(b byte, n int) uint64 {
	var v uint64
	for i := 0; i < n; i++ {
		v = v<<8 | uint64(b)
	}
	return v
}

// bodyAlphabet classifies the wire bytes of a body.
func bodyAlphabet(b []byte) string {
	if len(b) == 0 {
		return "empty"
	}
	blank, same := true, true
	for _, c := range b {
		if c != 0x20 && c != 0x09 && c != 0x0a && c != 0x0d {
			blank = false
		}
		if c != b[0] {
			same = false
		}
	}
	switch {
	case blank:
		return "only-json-whitespace-bytes"
	case same:
		return "one-repeated-byte"
	}
	return "mixed"
}

// setByte fills field name of m with a value whose encoding repeats byte c
// (n times for strings / bytes). ok is false when the kind cannot hold it.
func setByte(m protoreflect.Message, name string, c byte, n int) bool {
	fd := m.Descriptor().Fields().ByName(protoreflect.Name(name))
	if fd == nil {
		return false
	}
	switch fd.Kind() {
	case protoreflect.StringKind:
		if c >= 0x80 {
			return false
		}
		m.Set(fd, protoreflect.ValueOfString(strings.Repeat(string(rune(c)), n)))
	case protoreflect.BytesKind:
		m.Set(fd, protoreflect.ValueOfBytes([]byte(strings.Repeat(string([]byte{c}), n))))
	case protoreflect.Fixed64Kind:
		m.Set(fd, protoreflect.ValueOfUint64(rep8(c, 8)))
	case protoreflect.Fixed32Kind:
		m.Set(fd, protoreflect.ValueOfUint32(uint32(rep8(c, 4))))
	case protoreflect.DoubleKind:
		f := math.Float64frombits(rep8(c, 8))
		if math.IsNaN(f) || math.IsInf(f, 0) {
			return false
		}
		m.Set(fd, protoreflect.ValueOfFloat64(f))
	case protoreflect.Int64Kind:
		if c >= 0x80 {
			return false
		}
		m.Set(fd, protoreflect.ValueOfInt64(int64(c))) // one-byte varint c
	case protoreflect.Int32Kind:
		if c >= 0x80 {
			return false
		}
		m.Set(fd, protoreflect.ValueOfInt32(int32(c)))
	case protoreflect.Uint32Kind:
		if c >= 0x80 {
			return false
		}
		m.Set(fd, protoreflect.ValueOfUint32(uint32(c)))
	case protoreflect.Sint64Kind:
		if c >= 0x80 {
			return false
		}
		// zigzag: the varint byte is c
		z := uint64(c)
		m.Set(fd, protoreflect.ValueOfInt64(int64(z>>1)^-int64(z&1)))
	default:
		return false
	}
	return true
}

// runWire: protobuf (and JSON) bodies whose field values are made of one
// repeated byte, for field 1 (string / bytes / fixed64 / fixed32 / double)
// and field 4 (varints) - incl. bodies consisting only of JSON white space.
func runWire(r *mon.Run, g *gen, e *env, plans map[string]*plan, run func(p *plan, M proto.Message, enc bodyEnc, class string)) {
	type target struct {
		rule   string
		f1, f4 string
		sub    string // body field of the holder message
	}
	targets := []target{
		{"wire:str", "f1", "f4", ""}, {"wire:bytes", "f1", "f4", ""}, {"wire:fix64", "f1", "f4", ""}, {"wire:fix32", "f1", "f4", ""},
		{"wire:holder-ws", "f1", "f4", "ws"}, {"wire:holder-wb", "f1", "f4", "wb"}, {"wire:holder-wf", "f1", "f4", "wf"},
		{"wire:complex", "double_value", "int64_value", ""}, {"wire:message", "message_id", "", ""},
	}
	encs := []bodyEnc{{ctype: "application/protobuf"}, {ctype: "application/octet-stream"}, {ctype: "application/protobuf", gzip: true}, {ctype: "application/json"}}
	lens := []int{1, 9, 10, 13, 32}
	for _, tg := range targets {
		p := plans[tg.rule]
		for ci, c := range wireBytes {
			for _, which := range []string{"f1", "f4", "both"} {
				for li, n := range lens {
					if which == "f4" && li > 0 {
						continue
					}
					M := vschema.NewMsg(p.in)
					body := M.ProtoReflect()
					if tg.sub != "" {
						body = body.Mutable(body.Descriptor().Fields().ByName(protoreflect.Name(tg.sub))).Message()
					}
					ok := true
					if which != "f4" {
						ok = ok && setByte(body, tg.f1, c, n)
					}
					if which != "f1" {
						ok = ok && tg.f4 != "" && setByte(body, tg.f4, c, n)
					}
					if !ok {
						continue
					}
					wireB, _ := proto.Marshal(body.Interface())
					alpha := bodyAlphabet(wireB)
					for ei, enc := range encs {
						if !r.Thorough() && alpha == "mixed" && (ci+li+ei)%3 != 0 {
							continue
						}
						run(p, cloneMsg(M), enc, "wire-bytes:"+alpha+":"+codecFamily(enc))
						r.Count("wire_byte_cases_"+alpha, 1)
					}
				}
			}
		}
	}
}

var deepEncs = []bodyEnc{{ctype: "application/json"}, {ctype: "application/protobuf"}, {ctype: "application/json", gzip: true}, {ctype: "application/octet-stream", gzip: true}}

func codecFamily(enc bodyEnc) string {
	if enc.isJSON() {
		return "json"
	}
	return "protobuf"
}

// runDeep runs the nesting-depth and size boundary cases.
func runDeep(r *mon.Run, g *gen) {
	rules := deepRules()
	e, err := buildDynamic(rules, "")
	if err != nil {
		r.Inconclusive("harness: deep rules: " + err.Error())
		return
	}
	plans := map[string]*plan{}
	for _, rule := range rules {
		p, err := newPlan(rule)
		if err != nil {
			r.Inconclusive("harness: " + err.Error())
			return
		}
		plans[rule.ID] = p
	}
	run := func(p *plan, M proto.Message, enc bodyEnc, class string) {
		enc2 := enc
		c, err := g.finishEnc(p, M, 3, func(bodyEnc) string { return class }, &enc2)
		if err != nil {
			// the reference itself does not reconstruct this message: no claim
			r.Count("deep_no_claim_reference_rejects", 1)
			return
		}
		apply(r, c, execCase(e, c))
	}
	depths := []int{1, 10, 49, 50, 51, 60, 99, 100, 101, 150, 500}
	if r.Thorough() {
		depths = append(depths, 2000)
	}
	// ascending depth: the first case kept per finding key is the shallowest
	for _, d := range depths {
		for _, sh := range deepShapes {
			for _, rid := range sh.rules {
				p := plans[rid]
				for _, enc := range deepEncs {
					M := vschema.NewMsg(p.in)
					if err := sh.build(M.ProtoReflect(), d); err != nil {
						r.Inconclusive("harness: " + err.Error())
						continue
					}
					run(p, M, enc, "nesting:"+sh.family+":"+codecFamily(enc))
					r.Count(fmt.Sprintf("deep_cases_%s", sh.family), 1)
				}
			}
		}
	}
	runWire(r, g, e, plans, run)
	p := plans["deep:body-star"]
	for _, sh := range largeShapes {
		for si, n := range sh.sizes {
			for ei, enc := range deepEncs {
				if !r.Thorough() && ((si == 0 && ei == 3) || (si > 0 && ei != si%2)) {
					continue // quick: the bigger sizes in one plain encoding each
				}
				M := vschema.NewMsg(p.in)
				sh.build(M.ProtoReflect(), n)
				run(p, M, enc, "large:"+sh.name+":"+codecFamily(enc))
				r.Count("large_body_cases", 1)
			}
		}
	}
}
