package proto

import (
	"bytes"
	"encoding/json"
	"fmt"
	"math/rand"
	"strings"

	spb "google.golang.org/genproto/googleapis/rpc/status"
	"google.golang.org/protobuf/proto"

	"verif/internal/mon"
	"verif/internal/wire"
)

// ---------------------------------------------------------- reserved keys

// Protocol-reserved response keys a handler must not be able to forge, with
// the forged value the scripted handler supplies.
var forgedDetails = func() []byte {
	b, _ := proto.Marshal(&spb.Status{Code: 9, Message: "forged-details"})
	return b
}()

var reservedForged = map[string][]byte{
	"content-type":            []byte("text/forged"),
	"grpc-status":             []byte("9"),
	"grpc-message":            []byte("forged-message"),
	"grpc-encoding":           []byte("forged-enc"),
	"grpc-status-details-bin": forgedDetails,
}

var reservedOrder = []string{"content-type", "grpc-status", "grpc-message", "grpc-encoding", "grpc-status-details-bin"}

func isBinKey(k string) bool { return strings.HasSuffix(k, "-bin") }

// ----------------------------------------------------------------- oracle

func outcomeClass(c *Case, rec Rec) string {
	switch {
	case c.Script.Code == 0 && rec.Sent == 0:
		return "ok-no-message"
	case c.Script.Code == 0:
		return "ok"
	case rec.Sent == 0:
		return "fail-before-reply"
	}
	return "fail-after-reply"
}

// nearReserved: a custom key that only resembles a protocol-reserved one.
func nearReserved(k string) bool {
	k = strings.ToLower(k)
	for _, p := range []string{"grpc-", "content-type", "te-", "user-agent-"} {
		if strings.HasPrefix(k, p) {
			if _, exact := reservedForged[k]; !exact {
				return true
			}
		}
	}
	return false
}

var nearReservedNames = []string{"grpc-foo", "grpc-foo-bin", "grpc-statusx", "grpc-c14-tag", "grpc-messages", "content-typex", "te-x", "user-agent-x"}

func nearReservedSet(tag string) []KV {
	var out []KV
	names := nearReservedNames
	if tag == "trailer" {
		names = []string{"grpc-bar", "grpc-bar-bin", "grpc-statuses", "grpc-c14-trailer", "grpc-message-id", "content-typey", "te-y", "user-agent-y"}
	}
	for i, n := range names {
		v := [][]byte{[]byte(fmt.Sprintf("%s value %d", tag, i))}
		if isBinKey(n) {
			v = [][]byte{{0, 0xff, byte(i), 0x80}, []byte(tag)}
		}
		out = append(out, KV{K: n, V: v})
	}
	return out
}

func nameClass(n string) string {
	if nearReserved(n) {
		return "name-near-reserved"
	}
	lower, upper, punct := false, false, false
	for i := 0; i < len(n); i++ {
		b := n[i]
		switch {
		case b >= 'a' && b <= 'z':
			lower = true
		case b >= 'A' && b <= 'Z':
			upper = true
		case b >= '0' && b <= '9' || b == '-' || b == '_' || b == '.':
		default:
			punct = true
		}
	}
	_ = lower
	cl := "name-lower"
	if upper {
		cl = "name-mixed-case"
	}
	if punct {
		cl += "+punct"
	}
	return cl
}

func (h HdrSpec) valueClass() string {
	if !h.bin() {
		if len(h.Vals) > 1 {
			return "ascii-multi"
		}
		return "ascii-single"
	}
	// the spelling is a property of each value: a value whose length is not a
	// multiple of 3 is sent with or without '=' padding
	nPad, nRaw := 0, 0
	for i, v := range h.Vals {
		switch {
		case len(v)%3 == 0:
		case h.padded(i):
			nPad++
		default:
			nRaw++
		}
	}
	switch {
	case nPad == 0 && nRaw == 0:
		return "bin-no-padding-needed"
	case nPad > 0 && nRaw > 0:
		return "bin-mixed-padding"
	case nPad > 0:
		return "bin-padded"
	}
	return "bin-unpadded"
}

// spelling is how value i of a -bin header is written on the wire: E empty,
// N base64 that needs no padding, P padded, U unpadded.
func (h HdrSpec) spelling(i int) string {
	v := h.Vals[i]
	switch {
	case len(v) == 0:
		return "E"
	case len(v)%3 == 0:
		return "N"
	case h.padded(i):
		return "P"
	}
	return "U"
}

// spellings is the pattern of a -bin header's values, in order (e.g. "PUE").
func (h HdrSpec) spellings() string {
	var sb strings.Builder
	for i := range h.Vals {
		sb.WriteString(h.spelling(i))
	}
	return sb.String()
}

var spellingName = map[string]string{"E": "empty-value", "N": "no-padding-needed-value", "P": "padded-value", "U": "unpadded-value"}

// incomingValueClass is the finding class of a request header whose values
// reached the handler changed. For a -bin header that mixes padded and
// unpadded values it also names the spelling of the first value that differs
// (or that the number of values differs).
func incomingValueClass(h HdrSpec, got [][]byte) string {
	cl := h.valueClass()
	if cl != "bin-mixed-padding" {
		return cl
	}
	if len(got) != len(h.Vals) {
		return cl + ",value-count"
	}
	for i := range got {
		if !bytes.Equal(got[i], h.Vals[i]) {
			return cl + "," + spellingName[h.spelling(i)]
		}
	}
	return cl
}

// strictTrailerFrame checks the gRPC-web trailer frame as sent: every line is
// "key: value" with a lower-case token key, and the key set holds nothing but
// the status keys and the trailer keys the handler set.
func strictTrailerFrame(c *Case, o *Obs, add func(obs, cls, what string)) {
	if o.WebKeys == nil {
		return
	}
	cls := "plain-call"
	if c.Gzip {
		cls = "gzip-call"
	}
	allowed := map[string]bool{"grpc-status": true, "grpc-message": true, "grpc-status-details-bin": true}
	for _, kv := range append(append([]KV{}, c.Script.Trl...), c.Script.TrlLate...) {
		allowed[kv.K] = true
	}
	for _, k := range o.WebKeys {
		tok := k != ""
		for i := 0; i < len(k); i++ {
			b := k[i]
			if !(b >= 'a' && b <= 'z' || b >= '0' && b <= '9' || strings.IndexByte(tokenPunct, b) >= 0) {
				tok = false
			}
		}
		switch {
		case k == "?malformed":
			add("trailer-frame-malformed-line", cls, fmt.Sprintf("the gRPC-web trailer frame has a line without a colon: %+q", o.MDTrl[k]))
		case !tok:
			add("trailer-frame-malformed-key", cls, fmt.Sprintf("the gRPC-web trailer frame has the key %+q, which is not a lower-case header name (keys: %+q)", k, o.WebKeys))
		case !allowed[k]:
			add("trailer-frame-unknown-key", cls, fmt.Sprintf("the gRPC-web trailer frame has the key %+q=%+q, which is neither a status key nor trailer metadata of the handler (keys: %+q)", k, o.MDTrl[k], o.WebKeys))
		}
	}
}

// hopKeys are the connection-specific request headers that must never be
// incoming metadata.
var hopKeys = []string{"connection", "keep-alive", "proxy-connection", "transfer-encoding", "upgrade"}

// decodeVals turns client-visible values into raw bytes (base64-decoding
// -bin values unless the client already did).
func decodeVals(k string, vals []string, decoded bool) ([][]byte, error) {
	out := make([][]byte, 0, len(vals))
	for _, v := range vals {
		if isBinKey(k) && !decoded {
			b, err := wire.DecodeBin(v)
			if err != nil {
				return nil, fmt.Errorf("value %+q of %s is not base64: %+q", clip(v, 40), k, err.Error())
			}
			out = append(out, b)
			continue
		}
		out = append(out, []byte(v))
	}
	return out, nil
}

func sameVals(a, b [][]byte) bool {
	if len(a) != len(b) {
		return false
	}
	for i := range a {
		if !bytes.Equal(a[i], b[i]) {
			return false
		}
	}
	return true
}

func showVals(v [][]byte) string {
	var parts []string
	for _, b := range v {
		parts = append(parts, fmt.Sprintf("%+q", clip(string(b), 40)))
	}
	return "[" + strings.Join(parts, " ") + "]"
}

func kvClass(kv KV) string {
	cl := "ascii"
	if isBinKey(kv.K) {
		cl = "bin"
	}
	if len(kv.V) > 1 {
		cl += "-multi"
	}
	return cl
}

func check14(c *Case, o *Obs, rec Rec) (vs []viol, inconclusive string) {
	pc := keyProto(c)
	if pc == "http/json" || pc == "http/proto" {
		pc = "http"
	}
	if c.Target != "" {
		pc += "@" + c.Target
	}
	if c.Opt != "" {
		pc += "[" + c.Opt + "]"
	}
	add := func(obs, cls, what string) {
		vs = append(vs, viol{pc + ":" + obs + ":" + cls, what})
	}
	gen := c.Kind
	pv, stop := panicViols(c, o, gen)
	vs = append(vs, pv...)
	if o.Wedged && len(pv) == 0 {
		return vs, "in-process watchdog fired without a stack inside larking"
	}
	if stop {
		return vs, ""
	}
	if o.Timeout {
		return vs, c.Proto + ": client timed out (" + o.Err + ")"
	}
	if !rec.Ran {
		// a well-formed call to a registered method, answered by the mux itself
		// without invoking the handler: its metadata was not delivered
		if answered(o) {
			cls := c.Kind
			if len(c.Hop) > 0 {
				cls = "hop-by-hop-headers"
			}
			add("call-not-delivered", cls, fmt.Sprintf("the scripted handler was never invoked; the client was answered with HTTP %d, grpc-status %+q %+q, close code %d %+q, body %+q", o.HTTP, o.CodeText, clip(o.Msg, 100), o.WSCode, clip(string(o.WSReason), 100), clip(string(o.Body), 100)))
			return vs, ""
		}
		return vs, fmt.Sprintf("%s: the scripted handler was never invoked (HTTP %d, transport %+q)", c.Proto, o.HTTP, clip(o.Err, 100))
	}
	if o.Err != "" {
		add("no-response", gen, fmt.Sprintf("client got no usable response: %s", ascii(clip(o.Err, 200))))
		return vs, ""
	}

	if c.Kind == "C14in" {
		for _, h := range c.ReqHdr {
			key := strings.ToLower(h.Name)
			got, ok := rec.MD[key]
			if !ok {
				if len(c.Hop) == 1 && c.Hop[0][0] == "Connection" && strings.Contains(strings.ToLower(c.Hop[0][1]), key) {
					add("incoming-key-missing", "named-in-connection-header,"+h.valueClass(), fmt.Sprintf("request header %+q, nominated in %+q, is not in the handler's incoming metadata", h.Name, "Connection: "+c.Hop[0][1]))
					continue
				}
				add("incoming-key-missing", nameClass(h.Name)+","+h.valueClass(), fmt.Sprintf("request header %+q (%d values) is not in the handler's incoming metadata under %+q; keys: %+q", h.Name, len(h.Vals), key, sortedKeys(rec.MD)))
				continue
			}
			gb := make([][]byte, len(got))
			for i, v := range got {
				gb[i] = []byte(v)
			}
			if !sameVals(gb, h.Vals) {
				add("incoming-value", incomingValueClass(h, gb), fmt.Sprintf("request header %+q sent as %+q reached the handler as %s, want %s", h.Name, h.wire(), showVals(gb), showVals(h.Vals)))
			}
		}
		if strings.Contains(c.Opt, "icept") && c.Method == "Echo" && c.Target == "" {
			// a pass-through unary interceptor sees the same incoming metadata
			if !rec.ISeen {
				add("interceptor-not-invoked", "unary", "the unary interceptor of the mux was not invoked")
			}
			for _, h := range c.ReqHdr {
				got := rec.IMD[strings.ToLower(h.Name)]
				gb := make([][]byte, len(got))
				for i, v := range got {
					gb[i] = []byte(v)
				}
				if rec.ISeen && !sameVals(gb, h.Vals) {
					add("incoming-value-at-interceptor", incomingValueClass(h, gb), fmt.Sprintf("request header %+q reached the unary interceptor as %s, want %s", h.Name, showVals(gb), showVals(h.Vals)))
					break
				}
			}
		}
		strictTrailerFrame(c, o, add)
		// connection-specific headers of the client's HTTP/1 connection (RFC
		// 9110 7.6.1, forbidden in HTTP/2 by RFC 9113 8.2.2) are not metadata
		for _, k := range hopKeys {
			if v, ok := rec.MD[k]; ok {
				add("incoming-hop-by-hop-key", k, fmt.Sprintf("the connection-specific request header %+q=%+q is part of the handler's incoming metadata", k, v))
			}
		}
		return vs, ""
	}

	// ---- C14out
	sc := &c.Script
	oc := outcomeClass(c, rec)
	reservedIn := "" // the reserved key this case tries to forge, with its position
	for _, kv := range sc.Hdr {
		if _, ok := reservedForged[kv.K]; ok {
			reservedIn = kv.K + "@header"
		}
	}
	for _, kv := range append(append([]KV{}, sc.Trl...), sc.TrlLate...) {
		if _, ok := reservedForged[kv.K]; ok {
			reservedIn = kv.K + "@trailer"
		}
	}
	statusCls := "plain-metadata"
	if reservedIn != "" {
		statusCls = "reserved-" + reservedIn
	}

	twirp := strings.HasPrefix(c.Proto, "twirp")
	isHTTP := strings.HasPrefix(c.Proto, "http") || twirp // status in the HTTP response, no trailers
	web := strings.HasPrefix(c.Proto, "grpcweb")
	sameKey := map[string]bool{}
	for _, h := range sc.Hdr {
		for _, t := range append(append([]KV{}, sc.Trl...), sc.TrlLate...) {
			if h.K == t.K {
				sameKey[h.K] = true
			}
		}
	}

	// 1. forged values of reserved keys are not visible to the client
	forged := false
	seeForged := func(view map[string][]string) {
		for _, k := range reservedOrder {
			f := reservedForged[k]
			for _, v := range view[k] {
				raw := []byte(v)
				if isBinKey(k) && !o.BinDecoded {
					if b, err := wire.DecodeBin(v); err == nil {
						raw = b
					}
				}
				if bytes.Equal(raw, f) && reservedIn != "" && !forged {
					forged = true
					add("reserved-forged", reservedIn, fmt.Sprintf("handler-supplied value %+q for the reserved key %+q reached the client", clip(string(f), 40), k))
				}
			}
		}
	}
	seeForged(o.MDHdr)
	seeForged(o.MDTrl)

	// A gRPC-web body whose framing is broken (C05's finding for the text
	// mode) hides the trailer frame: status and trailers are unobservable.
	blind := web && o.WebErr != ""
	if blind {
		add("trailer-frame-incomplete", "body-framing", fmt.Sprintf("the gRPC-web body does not decode completely (%s; %d replies decoded, trailer frame seen: %v): status and trailer metadata are lost", o.WebErr, o.Replies, o.HasStatus))
	}
	strictTrailerFrame(c, o, add)

	// 2. the real outcome is unchanged
	switch {
	case forged || blind:
	case isHTTP:
		if sc.Code == 0 {
			if o.HTTP != 200 {
				add("status-changed", statusCls, fmt.Sprintf("successful RPC answered with HTTP %d", o.HTTP))
			}
		} else if rec.Sent == 0 {
			ok := false
			for _, w := range wantHTTP(sc.Code) {
				ok = ok || w == o.HTTP
			}
			if twirp {
				// Twirp error: JSON {code, msg}; the HTTP status is only required to be an error status
				var te struct {
					Code string `json:"code"`
					Msg  string `json:"msg"`
				}
				if err := json.Unmarshal(o.Body, &te); err != nil || o.HTTP < 400 {
					add("status-changed", statusCls, fmt.Sprintf("Twirp error answered with HTTP %d and body %+q", o.HTTP, clip(string(o.Body), 100)))
				} else if sc.Code <= 16 && te.Code != twirpOfCode[sc.Code] || te.Msg != sc.Msg {
					add("status-changed", statusCls, fmt.Sprintf("Twirp error carries (%+q, %+q), handler returned (%d, %+q)", te.Code, te.Msg, sc.Code, sc.Msg))
				}
			} else if !ok {
				add("status-changed", statusCls, fmt.Sprintf("HTTP status %d for code %d", o.HTTP, sc.Code))
			} else if st, why := decodeHTTPStatus(o); st == nil {
				add("status-changed", statusCls, why)
			} else if st.GetCode() != int32(sc.Code) || st.GetMessage() != sc.Msg {
				add("status-changed", statusCls, fmt.Sprintf("error body carries (%d, %+q), handler returned (%d, %+q)", st.GetCode(), st.GetMessage(), sc.Code, sc.Msg))
			}
		}
	default:
		if !o.HasStatus {
			add("status-changed", statusCls, fmt.Sprintf("no grpc-status observed (HTTP %d)", o.HTTP))
		} else if o.Code != uint64(sc.Code) || (sc.Code != 0 && o.Msg != sc.Msg) {
			add("status-changed", statusCls, fmt.Sprintf("client observed status (%d, %+q), handler returned (%d, %+q)", o.Code, clip(o.Msg, 80), sc.Code, sc.Msg))
		} else if sc.Code != 0 && len(o.Details.GetDetails()) != 0 {
			add("status-changed", statusCls, fmt.Sprintf("client observed %d status details, handler attached none", len(o.Details.GetDetails())))
		} else if o.Details != nil && sc.Code != 0 && (o.Details.GetCode() != int32(sc.Code) || o.Details.GetMessage() != sc.Msg) {
			add("status-changed", statusCls, fmt.Sprintf("grpc-status-details-bin carries (%d, %+q), handler returned (%d, %+q)", o.Details.GetCode(), o.Details.GetMessage(), sc.Code, sc.Msg))
		} else if o.Replies != rec.Sent {
			add("replies", statusCls, fmt.Sprintf("client decoded %d replies, handler sent %d", o.Replies, rec.Sent))
		}
	}

	// 3. header / trailer metadata reaches the client, as it was when the
	// handler made the call (later changes to the handler's own MD object
	// must not show)
	how := "SetHeader"
	if sc.SendHdr {
		how = "SendHeader"
	}
	checkSet := func(kvs []KV, view map[string][]string, obsName, cls string) {
		for _, kv := range kvs {
			if _, res := reservedForged[kv.K]; res {
				continue
			}
			kc := cls
			if sc.Mutate != "" {
				call := "SetTrailer"
				if obsName == "header" {
					call = how
				}
				kc = "md-" + sc.Mutate + "-after-" + call
			}
			if nearReserved(kv.K) {
				kc = "near-reserved-key"
			} else if sc.MDAfterCtx {
				kc = "set-after-ctx-done"
			}
			if obsName == "header" && oc == "ok-no-message" {
				// a successful call that sent no message: one class whatever
				// else the handler did with its metadata
				kc = oc + "," + how
				if sc.DL == "writer" {
					kc += ",httpbody-writer"
				}
			}
			if sameKey[kv.K] {
				if o.TrailersOnly {
					continue // one header block carries both sets: the key is ambiguous
				}
				if obsName == "header" && c.Target == "proxy" {
					continue // a relayed back-end trailer may legitimately show under this key
				}
				kc = "key-in-header-and-trailer"
				if obsName == "header" {
					kc += "," + how
				}
			}
			vc := kc + "," + kvClass(kv)
			if sc.Mutate != "" || sameKey[kv.K] {
				vc = kc
			}
			vals, ok := view[kv.K]
			// Proxied back-end: the proxy relays the back-end's trailer metadata of
			// streaming methods (client-, server-, bidi-streaming) that end OK -
			// pinned from the unchanged tree; nothing else is obliged there.
			relayed := obsName == "trailer" && sc.Code == 0 && c.Method != "Echo"
			if !ok && c.Target == "proxy" && !relayed {
				// response metadata of a proxied back-end: the statement does not
				// oblige the proxy to relay it; only what is relayed is compared
				continue
			}
			if !ok {
				add(obsName+"-missing", kc, fmt.Sprintf("%s metadata %+q=%s set by the handler did not reach the client; client saw keys %+q", obsName, kv.K, showVals(kv.V), sortedKeys(view)))
				continue
			}
			got, err := decodeVals(kv.K, vals, o.BinDecoded)
			if err != nil {
				add(obsName+"-value", vc, err.Error())
				continue
			}
			if !sameVals(got, kv.V) {
				add(obsName+"-value", vc, fmt.Sprintf("%s metadata %+q: client saw %s, handler set %s", obsName, kv.K, showVals(got), showVals(kv.V)))
			}
		}
	}
	hdrCls := oc + "," + how
	if sc.DL != "" {
		n := "many-writes"
		switch len(sc.Chunks) {
		case 0:
			n = "no-write"
		case 1:
			n = "one-write"
		}
		hdrCls += ",httpbody-" + sc.DL + "," + n
		// the body is the concatenation of what the handler wrote
		if sc.Code == 0 && o.HTTP == 200 {
			var want []byte
			for i, k := range sc.Chunks {
				want = append(want, dlPayload(i, k)...)
			}
			if !bytes.Equal(o.Body, want) {
				add("download-body", "httpbody-"+sc.DL+","+n, fmt.Sprintf("the download carries %d bytes, the handler wrote %d", len(o.Body), len(want)))
			}
		}
	}
	if sc.HdrAt == "" {
		// (metadata set once the writer is held / after the first write has no
		// delivery obligation: the headers are committed by then)
		checkSet(sc.Hdr, o.MDHdr, "header", hdrCls)
	}
	if !isHTTP && !blind {
		checkSet(sc.Trl, o.MDTrl, "trailer", "custom-key")
		if rec.Sent >= 1 {
			checkSet(sc.TrlLate, o.MDTrl, "trailer", "custom-key")
		}
	}
	// 4. keys the handler put into its MD object only after the call
	for _, k := range []string{scratchKey, scratchBinKey} {
		if v, ok := o.MDHdr[k]; ok {
			add("header-extra", "md-"+sc.Mutate+"-after-call", fmt.Sprintf("key %+q=%+q, added by the handler to its own metadata.MD after the Set/Send call, reached the client as header metadata", k, v))
			break
		}
		if v, ok := o.MDTrl[k]; ok && !isHTTP && !blind {
			add("trailer-extra", "md-"+sc.Mutate+"-after-call", fmt.Sprintf("key %+q=%+q, added by the handler to its own metadata.MD after the Set/Send call, reached the client as trailer metadata", k, v))
			break
		}
	}
	return vs, ""
}

// --------------------------------------------------------------- generators

const tokenPunct = "!#$%&'*+-.^_`|~"
const tokenAlnum = "abcdefghijklmnopqrstuvwxyzABCDEFGHIJKLMNOPQRSTUVWXYZ0123456789"
const grpcKeyChars = "abcdefghijklmnopqrstuvwxyz0123456789_.-"

func reservedRequestName(l string) bool {
	switch l {
	case "host", "te", "user-agent", "trailer", "connection", "upgrade", "expect", "cookie", "date", "via", "range", "origin", "referer", "from", "pragma", "warning", "vary", "age", "allow", "link", "location", "server", "etag", "expires":
		return true
	}
	for _, p := range []string{"grpc-", "content-", "accept", "transfer-", "sec-", "proxy-", "if-", "twirp", "http2", "keep-alive", "x-forwarded", "authorization", "forwarded", "access-control", "last-", "max-", ":"} {
		if strings.HasPrefix(l, p) {
			return true
		}
	}
	return false
}

// genReqName makes a request header name: tokens over the whole HTTP token
// alphabet in mixed case (wide) or over gRPC's key alphabet (for grpc-go).
// name alphabets of request headers
const (
	nameGRPC      = 0 // gRPC's key alphabet, lower case (what grpc-go accepts)
	nameWide      = 1 // the whole HTTP token alphabet, mixed case
	nameGRPCMixed = 2 // gRPC's key alphabet in mixed case (lower-cased by the mux before a proxy hop)
)

const grpcKeyCharsMixed = grpcKeyChars + "ABCDEFGHIJKLMNOPQRSTUVWXYZ"

func genReqName(rng *rand.Rand, mode int, bin bool, used map[string]bool) string {
	wide := mode != nameGRPC
	for {
		n := 1 + rng.Intn(10)
		var sb strings.Builder
		for i := 0; i < n; i++ {
			switch {
			case mode == nameGRPC:
				sb.WriteByte(grpcKeyChars[rng.Intn(len(grpcKeyChars))])
			case mode == nameGRPCMixed:
				sb.WriteByte(grpcKeyCharsMixed[rng.Intn(len(grpcKeyCharsMixed))])
			case rng.Intn(5) == 0:
				sb.WriteByte(tokenPunct[rng.Intn(len(tokenPunct))])
			default:
				sb.WriteByte(tokenAlnum[rng.Intn(len(tokenAlnum))])
			}
		}
		name := sb.String()
		if rng.Intn(2) == 0 {
			if wide && rng.Intn(2) == 0 {
				name = "X-" + name
			} else {
				name = "x-" + name
			}
		}
		l := strings.ToLower(name)
		if bin {
			sfx := "-bin"
			if wide {
				sfx = []string{"-bin", "-Bin", "-BIN", "-biN"}[rng.Intn(4)]
			}
			name += sfx
			l += "-bin"
		} else if strings.HasSuffix(l, "-bin") {
			continue
		}
		if reservedRequestName(l) || used[l] || l[0] == '.' && mode != nameWide {
			continue
		}
		used[l] = true
		return name
	}
}

func genASCIIValue(rng *rand.Rand) []byte {
	n := 1 + rng.Intn(16)
	b := make([]byte, n)
	for i := range b {
		b[i] = byte(0x21 + rng.Intn(0x7e-0x21+1))
		if i > 0 && i < n-1 && rng.Intn(6) == 0 {
			b[i] = ' '
		}
	}
	return b
}

func genBinValue(rng *rand.Rand) []byte {
	var n int
	switch rng.Intn(4) {
	case 0:
		n = rng.Intn(5)
	case 1:
		n = 5 + rng.Intn(12)
	case 2:
		n = 17 + rng.Intn(80)
	default:
		n = 97 + rng.Intn(400)
	}
	b := make([]byte, n)
	for i := range b {
		switch rng.Intn(8) {
		case 0:
			b[i] = 0xff
		case 1:
			b[i] = 0
		case 2:
			b[i] = 0xfb // produces '+' and '/' in base64
		default:
			b[i] = byte(rng.Intn(256))
		}
	}
	return b
}

func genOutKey(rng *rand.Rand, bin bool, used map[string]bool) string {
	for {
		n := 1 + rng.Intn(8)
		var sb strings.Builder
		sb.WriteString("x-")
		for i := 0; i < n; i++ {
			sb.WriteByte(grpcKeyChars[rng.Intn(len(grpcKeyChars))])
		}
		k := sb.String()
		if bin {
			k += "-bin"
		} else if strings.HasSuffix(k, "-bin") {
			continue
		}
		if used[k] {
			continue
		}
		used[k] = true
		return k
	}
}

func genOutSet(rng *rand.Rand, n int, used map[string]bool) []KV {
	var out []KV
	for i := 0; i < n; i++ {
		bin := rng.Intn(3) == 0
		kv := KV{K: genOutKey(rng, bin, used)}
		nv := 1
		if rng.Intn(3) == 0 {
			nv = 2 + rng.Intn(2)
		}
		for j := 0; j < nv; j++ {
			if bin {
				kv.V = append(kv.V, genBinValue(rng))
			} else {
				kv.V = append(kv.V, genASCIIValue(rng))
			}
		}
		out = append(out, kv)
	}
	return out
}

// singleReply: methods that answer with exactly one message (unary, client-streaming).
func singleReply(method string) bool { return method == "Echo" || method == "CS" }

// gzipCapable: protocols with per-message grpc-encoding.
func gzipCapable(proto string) bool { return strings.HasPrefix(proto, "grpc") }

type c14Runner struct {
	r      *mon.Run
	env    *Env
	rng    *rand.Rand
	target string      // "" | "proxy": target of the cases being generated
	opt    string      // mux options of the incoming cases being generated
	hop    [][2]string // hop-by-hop headers added to the incoming cases being generated
}

// nameMode is the header-name alphabet for a protocol on the current target:
// a proxied call crosses a grpc-go client, which refuses keys outside gRPC's
// alphabet.
func (g *c14Runner) nameMode(wide bool) int {
	switch {
	case !wide:
		return nameGRPC
	case g.target == "proxy":
		return nameGRPCMixed
	}
	return nameWide
}

func (g *c14Runner) exec(c *Case) {
	o, rec := g.env.run(c)
	vs, inc := check14(c, o, rec)
	r := g.r
	r.Eval(1)
	r.Count("rpcs_"+protoFamily(c.Proto), 1)
	if len(o.Panics) > 0 {
		r.Count("server_panics_observed", len(o.Panics))
	}
	if inc != "" {
		r.Inconclusive(inc)
	}
	if strings.HasPrefix(c.Proto, "grpcweb") && o.WebErr != "" && c.Kind == "C14out" {
		r.Count("grpcweb_cases_with_unreadable_trailer_frame", 1)
	}
	if c.Target == "proxy" {
		r.Count("rpcs_to_proxied_backend", 1)
	}
	if rec.Ran && inc == "" {
		if c.Kind == "C14in" {
			classes := map[string]bool{}
			for _, h := range c.ReqHdr {
				cl := nameClass(h.Name) + "/" + h.valueClass()
				r.Count("request_headers_checked", 1)
				r.Count("request_header_values_checked", len(h.Vals))
				if h.bin() && len(h.Vals) > 1 {
					r.Count("bin_request_headers_with_repeated_values_checked", 1)
				}
				if h.valueClass() == "bin-mixed-padding" {
					// one key whose values differ in spelling: the pattern, in
					// order, is part of the shape
					cl += "/" + h.spellings()
					r.Count("bin_request_headers_mixing_padded_and_unpadded_values_checked", 1)
					for i := range h.Vals {
						r.Count("mixed_padding_header_values_checked_"+spellingName[h.spelling(i)], 1)
					}
				}
				classes[cl] = true
			}
			for cl := range classes {
				r.Distinct(fmt.Sprintf("in/%s%s/%s/%s/%s/hop=%d", c.Target+":"+c.Opt+":", protoFamily(c.Proto), c.Codec, c.Method, cl, len(c.Hop)))
			}
		} else {
			r.Count("response_header_keys_checked", len(c.Script.Hdr))
			r.Count("response_trailer_keys_checked", len(c.Script.Trl)+len(c.Script.TrlLate))
			r.Distinct(fmt.Sprintf("out/"+c.Target+":%s/%s/%s/%s/hdr=%d,send=%v/trl=%d+%d/late-hdr=%d/%s", protoFamily(c.Proto), c.Codec, c.Method, outcomeClass(c, rec),
				min(len(c.Script.Hdr), 2), c.Script.SendHdr, min(len(c.Script.Trl), 2), min(len(c.Script.TrlLate), 2), min(len(c.Script.HdrLate), 1), c.Class+fmt.Sprintf("/gzip=%v", c.Gzip)))
		}
	}
	for _, v := range vs {
		r.Violate(v.key, v.what, c)
	}
	if r.SampleN() < 6 && g.rng.Intn(400) == 0 {
		r.Sample(map[string]any{"kind": c.Kind, "proto": c.Proto, "method": c.Method, "req_hdr": c.ReqHdr, "script": c.Script,
			"handler_md_keys": sortedKeys(rec.MD), "client_header_keys": sortedKeys(o.MDHdr), "client_trailer_keys": sortedKeys(o.MDTrl)})
	}
}

func min(a, b int) int {
	if a < b {
		return a
	}
	return b
}

// inProtos lists the request paths for the incoming direction. wide = the
// client can put arbitrary token names / padded base64 on the wire.
var inProtos = []struct {
	proto string
	wide  bool
	heavy bool // cheap enough for the exhaustive 2-byte sweep
}{
	{"http", true, true}, {"http-sock", true, false}, {"grpc-raw", true, true}, {"grpc-h2c", true, false},
	{"grpc", false, false}, {"grpcweb", true, true}, {"grpcweb-text", true, false}, {"grpcweb-sock", true, false},
	{"twirp", true, false}, {"twirp-sock", true, false},
	{"ws", true, false}, // the WebSocket handshake is an HTTP/1 request served by the transcoding path
}

func (g *c14Runner) inCase(proto, method string, hdrs []HdrSpec, class string) {
	codec := "proto"
	if strings.HasPrefix(proto, "http") || g.rng.Intn(4) == 0 {
		codec = []string{"json", "proto"}[g.rng.Intn(2)]
	}
	if proto == "ws" {
		method, codec = "Bidi", "json"
	}
	c := &Case{Kind: "C14in", Proto: proto, Codec: codec, Method: method, ReqHdr: hdrs, Class: class, Target: g.target,
		Script: Script{Replies: 1}, Hop: g.hop, Opt: g.opt}
	c.Gzip = gzipCapable(proto) && g.rng.Intn(3) == 0
	g.exec(c)
}

// binSweep sends every given byte string as a -bin value, padded and
// unpadded, packed 1..3 values per key and up to 6 keys per request.
func (g *c14Runner) binSweep(proto string, wide bool, vals [][]byte, class string) {
	for _, padded := range []bool{false, true} {
		if padded && !wide {
			continue // grpc-go always sends unpadded values
		}
		i := 0
		for i < len(vals) {
			used := map[string]bool{}
			var hdrs []HdrSpec
			for k := 0; k < 6 && i < len(vals); k++ {
				nv := 1 + g.rng.Intn(3)
				h := HdrSpec{Name: genReqName(g.rng, g.nameMode(wide), true, used), Padded: padded}
				for j := 0; j < nv && i < len(vals); j++ {
					h.Vals = append(h.Vals, vals[i])
					i++
				}
				hdrs = append(hdrs, h)
			}
			g.inCase(proto, "Echo", hdrs, class)
		}
	}
}

// binOfLen makes a byte string of exactly n bytes with the byte mix of
// genBinValue.
func binOfLen(rng *rand.Rand, n int) []byte {
	b := make([]byte, n)
	for i := range b {
		switch rng.Intn(8) {
		case 0:
			b[i] = 0xff
		case 1:
			b[i] = 0
		case 2:
			b[i] = 0xfb
		default:
			b[i] = byte(rng.Intn(256))
		}
	}
	return b
}

// valueShapes are the ways one value of a -bin header can be written: its
// length modulo 3 (which fixes the length of the unpadded base64 modulo 4:
// 0, 2, 3) and, where it matters, with or without '=' padding.
var valueShapes = []struct {
	res    int // len(value) % 3; -1 = the empty value
	padded bool
}{{-1, false}, {0, false}, {1, true}, {1, false}, {2, true}, {2, false}}

// shapedHeader builds one -bin header whose i-th value has shape shapes[i].
func (g *c14Runner) shapedHeader(name string, shapes []int) HdrSpec {
	h := HdrSpec{Name: name}
	for _, si := range shapes {
		sh := valueShapes[si]
		n := 0
		if sh.res >= 0 {
			k := g.rng.Intn(4)
			if g.rng.Intn(6) == 0 {
				k = 4 + g.rng.Intn(60)
			}
			n = sh.res + 3*k
			if n == 0 {
				n = 3
			}
		}
		h.Vals = append(h.Vals, binOfLen(g.rng, n))
		h.Pads = append(h.Pads, sh.padded)
	}
	return h
}

// spellingSweep drives the per-value part of "'-bin' values base64-decoded
// whether or not they are padded, all values in order": one -bin key is
// repeated 2..3 (thorough: ..4) times and every value has its own spelling.
// Every sequence over the six value shapes (empty, no padding needed, length
// 1 / 2 mod 3 each padded and unpadded) is sent on every front whose client
// chooses the spelling, to the local and to the proxied handler; random longer
// lists (up to 6 values) and the observer option sets follow. Each request
// also carries a repeated ASCII header, which must be unaffected.
func (g *c14Runner) spellingSweep() {
	r, rng := g.r, g.rng
	var seqs [][]int
	var rec func(prefix []int, n int)
	rec = func(prefix []int, n int) {
		if n == 0 {
			seqs = append(seqs, append([]int{}, prefix...))
			return
		}
		for s := range valueShapes {
			rec(append(prefix, s), n-1)
		}
	}
	for n := 2; n <= r.Pick(3, 4); n++ {
		rec(nil, n)
	}
	send := func(p string, wide bool, lists [][]int, per int, class string) {
		for i, reqNo := 0, 0; i < len(lists); reqNo++ {
			used := map[string]bool{}
			var hdrs []HdrSpec
			for k := 0; k < per && i < len(lists); k++ {
				hdrs = append(hdrs, g.shapedHeader(genReqName(rng, g.nameMode(wide), true, used), lists[i]))
				i++
			}
			// an ordinary repeated header next to them, at a random position
			a := HdrSpec{Name: genReqName(rng, g.nameMode(wide), false, used), Vals: [][]byte{genASCIIValue(rng), genASCIIValue(rng)}}
			at := rng.Intn(len(hdrs) + 1)
			hdrs = append(hdrs[:at], append([]HdrSpec{a}, hdrs[at:]...)...)
			method := "Echo"
			if reqNo%3 == 2 && p != "grpc-h2c" {
				method = "SS"
			}
			g.inCase(p, method, hdrs, class)
		}
	}
	randomLists := func(n int) [][]int {
		var out [][]int
		for i := 0; i < n; i++ {
			l := make([]int, 2+rng.Intn(5))
			for j := range l {
				l[j] = rng.Intn(len(valueShapes))
			}
			out = append(out, l)
		}
		return out
	}
	for _, g.target = range []string{"", "proxy"} {
		for _, p := range inProtos {
			if !p.wide {
				continue // grpc-go spells every value the same way
			}
			send(p.proto, p.wide, seqs, 6, "bin-spelling-per-value")
			send(p.proto, p.wide, randomLists(r.Pick(24, 400)), 3, "bin-spelling-per-value-long")
		}
	}
	for _, g.opt = range []string{"stats", "icept", "stats+icept"} {
		for _, g.target = range []string{"", "proxy"} {
			for _, p := range inProtos {
				if !p.wide {
					continue
				}
				send(p.proto, p.wide, seqs[:36], 6, "bin-spelling-per-value")
				send(p.proto, p.wide, randomLists(r.Pick(6, 60)), 3, "bin-spelling-per-value-long")
			}
		}
	}
}

// RunC14 is the metadata fidelity check.
func RunC14(r *mon.Run) {
	r.Rule = "(in) requests carrying 1-6 custom headers (names over the HTTP token alphabet in mixed case, 1-3 values, '-bin' names with every byte string of length 0-1 (thorough: 0-2) plus boundary/random strings of length 3..500, each sent as padded and as unpadded base64; and repeated '-bin' headers whose 2-6 values each have their own spelling: every sequence of length 2-3 (thorough: 2-4) over {empty, length 0 / 1 / 2 mod 3, the latter two padded or unpadded}, plus random longer lists, next to a repeated ASCII header) on HTTP transcoding, raw gRPC (in-process, h2c), grpc-go, gRPC-web binary/text (in-process, HTTP/1 socket) and the WebSocket handshake, plus a class that adds hop-by-hop headers (Connection, Keep-Alive, Proxy-Connection) on the HTTP/1 fronts, which must not become metadata, with the handler registered on the mux and with the same handler on a grpc.Server back-end proxied through RegisterConn; the handler's metadata.FromIncomingContext is compared with what was sent. (out) a scripted handler sets 0-4 header keys (SetHeader or SendHeader) and 0-4 trailer keys before / after its first reply, optionally one protocol-reserved key with a forged value, optionally with gzip-compressed messages (grpc-encoding, compressed and plain calls interleaved on the same mux), optionally keeps mutating / re-using the metadata.MD object it passed in (values overwritten in place, slices replaced, keys added, keys deleted, header MD refilled and passed to SetTrailer), then succeeds or fails before / after the first reply; HttpBody downloads through larking.AsHTTPBodyWriter and through HttpBody messages with 0 / 1 / many writes and metadata set before the writer is obtained, once it is held, or between writes; the client (HTTP response headers - also for Twirp requests -, grpc-go Header/Trailer call options, gRPC-web headers + trailer frame) must see every non-reserved key with the values it had at the time of the call, byte-equal, no key added later, never the forged value, and the handler's real status; the gRPC-web trailer frame is checked strictly (every line key: value, lower-case token keys, no key beyond the status keys and the handler's trailer keys). Non-trivial = the scripted handler ran; distinct = (direction, protocol, codec, method, name/value class | outcome, header/trailer set shape, reserved key)"
	r.Floor = 120
	env, err := newEnv()
	if err != nil {
		r.Inconclusive("environment: " + err.Error())
		return
	}
	defer env.Close()
	g := &c14Runner{r: r, env: env, rng: r.Rand("c14")}
	rng := g.rng

	// ---------------- incoming
	var short [][]byte
	short = append(short, []byte{})
	for b := 0; b < 256; b++ {
		short = append(short, []byte{byte(b)})
	}
	var two [][]byte
	if r.Thorough() {
		for a := 0; a < 256; a++ {
			for b := 0; b < 256; b++ {
				two = append(two, []byte{byte(a), byte(b)})
			}
		}
	}
	edge := []byte{0x00, 0x01, 0x3e, 0x3f, 0x7f, 0x80, 0xfb, 0xff}
	var boundary [][]byte
	for _, a := range edge {
		for _, b := range edge {
			boundary = append(boundary, []byte{a, b})
			for _, c := range edge {
				boundary = append(boundary, []byte{a, b, c})
				boundary = append(boundary, []byte{a, b, c, a})
			}
		}
	}
	nRandIn := r.Pick(150, 1500)
	for _, g.target = range []string{"", "proxy"} {
		for _, p := range inProtos {
			g.binSweep(p.proto, p.wide, short, "bin-len0-1")
			g.binSweep(p.proto, p.wide, boundary, "bin-len2-4-boundary")
			if p.heavy && len(two) > 0 {
				g.binSweep(p.proto, p.wide, two, "bin-len2-all")
			}
			n := nRandIn
			if !p.heavy {
				n = nRandIn / 3
			}
			if g.target == "proxy" && !r.Thorough() {
				n = n/2 + 1
			}
			for i := 0; i < n; i++ {
				used := map[string]bool{}
				var hdrs []HdrSpec
				for k, nk := 0, 1+rng.Intn(6); k < nk; k++ {
					bin := rng.Intn(3) == 0
					h := HdrSpec{Name: genReqName(rng, g.nameMode(p.wide), bin, used), Padded: bin && p.wide && rng.Intn(2) == 0}
					nv := 1
					if rng.Intn(2) == 0 {
						nv = 2 + rng.Intn(2)
					}
					for j := 0; j < nv; j++ {
						if bin {
							h.Vals = append(h.Vals, genBinValue(rng))
						} else {
							h.Vals = append(h.Vals, genASCIIValue(rng))
						}
					}
					hdrs = append(hdrs, h)
				}
				method := "Echo"
				if rng.Intn(4) == 0 && p.proto != "grpc-h2c" {
					method = "SS"
				}
				g.inCase(p.proto, method, hdrs, "random")
			}
		}
		// custom names that only resemble reserved ones (grpc-foo, content-typex, te-x ...)
		for _, p := range inProtos {
			for rep := 0; rep < 2; rep++ {
				var hdrs []HdrSpec
				for i, n := range nearReservedNames {
					name := n
					if p.wide && rep == 1 {
						name = strings.ToUpper(n[:1]) + n[1:len(n)/2] + strings.ToUpper(n[len(n)/2:])
					}
					h := HdrSpec{Name: name, Padded: p.wide && rep == 1}
					if isBinKey(n) {
						h.Vals = [][]byte{{0, 0xff, byte(i), 0x80}, {'p'}}
					} else {
						h.Vals = [][]byte{[]byte(fmt.Sprintf("near %d", i)), []byte("second")}
					}
					hdrs = append(hdrs, h)
				}
				g.inCase(p.proto, []string{"Echo", "SS"}[rep], hdrs, "near-reserved-names")
			}
		}
		// a custom key the client nominates in its Connection header: for a
		// locally registered service the mux is the addressed hop, the key is
		// still a custom request header of the call (local target only)
		if g.target == "" {
			for _, hp := range []string{"http", "http-sock", "grpcweb", "grpcweb-text", "grpcweb-sock", "grpcweb-text-sock"} {
				for i, n := 0, r.Pick(8, 60); i < n; i++ {
					used := map[string]bool{}
					var hdrs []HdrSpec
					var named []string
					for k, nk := 0, 1+rng.Intn(3); k < nk; k++ {
						bin := (i+k)%2 == 0
						h := HdrSpec{Name: genReqName(rng, nameGRPCMixed, bin, used), Padded: bin && rng.Intn(2) == 0}
						for j, nv := 0, 1+rng.Intn(3); j < nv; j++ {
							if bin {
								h.Vals = append(h.Vals, genBinValue(rng))
							} else {
								h.Vals = append(h.Vals, genASCIIValue(rng))
							}
						}
						hdrs = append(hdrs, h)
						if k == 0 || rng.Intn(2) == 0 {
							nm := h.Name
							switch rng.Intn(3) {
							case 0:
								nm = strings.ToLower(nm)
							case 1:
								nm = strings.ToUpper(nm)
							}
							named = append(named, nm)
						}
					}
					conn := strings.Join(named, ", ")
					if i%2 == 0 {
						conn = "keep-alive, " + conn
					}
					g.hop = [][2]string{{"Connection", conn}}
					g.inCase(hp, []string{"Echo", "SS"}[i%2], hdrs, "named-in-connection")
					g.hop = nil
				}
			}
		}
		// hop-by-hop headers of HTTP/1 fronts: never metadata, and every other
		// header still arrives
		hopSets := [][][2]string{
			{{"Connection", "keep-alive"}},
			{{"Connection", "keep-alive"}, {"Keep-Alive", "timeout=5"}},
			{{"Proxy-Connection", "keep-alive"}},
			{{"Connection", "close"}},
			{{"Keep-Alive", "timeout=5"}, {"Proxy-Connection", "keep-alive"}},
		}
		for _, hp := range []string{"http", "http-sock", "grpcweb", "grpcweb-text", "grpcweb-sock", "grpcweb-text-sock", "ws"} {
			for _, hs := range hopSets {
				if hp == "ws" && hs[0][0] == "Connection" {
					continue // the handshake has its own Connection: Upgrade
				}
				for i, n := 0, r.Pick(3, 20); i < n; i++ {
					used := map[string]bool{}
					var hdrs []HdrSpec
					for k, nk := 0, 1+rng.Intn(3); k < nk; k++ {
						bin := rng.Intn(2) == 0
						h := HdrSpec{Name: genReqName(rng, g.nameMode(true), bin, used), Padded: bin && rng.Intn(2) == 0}
						if bin {
							h.Vals = append(h.Vals, genBinValue(rng))
						} else {
							h.Vals = append(h.Vals, genASCIIValue(rng), genASCIIValue(rng))
						}
						hdrs = append(hdrs, h)
					}
					g.hop = hs
					g.inCase(hp, []string{"Echo", "SS"}[i%2], hdrs, "hop-by-hop")
					g.hop = nil
				}
			}
		}
	}
	g.target = ""
	// the same classes with mux options that must not change what a handler
	// sees: a no-op stats handler, pass-through interceptors, both
	for _, g.opt = range []string{"stats", "icept", "stats+icept"} {
		for _, g.target = range []string{"", "proxy"} {
			for _, p := range inProtos {
				g.binSweep(p.proto, p.wide, short[:40], "bin-len0-1")
				for i := 0; i < r.Pick(6, 60); i++ {
					used := map[string]bool{}
					var hdrs []HdrSpec
					for k, nk := 0, 1+rng.Intn(4); k < nk; k++ {
						bin := rng.Intn(3) == 0
						h := HdrSpec{Name: genReqName(rng, g.nameMode(p.wide), bin, used), Padded: bin && p.wide && rng.Intn(2) == 0}
						for j, nv := 0, 1+rng.Intn(3); j < nv; j++ {
							if bin {
								h.Vals = append(h.Vals, genBinValue(rng))
							} else {
								h.Vals = append(h.Vals, genASCIIValue(rng))
							}
						}
						hdrs = append(hdrs, h)
					}
					g.inCase(p.proto, []string{"Echo", "Echo", "SS"}[i%3], hdrs, "random")
				}
			}
		}
	}
	g.target, g.opt = "", ""

	// ---------------- outgoing
	type outVar struct {
		proto  string
		method string
	}
	var ovs []outVar
	for _, p := range []string{"http", "http-sock", "grpcweb", "grpcweb-text", "grpcweb-sock", "grpcweb-text-sock"} {
		ovs = append(ovs, outVar{p, "Echo"}, outVar{p, "SS"})
	}
	ovs = append(ovs, outVar{"grpc", "Echo"}, outVar{"grpc", "SS"}, outVar{"grpc", "Bidi"}, outVar{"grpc", "CS"})
	// Twirp: the implicit /pkg.Service/Method binding with a Twirp-Version header (unary only)
	ovs = append(ovs, outVar{"twirp", "Echo"}, outVar{"twirp-sock", "Echo"})
	outcomes := []struct {
		code    uint32
		replies int
	}{{0, 1}, {0, 2}, {5, 0}, {13, 0}, {3, 1}, {5, 2}, {0, 0}}
	nRandOut := r.Pick(120, 900)
	mutations := []string{"overwrite", "replace", "add", "delete", "reuse"}
	for _, target := range []string{"", "proxy"} {
		reduced := target == "proxy" && !r.Thorough()
		for _, v := range ovs {
			if reduced && strings.HasSuffix(v.proto, "-sock") {
				continue
			}
			nRandOut := nRandOut
			if reduced {
				nRandOut /= 3
			}
			mk := func(oc struct {
				code    uint32
				replies int
			}) *Case {
				codec := "proto"
				if strings.HasPrefix(v.proto, "http") || strings.HasPrefix(v.proto, "twirp") || rng.Intn(4) == 0 {
					codec = []string{"json", "proto"}[rng.Intn(2)]
				}
				c := &Case{Kind: "C14out", Proto: v.proto, Codec: codec, Method: v.method, Class: "custom", Target: target,
					Script: Script{Code: oc.code, Msg: "metadata case", Replies: oc.replies}}
				if singleReply(v.method) {
					c.Script.Replies = 0
					if oc.code == 0 {
						c.Script.Replies = 1
					}
				}
				c.Gzip = gzipCapable(v.proto) && rng.Intn(3) == 0
				return c
			}
			// random custom sets
			for i := 0; i < nRandOut; i++ {
				oc := outcomes[rng.Intn(len(outcomes))]
				if singleReply(v.method) && oc.replies > 0 && oc.code != 0 {
					oc.replies = 0
				}
				c := mk(oc)
				used := map[string]bool{}
				c.Script.Hdr = genOutSet(rng, rng.Intn(5), used)
				c.Script.SendHdr = rng.Intn(3) == 0
				c.Script.Trl = genOutSet(rng, rng.Intn(5), used)
				if v.method != "Echo" {
					if rng.Intn(2) == 0 {
						c.Script.TrlLate = genOutSet(rng, 1+rng.Intn(3), used)
					}
					if rng.Intn(4) == 0 {
						c.Script.HdrLate = genOutSet(rng, 1, used)
					}
				}
				if rng.Intn(3) == 0 {
					c.Script.Mutate = mutations[rng.Intn(len(mutations))]
					c.Class = "md-" + c.Script.Mutate
				}
				g.exec(c)
			}
			// the handler keeps using the MD object it passed in
			for _, mut := range mutations {
				for _, oc := range outcomes {
					if singleReply(v.method) && oc.replies > 0 && oc.code != 0 {
						continue
					}
					for _, send := range []bool{false, true} {
						c := mk(oc)
						c.Class = "md-" + mut
						used := map[string]bool{}
						c.Script.Hdr = genOutSet(rng, 1+rng.Intn(3), used)
						c.Script.Trl = genOutSet(rng, 1+rng.Intn(3), used)
						c.Script.SendHdr = send
						c.Script.Mutate = mut
						if v.method != "Echo" && oc.replies > 0 && rng.Intn(2) == 0 {
							c.Script.TrlLate = genOutSet(rng, 1+rng.Intn(2), used)
						}
						g.exec(c)
					}
				}
			}
			// compressed and plain calls alternate on the same mux; trailer keys
			// that sort before and after the status keys
			if gzipCapable(v.proto) {
				for i, n := 0, r.Pick(6, 40); i < n; i++ {
					for _, gz := range []bool{true, false, false} {
						oc := outcomes[(i+1)%len(outcomes)]
						if singleReply(v.method) && oc.replies > 0 && oc.code != 0 {
							oc.replies = 0
						}
						c := mk(oc)
						c.Gzip = gz
						c.Class = "gzip-interleaved"
						used := map[string]bool{}
						c.Script.Hdr = genOutSet(rng, 1, used)
						c.Script.Trl = append(genOutSet(rng, 1+rng.Intn(2), used), KV{K: "a-first", V: [][]byte{[]byte("sorts before grpc-status")}})
						g.exec(c)
					}
				}
			}
			// HttpBody downloads: AsHTTPBodyWriter / HttpBody messages with 0, 1,
			// many writes; metadata before the writer is obtained, once it is
			// held, between writes; succeeding and failing
			if v.proto == "http" || v.proto == "http-sock" {
				for _, dl := range []struct{ mode, route, method string }{{"writer", "download", "Download"}, {"sendmsg", "download", "Download"}, {"sendmsg", "downloadu", "DownloadU"}} {
					if dl.mode == "writer" && target == "proxy" {
						continue // AsHTTPBodyWriter needs the HTTP stream of the mux itself
					}
					for _, chunks := range [][]int{nil, {0}, {1}, {300}, {5, 0, 70000, 1}} {
						if dl.method == "DownloadU" && len(chunks) > 1 {
							chunks = []int{chunks[0] + chunks[2]}
						}
						for _, at := range []string{"", "after-writer", "between"} {
							if at == "between" && len(chunks) == 0 || at != "" && dl.method == "DownloadU" || at == "after-writer" && dl.mode != "writer" {
								continue
							}
							for _, code := range []uint32{0, 5} {
								for _, send := range []bool{false, true} {
									c := &Case{Kind: "C14out", Proto: v.proto, Codec: "json", Method: dl.method, Class: "httpbody-download", Target: target,
										Route: dl.route, ReqCT: "-", Accept: "-",
										Script: Script{Code: code, Msg: "metadata case", DL: dl.mode, Chunks: chunks, HdrAt: at, SendHdr: send}}
									if dl.method == "DownloadU" {
										if code == 0 {
											c.Script.Replies = 1
										} else {
											c.Script.Chunks = nil
										}
									}
									used := map[string]bool{}
									c.Script.Hdr = genOutSet(rng, 1+rng.Intn(3), used)
									c.Script.Trl = genOutSet(rng, rng.Intn(2), used)
									g.exec(c)
								}
							}
						}
					}
				}
			}
			// header and trailer keys that only resemble reserved ones
			for _, oc := range outcomes {
				if singleReply(v.method) && oc.replies > 0 && oc.code != 0 {
					continue
				}
				for _, send := range []bool{false, true} {
					c := mk(oc)
					c.Class = "near-reserved-names"
					c.Script.Hdr = nearReservedSet("header")
					c.Script.Trl = nearReservedSet("trailer")
					c.Script.SendHdr = send
					g.exec(c)
				}
			}
			// a trailer key that is also a header key
			for _, oc := range outcomes {
				if singleReply(v.method) && oc.replies > 0 && oc.code != 0 {
					continue
				}
				c := mk(oc)
				c.Class = "trailer-key-equals-header-key"
				c.Script.Hdr = []KV{{K: "x-both", V: [][]byte{[]byte("header-value")}}, {K: "x-h-only", V: [][]byte{[]byte("h")}}}
				c.Script.Trl = []KV{{K: "x-both", V: [][]byte{[]byte("trailer-value")}}, {K: "x-t-only", V: [][]byte{[]byte("t")}}}
				g.exec(c)
			}
			// the same class under the observer option sets (a stats handler makes
			// the HTTP path touch the trailer metadata): shared keys, text and
			// -bin, for calls that end without a message and with one
			for _, opt := range []string{"stats", "stats+icept", "icept"} {
				for _, oc := range outcomes {
					if singleReply(v.method) && oc.replies > 0 && oc.code != 0 {
						continue
					}
					for _, send := range []bool{false, true} {
						c := mk(oc)
						c.Opt = opt
						c.Class = "trailer-key-equals-header-key"
						c.Script.SendHdr = send
						c.Script.Hdr = []KV{{K: "x-both", V: [][]byte{[]byte("header-value"), []byte("h2")}}, {K: "x-both-bin", V: [][]byte{{0, 1, 0xff, 'h'}}}, {K: "x-h-only", V: [][]byte{[]byte("h")}}}
						c.Script.Trl = []KV{{K: "x-both", V: [][]byte{[]byte("trailer-value")}}, {K: "x-both-bin", V: [][]byte{{9, 9, 't'}, {'t'}}}, {K: "x-t-only", V: [][]byte{[]byte("t")}}}
						g.exec(c)
					}
				}
			}
			// one reserved key with a forged value, in the header or trailer set
			// (local target only: what a grpc-go back-end does with reserved
			// keys of its own handler is decided before the proxy sees anything)
			for _, rk := range reservedOrder {
				if target == "proxy" {
					break
				}
				for _, where := range []string{"header", "trailer", "trailer-late"} {
					for _, oc := range outcomes {
						if singleReply(v.method) && (oc.replies > 0 && oc.code != 0 || where == "trailer-late") {
							continue
						}
						if where == "trailer-late" && oc.replies == 0 {
							continue
						}
						if (strings.HasPrefix(v.proto, "http") || strings.HasPrefix(v.proto, "twirp")) && (where != "header" || rk == "grpc-status-details-bin") {
							continue // trailers are not obliged on HTTP transcoding; no HTTP client interprets the details key
						}
						for _, send := range []bool{false, true} {
							if send && where != "header" {
								continue
							}
							c := mk(oc)
							c.Class = "reserved-" + rk + "@" + where
							used := map[string]bool{}
							c.Script.Hdr = genOutSet(rng, 1, used)
							c.Script.Trl = genOutSet(rng, 1, used)
							c.Script.SendHdr = send
							kv := KV{K: rk, V: [][]byte{reservedForged[rk]}}
							switch where {
							case "header":
								c.Script.Hdr = append(c.Script.Hdr, kv)
							case "trailer":
								c.Script.Trl = append(c.Script.Trl, kv)
							default:
								c.Script.TrlLate = append(c.Script.TrlLate, kv)
							}
							g.exec(c)
						}
					}
				}
			}
		}
	}

	// gRPC-web-text with a body: every trailer block length (trailer value
	// length 1..12 x status message length 0..2): the announced frame length is
	// delivered and the base64 stream decodes completely
	for _, p := range []string{"grpcweb-text", "grpcweb-text-sock", "grpcweb"} {
		for _, target := range []string{"", "proxy"} {
			if target == "proxy" && p != "grpcweb-text" {
				continue
			}
			for _, replies := range []int{1, 2} {
				for l := 1; l <= 12; l++ {
					for ml := -1; ml <= 2; ml++ {
						c := &Case{Kind: "C14out", Proto: p, Codec: "proto", Method: "SS", Class: "trailer-length-sweep", Target: target,
							Script: Script{Code: 5, Msg: repeatTo("m", ml), Replies: replies,
								Trl: []KV{{K: "x-len", V: [][]byte{[]byte(repeatTo("v", l))}}}}}
						if ml < 0 {
							c.Script.Code, c.Script.Msg = 0, "metadata case"
						}
						g.exec(c)
					}
				}
			}
		}
	}

	// metadata attached after the call's deadline has fired (raw clients: only
	// the grpc-timeout header is small): the debug trailer next to a
	// DeadlineExceeded must still reach the wire
	for _, p := range []string{"grpc-raw", "grpc-h2c", "grpcweb", "grpcweb-text", "grpcweb-sock", "grpcweb-text-sock"} {
		for _, mv := range []struct {
			method  string
			replies int
		}{{"Echo", 0}, {"SS", 0}, {"SS", 1}, {"SS", 3}} {
			for _, code := range []uint32{4, 5} { // (a reply after the deadline cannot be sent: failing calls only)
				for i := 0; i < r.Pick(2, 10); i++ {
					c := &Case{Kind: "C14out", Proto: p, Codec: "proto", Method: mv.method, Class: "metadata-after-ctx-done",
						Script: Script{Code: code, Msg: "metadata case", Replies: mv.replies, WaitCtx: true, MDAfterCtx: true}}
					if code == 0 && mv.replies == 0 {
						c.Script.Replies = 1
					}
					used := map[string]bool{}
					if c.Script.Replies == 0 {
						c.Script.Hdr = genOutSet(rng, 1+rng.Intn(3), used) // SetHeader: still before the first reply
					}
					c.Script.Trl = genOutSet(rng, 1+rng.Intn(3), used)
					g.exec(c)
				}
			}
		}
	}

	// repeated -bin request headers whose values differ in spelling (own PRNG
	// stream: the cases above do not depend on this section)
	g.rng = r.Rand("c14-spelling")
	g.spellingSweep()
	g.target, g.opt = "", ""

	r.Assume("proxied target (handler on a grpc.Server reached through RegisterConn): request header names are restricted to gRPC's key alphabet (the grpc-go hop refuses others); response metadata of the back-end carries no delivery obligation through the proxy except the trailer metadata of streaming methods (client-, server-, bidi-streaming) that end OK, which the proxy relays (pinned from the unchanged tree); otherwise only relayed keys are compared (values at call time, byte-equal), plus status, replies, reserved keys and scratch keys")
	r.Assume("custom names avoid the names HTTP itself or gRPC reserve (host, te, content-*, accept*, grpc-*, ...) and are unique per request after lower-casing; ASCII values are printable without leading/trailing white space; a trailer set after the first reply is only required when the handler got that far")
	r.Assume("header metadata set after the first reply carries no delivery obligation (grpc-go rejects it); trailers are not required on plain HTTP transcoding; a gRPC-web client reads trailers from the trailer frame, or from the HTTP headers of a body-less response")
	r.Assume("reserved keys checked: content-type, grpc-status, grpc-message, grpc-encoding, grpc-status-details-bin (the keys a gRPC client interprets in a response)")
}
