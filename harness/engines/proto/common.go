// Package proto is the protocol-matrix engine: C05 (status and error
// fidelity) and C14 (metadata fidelity). A scripted handler behind a real
// larking Mux returns statuses / sets metadata as told by a script that the
// harness keeps in a table keyed by the id carried in the request message;
// one client per protocol (HTTP JSON/protobuf, Twirp, grpc-go, raw gRPC,
// gRPC-web binary/text, WebSocket) observes what comes back, in-process
// through net/http/httptest and over real loopback sockets.
package proto

import (
	"bufio"
	"bytes"
	"context"
	"encoding/base64"
	"errors"
	"fmt"
	"io"
	"net"
	"net/http"
	"os"
	"regexp"
	"runtime"
	"sort"
	"strconv"
	"strings"
	"sync"
	"time"

	"github.com/gobwas/ws"
	"github.com/gobwas/ws/wsutil"
	"google.golang.org/genproto/googleapis/api/httpbody"
	"google.golang.org/genproto/googleapis/rpc/errdetails"
	spb "google.golang.org/genproto/googleapis/rpc/status"
	"google.golang.org/grpc"
	"google.golang.org/grpc/codes"
	"google.golang.org/grpc/encoding"
	_ "google.golang.org/grpc/encoding/gzip" // grpc-go client side gzip (other engines register it as well)
	"google.golang.org/grpc/metadata"
	"google.golang.org/grpc/stats"
	"google.golang.org/grpc/status"
	"google.golang.org/protobuf/encoding/protojson"
	"google.golang.org/protobuf/proto"
	"google.golang.org/protobuf/reflect/protoreflect"
	"google.golang.org/protobuf/types/known/anypb"
	"google.golang.org/protobuf/types/known/durationpb"
	"larking.io/larking"

	"verif/internal/backend"
	"verif/internal/mon"
	"verif/internal/svc"
	"verif/internal/vschema"
	"verif/internal/wire"
)

// ------------------------------------------------------------------ script

// KV is one metadata key with its values. Values are raw bytes ("-bin" keys
// carry arbitrary bytes; JSON stores them as base64 so replay is exact).
type KV struct {
	K string   `json:"k"`
	V [][]byte `json:"v"`
}

// Script tells the handler what to do for one RPC.
type Script struct {
	Code    uint32 `json:"code"`              // 0 = return nil
	Msg     string `json:"msg"`               // status message (valid UTF-8)
	Details bool   `json:"details,omitempty"` // attach the two fixed detail messages
	Replies int    `json:"replies"`           // replies sent before returning (streaming); unary: 1 on success
	WaitCtx bool   `json:"wait_ctx,omitempty"`
	// MDAfterCtx (with WaitCtx): the Hdr / Trl calls are made after the call's
	// context is done instead of at entry.
	MDAfterCtx bool `json:"md_after_ctx,omitempty"`
	// PauseMs: the handler stays quiet this long before it returns its status.
	PauseMs int `json:"pause_ms,omitempty"`
	// Pad: the request message and every reply carry this many bytes of
	// (compressible) data: message size as a dimension of the traffic.
	Pad int `json:"pad,omitempty"`
	// metadata operations (C14)
	Hdr     []KV `json:"hdr,omitempty"`      // header metadata set before the first reply
	SendHdr bool `json:"send_hdr,omitempty"` // use SendHeader instead of SetHeader for Hdr
	HdrLate []KV `json:"hdr_late,omitempty"` // SetHeader after the first reply (no delivery obligation)
	Trl     []KV `json:"trl,omitempty"`      // SetTrailer before the first reply
	TrlLate []KV `json:"trl_late,omitempty"` // SetTrailer after the first reply
	// HttpBody download (C14, methods Download / DownloadU): DL is "writer"
	// (larking.AsHTTPBodyWriter, streaming Download on HTTP transcoding) or
	// "sendmsg" (HttpBody messages); Chunks are the sizes of the writes /
	// messages (none = the handler never writes a byte); HdrAt tells when the
	// Hdr / Trl calls are made: "" before the writer is obtained / before the
	// first message, "after-writer", "between" (after the first write).
	DL     string `json:"dl,omitempty"`
	Chunks []int  `json:"chunks,omitempty"`
	HdrAt  string `json:"hdr_at,omitempty"`
	// Pre is a metadata call made right before the status is returned, i.e.
	// after the replies (C05): "" | "set" | "send" | "trl", with fixed metadata.
	Pre string `json:"pre,omitempty"`
	// Mutate tells the handler to keep using the metadata.MD object it passed
	// to Set*/Send* after the call (C14): "" | "overwrite" (values changed in
	// place) | "replace" (value slices replaced) | "add" (scratch keys added) |
	// "delete" (all keys deleted) | "reuse" (the header MD object is emptied,
	// refilled and passed to SetTrailer). The client must see the metadata as
	// it was at the time of each call.
	Mutate string `json:"mutate,omitempty"`
}

// scratch keys a mutating handler adds to its MD after the call
const (
	scratchKey    = "x-scratch-after-call"
	scratchBinKey = "x-scratch-after-call-bin"
)

func preMD() metadata.MD {
	return metadata.MD{"x-c05-pre": {"v1", "v 2"}, "x-c05-pre-bin": {"\x00\xff\xfb%"}}
}

// mutateMD is what a handler does to its own MD object after having passed it
// to SetHeader / SendHeader / SetTrailer.
func mutateMD(md metadata.MD, kind string) {
	switch kind {
	case "overwrite":
		for _, vs := range md {
			for i := range vs {
				vs[i] = "mutated-after-call"
			}
		}
	case "replace":
		for k := range md {
			md[k] = []string{"replaced-after-call", "\x01\x02"}
		}
	case "add":
		md[scratchKey] = []string{"leak"}
		md[scratchBinKey] = []string{"\x00leak\xff"}
	case "delete":
		for k := range md {
			delete(md, k)
		}
	}
}

// Rec is what the handler observed / did.
type Rec struct {
	Done   bool // the handler has returned
	Ran    bool
	MD     metadata.MD
	IMD    metadata.MD // what a recording unary interceptor saw (option "icept")
	ISeen  bool
	Sent   int
	OpErrs []string
}

type entry struct {
	sc  *Script
	rec Rec
}

func toMD(kvs []KV) metadata.MD {
	md := metadata.MD{}
	for _, kv := range kvs {
		for _, v := range kv.V {
			md[kv.K] = append(md[kv.K], string(v))
		}
	}
	return md
}

// fixed detail messages
func detailMsgs() []proto.Message {
	return []proto.Message{
		&errdetails.ErrorInfo{Reason: "VERIF_REASON", Domain: "verif.test", Metadata: map[string]string{"k": "vé\n%"}},
		&errdetails.RetryInfo{RetryDelay: durationpb.New(1500 * time.Millisecond)},
	}
}

func statusOf(sc *Script) *status.Status {
	p := &spb.Status{Code: int32(sc.Code), Message: sc.Msg}
	if sc.Details {
		for _, d := range detailMsgs() {
			a, err := anypb.New(d)
			if err != nil {
				panic(err)
			}
			p.Details = append(p.Details, a)
		}
	}
	return status.FromProto(p)
}

// ------------------------------------------------------------- environment

// side is one way of reaching the scripted handler: registered locally on
// the mux, or on a real grpc.Server back-end that a second mux reaches
// through RegisterConn (reflection proxy).
type side struct {
	Mux    *larking.Mux
	Srv    *wire.Server
	CC     *grpc.ClientConn
	logOff int
}

// Env is the scripted handler behind two muxes (local / proxied target), each
// with a real server and clients. Mux, Srv and CC are those of the target of
// the case being executed (cases run one at a time).
type Env struct {
	Std *svc.Std
	Mux *larking.Mux
	Srv *wire.Server
	CC  *grpc.ClientConn
	H1  *http.Client
	H2  *http.Client

	sides map[string]*side // by target + "|" + mux options
	impl  vschema.Impl
	cur   *side
	be    *backend.Backend

	mu      sync.Mutex
	scripts map[string]*entry
	next    int
}

var envSeq int

func newEnv() (*Env, error) {
	envSeq++
	std, err := svc.BuildStd(fmt.Sprintf("vf.px%d", envSeq), fmt.Sprintf("vf/px%d.proto", envSeq), "/v1")
	if err != nil {
		return nil, err
	}
	e := &Env{Std: std, scripts: map[string]*entry{}, sides: map[string]*side{}}
	e.impl = vschema.FuncImpl{U: e.unary, S: e.stream}
	// the same handler on a real grpc.Server, reached through RegisterConn
	if e.be, err = backend.Start("proto-be", true, backend.Svc{SD: std.SD, Impl: e.impl}); err != nil {
		return nil, fmt.Errorf("back-end: %w", err)
	}
	e.H1 = wire.H1Client()
	e.H2 = wire.H2CClient()
	for _, target := range []string{"", "proxy"} {
		if err := e.use(target, ""); err != nil {
			e.Close()
			return nil, err
		}
	}
	return e, e.use("", "")
}

func muxOptions(opt string) ([]larking.MuxOption, error) {
	switch opt {
	case "":
		return nil, nil
	case "send64":
		return []larking.MuxOption{larking.MaxSendMessageSizeOption(64)}, nil
	case "send256":
		return []larking.MuxOption{larking.MaxSendMessageSizeOption(256)}, nil
	case "recv64":
		return []larking.MuxOption{larking.MaxReceiveMessageSizeOption(64)}, nil
	case "conn100ms":
		return []larking.MuxOption{larking.ConnectionTimeoutOption(100 * time.Millisecond)}, nil
	}
	return nil, fmt.Errorf("unknown mux option set %q", opt)
}

// noopStats is a stats handler that does nothing.
type noopStats struct{}

func (noopStats) TagRPC(ctx context.Context, _ *stats.RPCTagInfo) context.Context   { return ctx }
func (noopStats) HandleRPC(context.Context, stats.RPCStats)                         {}
func (noopStats) TagConn(ctx context.Context, _ *stats.ConnTagInfo) context.Context { return ctx }
func (noopStats) HandleConn(context.Context, stats.ConnStats)                       {}

// observerOptions are mux options that must not change what a handler sees:
// a no-op stats handler ("stats"), pass-through interceptors that record the
// metadata they see ("icept"), or both ("stats+icept").
func (e *Env) observerOptions(opt string) []larking.MuxOption {
	var out []larking.MuxOption
	if strings.Contains(opt, "stats") {
		out = append(out, larking.StatsOption(noopStats{}))
	}
	if strings.Contains(opt, "icept") {
		out = append(out,
			larking.UnaryServerInterceptorOption(func(ctx context.Context, req interface{}, _ *grpc.UnaryServerInfo, h grpc.UnaryHandler) (interface{}, error) {
				if m, ok := req.(proto.Message); ok {
					md, _ := metadata.FromIncomingContext(ctx)
					e.record(chunkID(m), func(r *Rec) { r.IMD = md.Copy(); r.ISeen = true })
				}
				return h(ctx, req)
			}),
			larking.StreamServerInterceptorOption(func(srv interface{}, ss grpc.ServerStream, _ *grpc.StreamServerInfo, h grpc.StreamHandler) error {
				return h(srv, ss)
			}))
	}
	return out
}

// makeSide builds the mux for a target with the given options, its server
// and its grpc-go client.
func (e *Env) makeSide(target, opt string) (*side, error) {
	var opts []larking.MuxOption
	var err error
	if strings.HasPrefix(opt, "stats") || strings.HasPrefix(opt, "icept") {
		opts = e.observerOptions(opt)
	} else if opts, err = muxOptions(opt); err != nil {
		return nil, err
	}
	var mux *larking.Mux
	if target == "proxy" {
		if mux, err = larking.NewMux(opts...); err != nil {
			return nil, err
		}
		ctx, cancel := context.WithTimeout(context.Background(), 20*time.Second)
		defer cancel()
		if err := mux.RegisterConn(ctx, e.be.CC); err != nil {
			return nil, fmt.Errorf("RegisterConn: %w", err)
		}
	} else if mux, err = e.Std.NewMux(e.impl, opts...); err != nil {
		return nil, err
	}
	return newSide(mux)
}

func newSide(mux *larking.Mux) (*side, error) {
	srv, err := wire.StartLarking(mux, nil)
	if err != nil {
		return nil, err
	}
	cc, err := wire.Dial(srv.Addr, grpc.WithDefaultCallOptions(grpc.MaxCallRecvMsgSize(64<<20)))
	if err != nil {
		srv.Close()
		return nil, err
	}
	return &side{Mux: mux, Srv: srv, CC: cc}, nil
}

// use selects the target (and mux options) of the next case.
func (e *Env) use(target, opt string) error {
	key := target + "|" + opt
	sd := e.sides[key]
	if sd == nil {
		var err error
		if sd, err = e.makeSide(target, opt); err != nil {
			return err
		}
		e.sides[key] = sd
	}
	e.cur = sd
	e.Mux, e.Srv, e.CC = sd.Mux, sd.Srv, sd.CC
	return nil
}

func (e *Env) Close() {
	for _, sd := range e.sides {
		sd.CC.Close()
		sd.Srv.Close()
	}
	if e.be != nil {
		e.be.Close()
	}
	if e.H1 != nil {
		e.H1.CloseIdleConnections()
	}
	if e.H2 != nil {
		e.H2.CloseIdleConnections()
	}
}

func (e *Env) register(sc *Script) string {
	e.mu.Lock()
	defer e.mu.Unlock()
	e.next++
	id := "s" + strconv.Itoa(e.next)
	e.scripts[id] = &entry{sc: sc}
	return id
}

func (e *Env) take(id string) Rec {
	e.mu.Lock()
	defer e.mu.Unlock()
	en := e.scripts[id]
	delete(e.scripts, id)
	if en == nil {
		return Rec{}
	}
	return en.rec
}

func (e *Env) lookup(id string) *Script {
	e.mu.Lock()
	defer e.mu.Unlock()
	if en := e.scripts[id]; en != nil {
		return en.sc
	}
	return nil
}

func (e *Env) record(id string, f func(*Rec)) {
	e.mu.Lock()
	defer e.mu.Unlock()
	if en := e.scripts[id]; en != nil {
		f(&en.rec)
	}
}

// newPanics returns the panics the real server logged since the last call.
func (e *Env) newPanics() []*mon.PanicInfo {
	log := e.Srv.ErrLog()
	e.mu.Lock()
	off := e.cur.logOff
	e.cur.logOff = len(log)
	e.mu.Unlock()
	if off >= len(log) {
		return nil
	}
	return parsePanics(log[off:])
}

var rePanicServing = regexp.MustCompile(`(?m)^http2?: panic serving [^ ]+: (.*)$`)

// parsePanics extracts "panic serving" records of a net/http error log: the
// panic value and the first larking frame of the stack that follows.
func parsePanics(log string) []*mon.PanicInfo {
	var out []*mon.PanicInfo
	locs := rePanicServing.FindAllStringSubmatchIndex(log, -1)
	for i, loc := range locs {
		end := len(log)
		if i+1 < len(locs) {
			end = locs[i+1][0]
		}
		val := log[loc[2]:loc[3]]
		stack := log[loc[1]:end]
		frame := ""
		afterPanic := false
		for _, ln := range strings.Split(stack, "\n") {
			if strings.HasPrefix(ln, "panic(") {
				afterPanic = true
				continue
			}
			if afterPanic && strings.HasPrefix(ln, "larking.io/") {
				fn := strings.TrimPrefix(ln, "larking.io/")
				if j := strings.LastIndex(fn, "("); j > 0 {
					fn = fn[:j]
				}
				frame = fn
				break
			}
		}
		if frame == "" {
			frame = "net/http"
		}
		if len(stack) > 6000 {
			stack = stack[:6000]
		}
		out = append(out, &mon.PanicInfo{Value: val, Frame: frame, Stack: stack})
	}
	return out
}

// ---------------------------------------------------------------- messages

func chunkDesc() protoreflect.MessageDescriptor { return vschema.Msg("vf.Chunk") }

func newChunk(id string, seq int32) proto.Message {
	m := vschema.NewMsg(chunkDesc())
	r := m.ProtoReflect()
	fs := r.Descriptor().Fields()
	if id != "" {
		r.Set(fs.ByName("id"), protoreflect.ValueOfString(id))
	}
	if seq != 0 {
		r.Set(fs.ByName("seq"), protoreflect.ValueOfInt32(seq))
	}
	return m
}

// padData is n bytes of compressible, non-constant data.
func padData(n int) []byte {
	b := make([]byte, n)
	for i := range b {
		b[i] = "larking verif pad "[i%18] + byte(i/977)
	}
	return b
}

// newChunkPad is newChunk with pad bytes of data.
func newChunkPad(id string, seq int32, pad int) proto.Message {
	m := newChunk(id, seq)
	if pad > 0 {
		r := m.ProtoReflect()
		r.Set(r.Descriptor().Fields().ByName("data"), protoreflect.ValueOfBytes(padData(pad)))
	}
	return m
}

// chunkID reads the script id from the request: Chunk.id, or Upload.name on
// the HttpBody upload route.
func chunkID(m proto.Message) string {
	r := m.ProtoReflect()
	for _, f := range []protoreflect.Name{"id", "name", "a"} {
		if fd := r.Descriptor().Fields().ByName(f); fd != nil {
			return r.Get(fd).String()
		}
	}
	return ""
}

// ----------------------------------------------------------------- handler

func (e *Env) headerOps(id string, sc *Script, set, send func(metadata.MD) error, trl func(metadata.MD) error) {
	noteErr := func(op string, err error) {
		if err != nil {
			e.record(id, func(r *Rec) { r.OpErrs = append(r.OpErrs, op+": "+err.Error()) })
		}
	}
	var hmd metadata.MD
	if len(sc.Hdr) > 0 {
		hmd = toMD(sc.Hdr)
		if sc.SendHdr {
			noteErr("SendHeader", send(hmd))
		} else {
			noteErr("SetHeader", set(hmd))
		}
		mutateMD(hmd, sc.Mutate)
	}
	if len(sc.Trl) > 0 {
		tmd := toMD(sc.Trl)
		if sc.Mutate == "reuse" && hmd != nil {
			// the same MD object serves for the trailer with other contents
			for k := range hmd {
				delete(hmd, k)
			}
			for k, v := range tmd {
				hmd[k] = v
			}
			tmd = hmd
		}
		noteErr("SetTrailer", trl(tmd))
		mutateMD(tmd, sc.Mutate)
	}
}

const dlContentType = "application/x-verif-download"

func dlPayload(i, n int) []byte {
	b := make([]byte, n)
	for j := range b {
		b[j] = byte(i*31 + j*7 + 1)
	}
	return b
}

// download is the HttpBody download handler: metadata calls before the writer
// is obtained / after it / between writes, then 0..n writes or messages.
func (e *Env) download(ss grpc.ServerStream, id string, sc *Script) error {
	ops := func() {
		e.headerOps(id, sc, ss.SetHeader, ss.SendHeader, func(m metadata.MD) error { ss.SetTrailer(m); return nil })
	}
	if sc.HdrAt == "" {
		ops()
	}
	var w io.Writer
	if sc.DL == "writer" {
		var err error
		if w, err = larking.AsHTTPBodyWriter(ss, &httpbody.HttpBody{ContentType: dlContentType}); err != nil {
			e.record(id, func(r *Rec) { r.OpErrs = append(r.OpErrs, "AsHTTPBodyWriter: "+err.Error()) })
			return status.Error(codes.FailedPrecondition, "harness: AsHTTPBodyWriter: "+err.Error())
		}
	}
	if sc.HdrAt == "after-writer" {
		ops()
	}
	for i, n := range sc.Chunks {
		var err error
		if w != nil {
			_, err = w.Write(dlPayload(i, n))
		} else {
			err = ss.SendMsg(&httpbody.HttpBody{ContentType: dlContentType, Data: dlPayload(i, n)})
		}
		if err != nil {
			e.record(id, func(r *Rec) { r.OpErrs = append(r.OpErrs, "write: "+err.Error()) })
			break
		}
		e.record(id, func(r *Rec) { r.Sent++ })
		if i == 0 && sc.HdrAt == "between" {
			ops()
		}
	}
	if sc.Code != 0 {
		return statusOf(sc).Err()
	}
	return nil
}

// preOp is the metadata call a C05 handler makes right before it returns.
func preOp(sc *Script, set, send, trl func(metadata.MD) error) {
	switch sc.Pre {
	case "set":
		set(preMD()) //nolint
	case "send":
		send(preMD()) //nolint
	case "trl":
		trl(preMD()) //nolint
	}
}

func waitCtx(ctx context.Context) {
	select {
	case <-ctx.Done():
	case <-time.After(10 * time.Second):
	}
}

func (e *Env) unary(ctx context.Context, md protoreflect.MethodDescriptor, in proto.Message) (proto.Message, error) {
	id := chunkID(in)
	sc := e.lookup(id)
	if sc == nil {
		return nil, status.Error(codes.FailedPrecondition, "harness: unknown script id "+id)
	}
	inMD, _ := metadata.FromIncomingContext(ctx)
	e.record(id, func(r *Rec) { r.Ran = true; r.MD = inMD.Copy() })
	defer e.record(id, func(r *Rec) { r.Done = true })
	mdOps := func() {
		e.headerOps(id, sc,
			func(m metadata.MD) error { return grpc.SetHeader(ctx, m) },
			func(m metadata.MD) error { return grpc.SendHeader(ctx, m) },
			func(m metadata.MD) error { return grpc.SetTrailer(ctx, m) })
	}
	if !sc.MDAfterCtx {
		mdOps()
	}
	if sc.WaitCtx {
		waitCtx(ctx)
	}
	if sc.MDAfterCtx {
		mdOps()
	}
	if sc.PauseMs > 0 {
		time.Sleep(time.Duration(sc.PauseMs) * time.Millisecond)
	}
	preOp(sc,
		func(m metadata.MD) error { return grpc.SetHeader(ctx, m) },
		func(m metadata.MD) error { return grpc.SendHeader(ctx, m) },
		func(m metadata.MD) error { return grpc.SetTrailer(ctx, m) })
	if sc.Code != 0 {
		return nil, statusOf(sc).Err()
	}
	e.record(id, func(r *Rec) { r.Sent = 1 })
	if sc.DL != "" {
		var data []byte
		for i, n := range sc.Chunks {
			data = append(data, dlPayload(i, n)...)
		}
		return &httpbody.HttpBody{ContentType: dlContentType, Data: data}, nil
	}
	if md.Output().FullName() != chunkDesc().FullName() {
		return vschema.NewMsg(md.Output()), nil
	}
	return newChunkPad(id, 1, sc.Pad), nil
}

func (e *Env) stream(md protoreflect.MethodDescriptor, ss grpc.ServerStream) error {
	in := vschema.NewMsg(md.Input())
	if err := ss.RecvMsg(in); err != nil {
		return status.Error(codes.FailedPrecondition, "harness: first RecvMsg: "+err.Error())
	}
	id := chunkID(in)
	sc := e.lookup(id)
	if sc == nil {
		return status.Error(codes.FailedPrecondition, "harness: unknown script id "+id)
	}
	inMD, _ := metadata.FromIncomingContext(ss.Context())
	e.record(id, func(r *Rec) { r.Ran = true; r.MD = inMD.Copy() })
	defer e.record(id, func(r *Rec) { r.Done = true })
	if sc.DL != "" {
		return e.download(ss, id, sc)
	}
	mdOps := func() {
		e.headerOps(id, sc, ss.SetHeader, ss.SendHeader, func(m metadata.MD) error { ss.SetTrailer(m); return nil })
	}
	if !sc.MDAfterCtx {
		mdOps()
	}
	for i := 0; i < sc.Replies; i++ {
		if err := ss.SendMsg(newChunkPad(id, int32(i+1), sc.Pad)); err != nil {
			e.record(id, func(r *Rec) { r.OpErrs = append(r.OpErrs, "SendMsg: "+err.Error()) })
			break
		}
		e.record(id, func(r *Rec) { r.Sent++ })
		if i == 0 {
			if len(sc.HdrLate) > 0 {
				lmd := toMD(sc.HdrLate)
				err := ss.SetHeader(lmd)
				mutateMD(lmd, sc.Mutate)
				if err != nil {
					e.record(id, func(r *Rec) { r.OpErrs = append(r.OpErrs, "late SetHeader: "+err.Error()) })
				}
			}
			if len(sc.TrlLate) > 0 {
				lmd := toMD(sc.TrlLate)
				ss.SetTrailer(lmd)
				mutateMD(lmd, sc.Mutate)
			}
		}
	}
	if sc.WaitCtx {
		waitCtx(ss.Context())
	}
	if sc.MDAfterCtx {
		mdOps()
	}
	if sc.PauseMs > 0 {
		time.Sleep(time.Duration(sc.PauseMs) * time.Millisecond)
	}
	preOp(sc, ss.SetHeader, ss.SendHeader, func(m metadata.MD) error { ss.SetTrailer(m); return nil })
	if sc.Code != 0 {
		return statusOf(sc).Err()
	}
	return nil
}

// -------------------------------------------------------------- the case

// HdrSpec is one request header as put on the wire.
type HdrSpec struct {
	Name   string   `json:"name"`             // as sent (mixed case)
	Vals   [][]byte `json:"vals"`             // logical values (raw bytes for -bin)
	Padded bool     `json:"padded,omitempty"` // -bin only: send padded base64
	Pads   []bool   `json:"pads,omitempty"`   // -bin only: per-value spelling (overrides Padded for value i)
}

func (h HdrSpec) padded(i int) bool {
	if i < len(h.Pads) {
		return h.Pads[i]
	}
	return h.Padded
}

func (h HdrSpec) bin() bool { return strings.HasSuffix(strings.ToLower(h.Name), "-bin") }

func (h HdrSpec) wire() []string {
	var out []string
	for i, v := range h.Vals {
		switch {
		case !h.bin():
			out = append(out, string(v))
		case h.padded(i):
			out = append(out, base64.StdEncoding.EncodeToString(v))
		default:
			out = append(out, base64.RawStdEncoding.EncodeToString(v))
		}
	}
	return out
}

// Case is one fully materialised execution (also the replay format).
type Case struct {
	Kind   string    `json:"kind"`   // C05 | C05ctx | C14in | C14out
	Proto  string    `json:"proto"`  // http http-sock twirp twirp-sock grpc grpc-raw grpc-h2c grpcweb grpcweb-text grpcweb-sock grpcweb-text-sock ws
	Codec  string    `json:"codec"`  // json | proto
	Method string    `json:"method"` // Echo | SS | Bidi
	Script Script    `json:"script"`
	ReqHdr []HdrSpec `json:"req_hdr,omitempty"`
	Class  string    `json:"class,omitempty"` // generator's input class (part of finding keys)
	// Hop are hop-by-hop (connection-specific) request headers of an HTTP/1
	// front, sent in addition to ReqHdr: they must not become metadata.
	Hop [][2]string `json:"hop,omitempty"`
	// HTTP-shape dimension (Kind "C05http"): Route is "get" (GET binding, no
	// body: the handler is reached whatever the Content-Type), "upload"
	// (HttpBody route, any media type), "post" (JSON body under the given
	// Content-Type), or a request no route matches: "404", "405", "deep-path",
	// "no-method". ReqCT / Accept are the header values ("-" = header absent).
	Route  string `json:"route,omitempty"`
	ReqCT  string `json:"req_ct,omitempty"`
	Accept string `json:"accept,omitempty"`
	// AcceptEnc: Accept-Encoding request header of HTTP / Twirp cases ("" = absent).
	AcceptEnc string `json:"accept_enc,omitempty"`
	// WSCtl: control frames the WebSocket client sends: "" none | "ping-before"
	// | "pong-before" | "ping-after" | "pong-after" | "ping-both" (before and
	// after its data frame).
	WSCtl string `json:"ws_ctl,omitempty"`
	// PreCT (in-process HTTP shape cases): the request is preceded, on the
	// SAME fresh mux, by a successful request of another client with the same
	// Accept value and this Content-Type; the response is compared with the
	// one a second fresh mux gives to the request alone.
	PreCT string `json:"pre_ct,omitempty"`
	// Opt selects mux options: "" defaults | "send64" | "send256"
	// (MaxSendMessageSizeOption) | "recv64" (MaxReceiveMessageSizeOption).
	Opt string `json:"opt,omitempty"`
	// Hold: the (client- or bidi-streaming) client does not half-close; it
	// keeps its send side open until it has received the status.
	Hold bool `json:"hold,omitempty"`
	// Gzip: request messages are compressed with grpc-encoding gzip (the mux
	// then compresses the replies as well).
	Gzip bool `json:"gzip,omitempty"`
	// Target: "" = the handler is registered on the mux; "proxy" = it runs on a
	// real grpc.Server that the mux reaches through RegisterConn.
	Target string `json:"target,omitempty"`
	// After (C05): the kind of traffic the same server process (same mux, same
	// target) serves, concurrently, right before this case: "" none |
	// "failed-calls" | "large-messages" | "ws-streams" | "http-gzip" |
	// "gzip-grpcweb" | "gzip-grpc" | "mixed" (see historyCalls). Whatever a
	// server has served before, the client of this case observes the status its
	// handler returned.
	After string `json:"after,omitempty"`
}

func (c *Case) streaming() bool { return c.Method != "Echo" }

func (c *Case) realSocket() bool {
	return strings.HasSuffix(c.Proto, "-sock") || c.Proto == "grpc" || c.Proto == "ws" || c.Proto == "grpc-h2c"
}

// Obs is what the client of one protocol observed.
type Obs struct {
	Err     string // no usable response: transport error text
	Timeout bool
	Panics  []*mon.PanicInfo
	Wedged  bool
	Dump    string

	HTTP int
	Hdr  http.Header
	Trl  http.Header
	Body []byte

	// status channel (gRPC family)
	HasStatus    bool
	CodeText     string // decimal text as on the wire (raw clients)
	Code         uint64
	Msg          string
	DetBin       string      // raw grpc-status-details-bin ("" if absent)
	Details      *spb.Status // decoded by grpc-go (grpc) or from DetBin
	DetErr       string
	Replies      int
	TrailersOnly bool
	WebErr       string   // framing problem of a gRPC-web body
	WebKeys      []string // keys of the gRPC-web trailer frame as sent ("?malformed" for a line without colon)
	SeqDiff      string   // the response differs from the one the same request gets on a fresh mux
	EncErr       string   // the body does not decode per the response Content-Encoding
	Stuck        string   // a watchdog fired while the request was inside larking: goroutine excerpt
	CompFrames   int      // reply frames that arrived with the compressed flag (raw clients)
	Hist         *HistObs // what the clients of the preceding traffic (Case.After) observed
	// client-visible metadata, lower-cased keys; -bin values still encoded
	// for raw clients, decoded for grpc-go (BinDecoded)
	MDHdr      map[string][]string
	MDTrl      map[string][]string
	BinDecoded bool

	// WebSocket
	WSClose      bool
	WSFin        bool
	WSRsv        byte
	WSMasked     bool
	WSPayloadLen int64
	WSCode       int
	WSReason     []byte
	WSNoBody     bool
}

// jsonCodec lets the grpc-go client speak application/grpc+json.
type jsonCodec struct{}

func (jsonCodec) Name() string { return "json" }
func (jsonCodec) Marshal(v any) ([]byte, error) {
	return protojson.Marshal(v.(proto.Message))
}
func (jsonCodec) Unmarshal(b []byte, v any) error {
	return protojson.Unmarshal(b, v.(proto.Message))
}

var _ encoding.Codec = jsonCodec{}

func lowerHeader(h http.Header) map[string][]string {
	out := map[string][]string{}
	for k, v := range h {
		lk := strings.ToLower(k)
		out[lk] = append(out[lk], v...)
	}
	return out
}

func isTimeout(err error) bool {
	var ne net.Error
	if errors.As(err, &ne) && ne.Timeout() {
		return true
	}
	return errors.Is(err, context.DeadlineExceeded) || errors.Is(err, os.ErrDeadlineExceeded)
}

const sockTimeout = 30 * time.Second

func (c *Case) reqBody(id string) ([]byte, string) {
	m := newChunkPad(id, 0, c.Script.Pad)
	if c.Codec == "json" {
		b, _ := protojson.Marshal(m)
		return b, "application/json"
	}
	b, _ := proto.Marshal(m)
	return b, "application/protobuf"
}

func (c *Case) reqHeaders(h http.Header, canonical bool) {
	for _, hs := range c.ReqHdr {
		k := hs.Name
		if canonical {
			k = http.CanonicalHeaderKey(k)
		}
		h[k] = append(h[k], hs.wire()...)
	}
	for _, hv := range c.Hop {
		h[hv[0]] = append(h[hv[0]], hv[1])
	}
}

// do sends the request of the case with the client of its protocol. It only
// reads the environment: several calls may run at the same time.
func (e *Env) do(c *Case, id string) *Obs {
	var o *Obs
	switch c.Proto {
	case "http", "twirp":
		if c.Route != "" {
			o = e.doHTTPShape(c, id, false)
		} else {
			o = e.doHTTPInproc(c, id)
		}
	case "http-sock", "twirp-sock":
		if c.Route != "" {
			o = e.doHTTPShape(c, id, true)
		} else {
			o = e.doHTTPSock(c, id)
		}
	case "grpc":
		o = e.doGRPC(c, id)
	case "grpc-raw":
		o = e.doGRPCRaw(c, id)
	case "grpc-h2c":
		o = e.doGRPCH2C(c, id)
	case "grpcweb", "grpcweb-text":
		o = e.doWebInproc(c, id)
	case "grpcweb-sock", "grpcweb-text-sock":
		o = e.doWebSock(c, id)
	case "ws":
		o = e.doWS(c, id)
	default:
		o = &Obs{Err: "unknown protocol " + c.Proto}
	}
	return o
}

// run executes the case and returns the client observation and the handler
// record.
func (e *Env) run(c *Case) (*Obs, Rec) {
	if err := e.use(c.Target, c.Opt); err != nil {
		return &Obs{Err: "environment: " + err.Error(), Timeout: true}, Rec{}
	}
	var hist *HistObs
	if c.After != "" {
		hist = e.history(c)
	}
	sc := c.Script
	id := e.register(&sc)
	o := e.do(c, id)
	o.Hist = hist
	if (strings.HasPrefix(c.Proto, "http") || strings.HasPrefix(c.Proto, "twirp")) && o.Hdr != nil {
		// the client decodes the body per the response's Content-Encoding
		switch ce := strings.ToLower(strings.TrimSpace(o.Hdr.Get("Content-Encoding"))); ce {
		case "", "identity":
		case "gzip":
			if b, err := wire.Gunzip(o.Body); err != nil {
				o.EncErr = fmt.Sprintf("Content-Encoding gzip, but the %d-byte body does not decompress: %v", len(o.Body), err)
			} else {
				o.Body = b
			}
		default:
			o.EncErr = "unknown Content-Encoding " + strconv.QuoteToASCII(ce)
		}
	}
	if c.realSocket() {
		normal := o.Err == ""
		switch c.Proto {
		case "grpc":
			normal = normal && o.Code == uint64(c.Script.Code)
		case "ws":
			normal = normal && o.WSClose
		case "grpc-h2c":
			normal = normal && o.HasStatus
		}
		o.Panics = append(o.Panics, e.newPanics()...)
		if !normal {
			// the server logs the panic after it reset the stream: give it a moment
			for i := 0; i < 40 && len(o.Panics) == 0; i++ {
				time.Sleep(2 * time.Millisecond)
				o.Panics = append(o.Panics, e.newPanics()...)
			}
		}
	}
	return o, e.take(id)
}

// ------------------------------------------------------------ HTTP / Twirp

func (c *Case) httpTarget(e *Env) (path string) {
	if strings.HasPrefix(c.Proto, "twirp") {
		return e.Std.Full(c.Method)
	}
	switch c.Method {
	case "SS":
		return "/v1/ss"
	case "Bidi":
		return "/v1/bidi"
	}
	return "/v1/echo"
}

func (c *Case) httpHeader(ct string) http.Header {
	h := http.Header{"Content-Type": {ct}, "Accept": {ct}}
	if strings.HasPrefix(c.Proto, "twirp") {
		h = http.Header{"Content-Type": {ct}, "Twirp-Version": {"v8.1.3"}}
	}
	if c.AcceptEnc != "" {
		h.Set("Accept-Encoding", c.AcceptEnc)
	}
	if c.Route == "" && c.Accept == "-" {
		h.Del("Accept")
	} else if c.Route == "" && c.Accept != "" {
		h.Set("Accept", c.Accept)
	}
	return h
}

func fromResp(r *wire.Resp) *Obs {
	o := &Obs{HTTP: r.Code, Hdr: r.Header, Trl: r.Trailer, Body: r.Body, Wedged: r.Wedged, Dump: r.Dump}
	if r.Panic != nil {
		o.Panics = append(o.Panics, r.Panic)
	}
	if r.Wedged {
		o.Err = "in-process request did not return within the watchdog"
	}
	o.MDHdr = lowerHeader(r.Header)
	o.MDTrl = lowerHeader(r.Trailer)
	return o
}

// httpGzipBody: HTTP cases with Gzip send their body with Content-Encoding
// gzip.
func (c *Case) httpGzipBody(h http.Header, body []byte) []byte {
	if !c.Gzip {
		return body
	}
	h.Set("Content-Encoding", "gzip")
	return wire.Gzip(body)
}

func (e *Env) doHTTPInproc(c *Case, id string) *Obs {
	body, ct := c.reqBody(id)
	h := c.httpHeader(ct)
	body = c.httpGzipBody(h, body)
	c.reqHeaders(h, true)
	r := wire.Serve(e.Mux, wire.BodyRequest("POST", c.httpTarget(e), "", h, body))
	return fromResp(r)
}

func (e *Env) sockDo(cl *http.Client, path string, h http.Header, body []byte) *Obs {
	return e.sockDoBody(cl, path, h, bytes.NewReader(body), sockTimeout)
}

// sameBody compares two response bodies as messages (the encoders are not
// byte-deterministic): google.rpc.Status for error statuses, the reply type
// otherwise; bytes when they do not decode.
func sameBody(a, b *Obs) bool {
	dec := func(o *Obs) proto.Message {
		var m proto.Message = vschema.NewMsg(chunkDesc())
		if o.HTTP >= 400 {
			m = &spb.Status{}
		}
		var err error
		switch strings.TrimSpace(strings.SplitN(o.Hdr.Get("Content-Type"), ";", 2)[0]) {
		case "application/json":
			err = protojson.Unmarshal(o.Body, m)
		case "application/protobuf", "application/octet-stream":
			err = proto.Unmarshal(o.Body, m)
		default:
			return nil
		}
		if err != nil {
			return nil
		}
		return m
	}
	ma, mb := dec(a), dec(b)
	if ma == nil || mb == nil {
		return bytes.Equal(a.Body, b.Body)
	}
	return proto.Equal(ma, mb)
}

// bodyFor encodes the request message for a registered media type (nil for
// any other type).
func bodyFor(ct, id string) []byte {
	switch strings.ToLower(strings.TrimSpace(strings.SplitN(ct, ";", 2)[0])) {
	case "application/json":
		b, _ := protojson.Marshal(newChunk(id, 0))
		return b
	case "application/protobuf", "application/octet-stream":
		b, _ := proto.Marshal(newChunk(id, 0))
		return b
	}
	b, _ := protojson.Marshal(newChunk(id, 0))
	if ct == "" || ct == "-" {
		return b
	}
	return nil
}

// doHTTPShape sends the request of the HTTP-shape dimension: method, path,
// Content-Type and Accept as the case says.
func (e *Env) doHTTPShape(c *Case, id string, sock bool) *Obs {
	method, path := "POST", "/v1/echo"
	var body []byte
	switch c.Route {
	case "get":
		method, path = "GET", "/v1/echo/"+id
		if c.Method == "SS" {
			path = "/v1/ss/" + id
		}
	case "upload":
		path, body = "/v1/uploadu/"+id, []byte("\x89PNG\r\n\x1a\n not really")
	case "post":
		if body = bodyFor(c.ReqCT, id); body == nil {
			body, _ = protojson.Marshal(newChunk(id, 0))
		}
	case "404":
		method, path = "GET", "/v1/no-such-route/"+id
	case "405":
		method, path = "DELETE", "/v1/echo"
	case "deep-path":
		method, path = "GET", "/v1/echo/"+id+"/a/b/c"
	case "no-method":
		path, body = "/"+e.Std.Pkg+".Std/NoSuchMethod", []byte("{}")
	case "download":
		method, path = "GET", "/v1/download/"+id
	case "downloadu":
		method, path = "GET", "/v1/downloadu/"+id
	}
	h := http.Header{}
	if c.ReqCT != "-" {
		h["Content-Type"] = []string{c.ReqCT}
	}
	if c.Accept != "-" {
		h["Accept"] = []string{c.Accept}
	}
	if !sock {
		mk := func() *http.Request {
			hc := h.Clone()
			if body == nil {
				return wire.BodyRequest(method, path, "", hc, nil)
			}
			return wire.BodyRequest(method, path, "", hc, body)
		}
		if c.PreCT == "" {
			return fromResp(wire.Serve(e.Mux, mk()))
		}
		// sequence: the same request alone on a fresh mux, and after another
		// client's request on a second fresh mux
		ref, err1 := e.Std.NewMux(e.impl)
		seq, err2 := e.Std.NewMux(e.impl)
		if err1 != nil || err2 != nil {
			return &Obs{Err: fmt.Sprintf("environment: fresh mux: %v %v", err1, err2), Timeout: true}
		}
		oref := fromResp(wire.Serve(ref, mk()))
		psc := Script{Replies: 1}
		pid := e.register(&psc)
		ph := http.Header{"Content-Type": {c.PreCT}}
		if c.Accept != "-" {
			ph["Accept"] = []string{c.Accept}
		}
		ppath, pbody := "/v1/echo", bodyFor(c.PreCT, pid)
		if pbody == nil {
			ppath, pbody = "/v1/uploadu/"+pid, []byte("prelude upload")
		}
		pre := wire.Serve(seq, wire.BodyRequest("POST", ppath, "", ph, pbody))
		e.take(pid)
		o := fromResp(wire.Serve(seq, mk()))
		o.Panics = append(o.Panics, oref.Panics...)
		if pre.Panic != nil {
			o.Panics = append(o.Panics, pre.Panic)
		}
		if oref.HTTP != o.HTTP || oref.Hdr.Get("Content-Type") != o.Hdr.Get("Content-Type") || !sameBody(oref, o) {
			o.SeqDiff = fmt.Sprintf("alone: HTTP %d, Content-Type %q, %d body bytes %q; after a %q request with the same Accept: HTTP %d, Content-Type %q, %d body bytes %q",
				oref.HTTP, oref.Hdr.Get("Content-Type"), len(oref.Body), clip(string(oref.Body), 60), c.PreCT, o.HTTP, o.Hdr.Get("Content-Type"), len(o.Body), clip(string(o.Body), 60))
		}
		return o
	}
	ctx, cancel := context.WithTimeout(context.Background(), sockTimeout)
	defer cancel()
	var rd io.Reader
	if body != nil {
		rd = bytes.NewReader(body)
	}
	req, err := http.NewRequestWithContext(ctx, method, e.Srv.URL+path, rd)
	if err != nil {
		return &Obs{Err: "request: " + err.Error()}
	}
	req.Header = h
	resp, err := e.H1.Do(req)
	if err != nil {
		return &Obs{Err: "transport: " + err.Error(), Timeout: isTimeout(err)}
	}
	defer resp.Body.Close()
	b, rerr := io.ReadAll(resp.Body)
	o := &Obs{HTTP: resp.StatusCode, Hdr: resp.Header, Trl: resp.Trailer, Body: b}
	if rerr != nil {
		o.Err = "reading body: " + rerr.Error()
		o.Timeout = isTimeout(rerr)
	}
	o.MDHdr = lowerHeader(resp.Header)
	o.MDTrl = lowerHeader(resp.Trailer)
	return o
}

// holdTimeout is the watchdog of calls whose client keeps its send side open
// until the status arrives (observed: well under a millisecond).
const holdTimeout = 10 * time.Second

// holdWatch is the watchdog of a call whose client keeps its send side open:
// when it fires it records whether the request is still inside larking (the
// dump must be taken before the client gives up, which unblocks the server).
type holdWatch struct {
	mu    sync.Mutex
	fired bool
	dump  string
	t     *time.Timer
}

func startHoldWatch(onFire func()) *holdWatch {
	w := &holdWatch{}
	w.t = time.AfterFunc(holdTimeout, func() {
		d := stuckInLarking()
		w.mu.Lock()
		w.fired, w.dump = true, d
		w.mu.Unlock()
		if onFire != nil {
			onFire()
		}
	})
	return w
}

func (w *holdWatch) stop() (bool, string) {
	w.t.Stop()
	w.mu.Lock()
	defer w.mu.Unlock()
	return w.fired, w.dump
}

// stuckInLarking returns an excerpt of the goroutine dump when a request is
// still inside the mux's gRPC serving code ("" otherwise).
func stuckInLarking() string {
	buf := make([]byte, 4<<20)
	buf = buf[:runtime.Stack(buf, true)]
	for _, g := range strings.Split(string(buf), "\n\n") {
		if strings.Contains(g, "larking.(*Mux).serveGRPC") {
			if len(g) > 3000 {
				g = g[:3000]
			}
			return g
		}
	}
	return ""
}

func (e *Env) sockDoBody(cl *http.Client, path string, h http.Header, body io.Reader, timeout time.Duration) *Obs {
	ctx, cancel := context.WithTimeout(context.Background(), timeout)
	defer cancel()
	req, err := http.NewRequestWithContext(ctx, "POST", e.Srv.URL+path, body)
	if err != nil {
		return &Obs{Err: "request: " + err.Error()}
	}
	req.Header = h
	resp, err := cl.Do(req)
	if err != nil {
		return &Obs{Err: "transport: " + err.Error(), Timeout: isTimeout(err)}
	}
	defer resp.Body.Close()
	b, rerr := io.ReadAll(resp.Body)
	o := &Obs{HTTP: resp.StatusCode, Hdr: resp.Header, Trl: resp.Trailer, Body: b}
	if rerr != nil {
		o.Err = "reading body: " + rerr.Error()
		o.Timeout = isTimeout(rerr)
	}
	o.MDHdr = lowerHeader(resp.Header)
	o.MDTrl = lowerHeader(resp.Trailer)
	return o
}

func (e *Env) doHTTPSock(c *Case, id string) *Obs {
	body, ct := c.reqBody(id)
	h := c.httpHeader(ct)
	body = c.httpGzipBody(h, body)
	c.reqHeaders(h, false)
	return e.sockDo(e.H1, c.httpTarget(e), h, body)
}

// ------------------------------------------------------------------- gRPC

func (o *Obs) setStatusText(code, msg, det string) {
	o.HasStatus = true
	o.CodeText = code
	n, err := strconv.ParseUint(code, 10, 64)
	if err != nil {
		o.DetErr = "grpc-status is not a decimal number: " + strconv.QuoteToASCII(code)
		o.Code = 1 << 62
	} else {
		o.Code = n
	}
	o.Msg = wire.DecodeGrpcMessage(msg)
	o.DetBin = det
	if det != "" {
		b, err := wire.DecodeBin(det)
		if err != nil {
			o.DetErr = "grpc-status-details-bin is not base64: " + err.Error()
			return
		}
		st := &spb.Status{}
		if err := proto.Unmarshal(b, st); err != nil {
			o.DetErr = "grpc-status-details-bin is not a google.rpc.Status: " + err.Error()
			return
		}
		o.Details = st
	}
}

func (o *Obs) countCompressed(frames []wire.GFrame) {
	for _, f := range frames {
		if f.Compressed() {
			o.CompFrames++
		}
	}
}

func (e *Env) doGRPC(c *Case, id string) *Obs {
	timeout := sockTimeout
	var hw *holdWatch
	if c.Hold {
		timeout = holdTimeout + 2*time.Second
		hw = startHoldWatch(nil)
		defer hw.stop()
	}
	ctx, cancel := context.WithTimeout(context.Background(), timeout)
	defer cancel()
	if len(c.ReqHdr) > 0 {
		md := metadata.MD{}
		for _, hs := range c.ReqHdr {
			for _, v := range hs.Vals {
				md.Append(hs.Name, string(v))
			}
		}
		ctx = metadata.NewOutgoingContext(ctx, md)
	}
	var opts []grpc.CallOption
	if c.Codec == "json" {
		opts = append(opts, grpc.ForceCodec(jsonCodec{})) // per call, nothing registered globally
	}
	if c.Gzip {
		opts = append(opts, grpc.UseCompressor("gzip"))
	}
	o := &Obs{BinDecoded: true}
	var hmd, tmd metadata.MD
	var err error
	full := e.Std.Full(c.Method)
	if c.Method == "Echo" {
		out := vschema.NewMsg(chunkDesc())
		err = e.CC.Invoke(ctx, full, newChunkPad(id, 0, c.Script.Pad), out, append(opts, grpc.Header(&hmd), grpc.Trailer(&tmd))...)
		if err == nil {
			o.Replies = 1
		}
	} else {
		md := e.Std.MD(c.Method)
		var st grpc.ClientStream
		st, err = e.CC.NewStream(ctx, &grpc.StreamDesc{ClientStreams: md.IsStreamingClient(), ServerStreams: md.IsStreamingServer()}, full, opts...)
		if err == nil {
			if err = st.SendMsg(newChunkPad(id, 0, c.Script.Pad)); err == nil || err == io.EOF {
				if !c.Hold {
					st.CloseSend()
				}
				for {
					m := vschema.NewMsg(chunkDesc())
					if err = st.RecvMsg(m); err != nil {
						break
					}
					o.Replies++
				}
			}
			hmd, _ = st.Header()
			tmd = st.Trailer()
			if err == io.EOF {
				err = nil
			}
		}
	}
	o.MDHdr, o.MDTrl = hmd, tmd
	if o.MDHdr == nil {
		o.MDHdr = map[string][]string{}
	}
	if o.MDTrl == nil {
		o.MDTrl = map[string][]string{}
	}
	st := status.Convert(err)
	o.HasStatus = true
	o.Code = uint64(uint32(st.Code()))
	o.Msg = st.Message()
	o.Details = st.Proto()
	if err != nil && ctx.Err() != nil {
		o.Timeout = true
		if hw != nil {
			_, o.Stuck = hw.stop()
		}
	}
	return o
}

func (c *Case) grpcCT(base string) string {
	if c.Codec == "json" {
		return base + "+json"
	}
	return base
}

func (c *Case) grpcBody(id string) []byte {
	var b []byte
	if c.Codec == "json" {
		b, _ = protojson.Marshal(newChunkPad(id, 0, c.Script.Pad))
	} else {
		b, _ = proto.Marshal(newChunkPad(id, 0, c.Script.Pad))
	}
	if c.Gzip {
		return wire.Frame(wire.Gzip(b), true)
	}
	return wire.Frame(b, false)
}

func (c *Case) grpcHeaders(h http.Header) {
	if c.Gzip {
		h.Set("Grpc-Encoding", "gzip")
	}
}

func (e *Env) doGRPCRaw(c *Case, id string) *Obs {
	h := http.Header{"Content-Type": {c.grpcCT("application/grpc")}}
	c.reqHeaders(h, true)
	c.grpcHeaders(h)
	if c.Script.WaitCtx {
		h.Set("Grpc-Timeout", "20m")
	}
	r := wire.Serve(e.Mux, wire.GRPCRequest(e.Std.Full(c.Method), h, bytes.NewReader(c.grpcBody(id))))
	o := fromResp(r)
	frames, rest := wire.ParseFrames(r.Body)
	o.Replies = len(frames)
	o.countCompressed(frames)
	if len(rest) > 0 {
		o.WebErr = fmt.Sprintf("%d trailing bytes do not form a frame", len(rest))
	}
	if v := r.Trailer.Get("Grpc-Status"); v != "" {
		o.setStatusText(v, r.Trailer.Get("Grpc-Message"), r.Trailer.Get("Grpc-Status-Details-Bin"))
	} else if v := r.Header.Get("Grpc-Status"); v != "" {
		o.TrailersOnly = true
		o.setStatusText(v, r.Header.Get("Grpc-Message"), r.Header.Get("Grpc-Status-Details-Bin"))
		o.MDTrl = o.MDHdr
	}
	return o
}

func (e *Env) doGRPCH2C(c *Case, id string) *Obs {
	h := http.Header{"Content-Type": {c.grpcCT("application/grpc")}, "Te": {"trailers"}}
	c.reqHeaders(h, false)
	c.grpcHeaders(h)
	if c.Script.WaitCtx {
		h.Set("Grpc-Timeout", "20m")
	}
	var o *Obs
	if c.Hold {
		// the request body stays open until the whole response (status
		// included) has been read
		pr, pw := io.Pipe()
		go pw.Write(c.grpcBody(id)) //nolint
		// x/net's transport does not watch the request context while it is
		// blocked on the request body: the watchdog takes the goroutine dump
		// and then breaks the body
		hw := startHoldWatch(func() { pw.CloseWithError(context.DeadlineExceeded) })
		o = e.sockDoBody(e.H2, e.Std.Full(c.Method), h, pr, holdTimeout+5*time.Second)
		pw.Close()
		if fired, dump := hw.stop(); fired {
			o.Timeout = true
			o.Stuck = dump
			if o.Err == "" {
				o.Err = "no complete response while the request body was open"
			}
		}
	} else {
		o = e.sockDo(e.H2, e.Std.Full(c.Method), h, c.grpcBody(id))
	}
	if o.Hdr == nil {
		return o
	}
	frames, rest := wire.ParseFrames(o.Body)
	o.Replies = len(frames)
	o.countCompressed(frames)
	if len(rest) > 0 {
		o.WebErr = fmt.Sprintf("%d trailing bytes do not form a frame", len(rest))
	}
	if v := o.Trl.Get("Grpc-Status"); v != "" {
		o.setStatusText(v, o.Trl.Get("Grpc-Message"), o.Trl.Get("Grpc-Status-Details-Bin"))
	} else if v := o.Hdr.Get("Grpc-Status"); v != "" {
		o.TrailersOnly = true
		o.setStatusText(v, o.Hdr.Get("Grpc-Message"), o.Hdr.Get("Grpc-Status-Details-Bin"))
		o.MDTrl = o.MDHdr
	}
	return o
}

// --------------------------------------------------------------- gRPC-web

func (c *Case) webText() bool { return strings.HasPrefix(c.Proto, "grpcweb-text") }

func (o *Obs) decodeWeb(text bool) {
	if o.Hdr == nil {
		return
	}
	wr := wire.DecodeWeb(o.Body, text)
	o.Replies = len(wr.Msgs)
	for _, f := range wr.Flags {
		if f&0x01 != 0 {
			o.CompFrames++
		}
	}
	o.MDTrl = map[string][]string{} // HTTP-level trailers are invisible to a gRPC-web client
	if wr.DecodeErr != nil {
		o.WebErr = wr.DecodeErr.Error()
	} else if len(wr.Rest) > 0 {
		o.WebErr = fmt.Sprintf("%d trailing bytes do not form a complete frame", len(wr.Rest))
	}
	get := func(m map[string][]string, k string) string {
		if v := m[k]; len(v) > 0 {
			return v[0]
		}
		return ""
	}
	if wr.HasTrail {
		o.WebKeys = sortedKeys(wr.Trailer)
		o.MDTrl = wr.Trailer
		if v, ok := wr.Trailer["grpc-status"]; ok && len(v) > 0 {
			o.setStatusText(v[0], get(wr.Trailer, "grpc-message"), get(wr.Trailer, "grpc-status-details-bin"))
		}
		return
	}
	// Trailers-Only: status in the HTTP headers, only legal without a body
	if v := o.Hdr.Get("Grpc-Status"); v != "" && len(o.Body) == 0 {
		o.TrailersOnly = true
		o.MDTrl = o.MDHdr
		o.setStatusText(v, o.Hdr.Get("Grpc-Message"), o.Hdr.Get("Grpc-Status-Details-Bin"))
	}
}

func (e *Env) doWebInproc(c *Case, id string) *Obs {
	h := http.Header{}
	c.reqHeaders(h, true)
	c.grpcHeaders(h)
	if c.Script.WaitCtx {
		h.Set("Grpc-Timeout", "20m")
	}
	enc := ""
	if c.Codec == "json" {
		enc = "json"
	}
	r := wire.Serve(e.Mux, wire.WebRequest(e.Std.Full(c.Method), h, c.grpcBody(id), c.webText(), enc))
	o := fromResp(r)
	o.decodeWeb(c.webText())
	return o
}

func (e *Env) doWebSock(c *Case, id string) *Obs {
	ct := "application/grpc-web"
	body := c.grpcBody(id)
	if c.webText() {
		ct = "application/grpc-web-text"
		body = []byte(base64.StdEncoding.EncodeToString(body))
	}
	h := http.Header{"Content-Type": {c.grpcCT(ct)}}
	c.reqHeaders(h, false)
	c.grpcHeaders(h)
	if c.Script.WaitCtx {
		h.Set("Grpc-Timeout", "20m")
	}
	o := e.sockDo(e.H1, e.Std.Full(c.Method), h, body)
	o.decodeWeb(c.webText())
	return o
}

// -------------------------------------------------------------- WebSocket

func (e *Env) doWS(c *Case, id string) *Obs {
	o := &Obs{}
	ctx, cancel := context.WithTimeout(context.Background(), sockTimeout)
	defer cancel()
	var h http.Header
	if len(c.ReqHdr) > 0 {
		h = http.Header{}
		c.reqHeaders(h, false)
	}
	// wire.WSDial drains the frames gobwas may have read with the handshake
	conn, err := wire.WSDial(ctx, "ws://"+e.Srv.Addr+"/v1/ws/"+id, h)
	if err != nil {
		o.Err = "websocket dial: " + err.Error()
		o.Timeout = isTimeout(err)
		return o
	}
	defer conn.Close()
	conn.SetDeadline(time.Now().Add(sockTimeout))
	rd := bufio.NewReader(conn)
	ctl := func(when string) {
		if !strings.HasSuffix(c.WSCtl, when) && !strings.HasSuffix(c.WSCtl, "both") {
			return
		}
		f := ws.NewPingFrame([]byte("verif"))
		if strings.HasPrefix(c.WSCtl, "pong") {
			f = ws.NewPongFrame([]byte("unsolicited"))
		}
		conn.Write(ws.MustCompileFrame(ws.MaskFrame(f))) //nolint
	}
	ctl("before")
	if err := wsutil.WriteClientText(conn, []byte(`{}`)); err != nil {
		o.Err = "websocket write: " + err.Error()
		return o
	}
	ctl("after")
	o.HTTP = 101
	for {
		hd, err := ws.ReadHeader(rd)
		if err != nil {
			o.Err = "websocket read: " + err.Error()
			o.Timeout = isTimeout(err)
			return o
		}
		if hd.Length > 8<<20 {
			o.Err = fmt.Sprintf("websocket frame of %d bytes", hd.Length)
			return o
		}
		p := make([]byte, hd.Length)
		if _, err := io.ReadFull(rd, p); err != nil {
			o.Err = fmt.Sprintf("websocket read payload (%d bytes announced): %v", hd.Length, err)
			o.Timeout = isTimeout(err)
			return o
		}
		if hd.Masked {
			ws.Cipher(p, hd.Mask, 0)
		}
		switch hd.OpCode {
		case ws.OpText, ws.OpBinary:
			o.Replies++
		case ws.OpClose:
			o.WSClose = true
			o.WSFin = hd.Fin
			o.WSRsv = hd.Rsv
			o.WSMasked = hd.Masked
			o.WSPayloadLen = hd.Length
			if len(p) >= 2 {
				o.WSCode = int(p[0])<<8 | int(p[1])
				o.WSReason = p[2:]
			} else {
				o.WSNoBody = true
			}
			// answer the close handshake (best effort)
			conn.Write(ws.MustCompileFrame(ws.MaskFrame(ws.NewCloseFrame(nil))))
			return o
		}
	}
}

// ---------------------------------------------------------------- history

// HistObs is what the clients of the traffic that precedes a case observed.
type HistObs struct {
	Kind       string `json:"kind"`
	Calls      int    `json:"calls"`       // calls issued
	OK         int    `json:"ok"`          // calls whose client saw the scripted outcome
	Unexpected int    `json:"unexpected"`  // calls that ended otherwise (no verdict: not this case)
	CompFrames int    `json:"comp_frames"` // reply frames that arrived compressed (raw clients)
	Panics     int    `json:"panics"`      // server panics during the traffic (no verdict here)
}

// HistoryKinds are the kinds of earlier traffic of Case.After, lightest first.
var HistoryKinds = []string{"failed-calls", "large-messages", "ws-streams", "http-gzip", "gzip-grpcweb", "gzip-grpc", "mixed"}

const histEscaped = "earlier call: donn\u00e9es 100% perdues \u2713\n"

// historyCalls is the traffic of one kind: calls of other clients that the
// same mux serves at the same time right before a case. n selects among the
// variants of the kind (the generator passes a PRNG-determined number).
func historyCalls(kind, target string, n int) []*Case {
	mk := func(proto, codec, method string, replies int, gz bool, pad int) *Case {
		c := &Case{Kind: "C05hist", Proto: proto, Codec: codec, Method: method, Target: target, Gzip: gz, Class: "history-" + kind,
			Script: Script{Replies: replies, Pad: pad}}
		if method == "Echo" {
			c.Script.Replies = 1
		}
		return c
	}
	fail := func(proto, codec, method string, replies int, code uint32, long bool) *Case {
		c := mk(proto, codec, method, replies, false, 0)
		if method == "Echo" {
			c.Script.Replies = 0
		}
		c.Script.Code, c.Script.Details = code, true
		c.Script.Msg = histEscaped
		if long {
			c.Script.Msg = repeatTo(histEscaped, 2000)
		}
		c.Script.Msg = strings.TrimSpace(c.Script.Msg)
		return c
	}
	pads := []int{300, 1500, 9000}
	pad := pads[n%len(pads)]
	var all []*Case
	switch kind {
	case "gzip-grpc":
		all = []*Case{
			mk("grpc", "proto", "Echo", 1, true, pad), mk("grpc", "json", "SS", 2, true, pad), mk("grpc-raw", "proto", "Echo", 1, true, pad),
			mk("grpc-raw", "proto", "SS", 3, true, pad), mk("grpc-h2c", "proto", "SS", 1, true, pad), mk("grpc", "proto", "Bidi", 2, true, pad),
			mk("grpc-raw", "json", "Echo", 1, true, pad), mk("grpc", "proto", "Echo", 1, true, 40000),
		}
	case "gzip-grpcweb":
		all = []*Case{
			mk("grpcweb", "proto", "Echo", 1, true, pad), mk("grpcweb-text", "proto", "SS", 2, true, pad), mk("grpcweb", "json", "SS", 3, true, pad),
			mk("grpcweb-text", "json", "Echo", 1, true, pad), mk("grpcweb-sock", "proto", "SS", 1, true, pad), mk("grpcweb-text-sock", "proto", "Echo", 1, true, pad),
			mk("grpcweb", "proto", "SS", 1, true, 40000), mk("grpcweb-text", "proto", "Echo", 1, true, pad),
		}
	case "large-messages":
		big := 48 << 10
		all = []*Case{
			mk("grpc", "proto", "Echo", 1, false, big), mk("grpc-raw", "proto", "SS", 2, false, big), mk("grpcweb", "proto", "Echo", 1, false, big),
			mk("grpcweb-text", "proto", "SS", 1, false, big), mk("http", "json", "Echo", 1, false, big), mk("http", "proto", "SS", 2, false, big),
			mk("twirp", "json", "Echo", 1, false, big), mk("grpc-h2c", "proto", "Echo", 1, false, big),
		}
	case "http-gzip":
		all = []*Case{
			mk("http", "json", "Echo", 1, true, pad), mk("http", "proto", "Echo", 1, true, pad), mk("http", "json", "SS", 2, true, pad),
			mk("http-sock", "json", "Echo", 1, true, pad), mk("twirp", "json", "Echo", 1, true, pad), mk("http", "proto", "SS", 1, true, pad),
			mk("http-sock", "proto", "SS", 2, true, pad), mk("twirp", "proto", "Echo", 1, true, pad),
		}
		for _, c := range all {
			c.AcceptEnc = "gzip"
		}
	case "failed-calls":
		all = []*Case{
			fail("grpc", "proto", "Echo", 0, 13, true), fail("grpc-raw", "proto", "SS", 1, 5, false), fail("grpcweb", "proto", "Echo", 0, 9, true),
			fail("grpcweb-text", "json", "SS", 2, 13, false), fail("http", "json", "Echo", 0, 5, true), fail("http", "proto", "Echo", 0, 16, false),
			fail("twirp", "json", "Echo", 0, 13, true), fail("ws", "json", "Bidi", 1, 5, false),
		}
	case "ws-streams":
		all = []*Case{
			mk("ws", "json", "Bidi", 3, false, pad), mk("ws", "json", "Bidi", 1, false, pad), fail("ws", "json", "Bidi", 2, 13, true),
			mk("ws", "json", "Bidi", 2, false, 20000), fail("ws", "json", "Bidi", 0, 5, false), mk("ws", "json", "Bidi", 4, false, 0),
		}
	case "mixed":
		for i, k := range []string{"gzip-grpc", "gzip-grpcweb", "large-messages", "http-gzip", "failed-calls", "ws-streams"} {
			cs := historyCalls(k, target, n+i)
			all = append(all, cs[(n+i)%len(cs)], cs[(n+i+3)%len(cs)])
		}
	}
	for _, c := range all {
		c.Class = "history-" + kind
	}
	return all
}

// histOK: did the client of a history call see the scripted outcome?
func histOK(c *Case, o *Obs, rec Rec) bool {
	if o.Err != "" && c.Proto != "ws" || o.Timeout || o.Wedged || !rec.Ran {
		return false
	}
	sc := &c.Script
	switch {
	case c.Proto == "ws":
		return o.WSClose && (sc.Code != 0 || o.Replies == rec.Sent)
	case strings.HasPrefix(c.Proto, "http"), strings.HasPrefix(c.Proto, "twirp"):
		if o.EncErr != "" {
			return false
		}
		if sc.Code == 0 {
			return o.HTTP == 200
		}
		return o.HTTP >= 400 || rec.Sent > 0
	}
	return o.HasStatus && o.Code == uint64(sc.Code) && o.WebErr == "" && o.Replies == rec.Sent
}

// history serves, on the mux of the case, the traffic that Case.After names:
// the calls run at the same time (one goroutine per client) and all of them
// have ended before the case itself starts. The calls are not judged (each
// of their classes has cases of its own); what their clients saw is counted.
func (e *Env) history(c *Case) *HistObs {
	h := &HistObs{Kind: c.After}
	// the variant of the kind follows from the case (deterministic, replayable)
	n := len(c.Script.Msg) + int(c.Script.Code) + c.Script.Replies + len(c.Proto) + len(c.Method)
	calls := historyCalls(c.After, c.Target, n)
	type res struct {
		ok   bool
		comp int
		pan  int
	}
	out := make([]res, len(calls))
	var wg sync.WaitGroup
	for i, hc := range calls {
		wg.Add(1)
		go func(i int, hc *Case) {
			defer wg.Done()
			sc := hc.Script
			id := e.register(&sc)
			o := e.do(hc, id)
			if (strings.HasPrefix(hc.Proto, "http") || strings.HasPrefix(hc.Proto, "twirp")) && o.Hdr != nil && strings.EqualFold(strings.TrimSpace(o.Hdr.Get("Content-Encoding")), "gzip") {
				if b, err := wire.Gunzip(o.Body); err != nil {
					o.EncErr = err.Error()
				} else {
					o.Body = b
					o.CompFrames++ // a compressed HTTP body
				}
			}
			rec := e.take(id)
			out[i] = res{ok: histOK(hc, o, rec), comp: o.CompFrames, pan: len(o.Panics)}
		}(i, hc)
	}
	wg.Wait()
	for _, r := range out {
		h.Calls++
		if r.ok {
			h.OK++
		} else {
			h.Unexpected++
		}
		h.CompFrames += r.comp
		h.Panics += r.pan
	}
	// panics the socket server logged while it served the history are not
	// observations of the case that follows
	h.Panics += len(e.newPanics())
	return h
}

// ------------------------------------------------------------- utilities

type viol struct{ key, what string }

func sortedKeys(m map[string][]string) []string {
	out := make([]string, 0, len(m))
	for k := range m {
		out = append(out, k)
	}
	sort.Strings(out)
	return out
}

func clip(s string, n int) string {
	if len(s) > n {
		return s[:n] + fmt.Sprintf("...(%d bytes)", len(s))
	}
	return s
}

// ascii makes a text safe for one-line ASCII output (violation lines are cut
// at a byte offset by the monitor runtime).
func ascii(s string) string {
	q := strconv.QuoteToASCII(s)
	return q[1 : len(q)-1]
}

// panicViols turns server-side panics / wedges into violations; returns true
// when the observation should not be judged further.
func panicViols(c *Case, o *Obs, cls string) (vs []viol, stop bool) {
	for _, p := range o.Panics {
		vs = append(vs, viol{p.Key() + ":" + cls, fmt.Sprintf("%s: server panicked while answering (%s) at %s", c.Proto, ascii(clip(p.Value, 120)), p.Frame)})
	}
	if o.Wedged {
		if strings.Contains(o.Dump, "larking.io/larking") {
			vs = append(vs, viol{c.Proto + ":wedged:" + cls, "request did not return within the watchdog; goroutine dump shows it inside larking"})
		}
		return vs, true
	}
	return vs, len(o.Panics) > 0
}
