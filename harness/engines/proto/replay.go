package proto

import (
	"encoding/json"
	"fmt"
	"strings"

	"verif/internal/mon"
)

// Replay re-executes a stored case of C05 or C14 against the current tree.
func Replay(r *mon.Run, raw json.RawMessage) {
	var c Case
	if err := json.Unmarshal(raw, &c); err != nil {
		r.Inconclusive("bad replay case: " + err.Error())
		return
	}
	env, err := newEnv()
	if err != nil {
		r.Inconclusive("environment: " + err.Error())
		return
	}
	defer env.Close()
	o, rec := env.run(&c)
	var vs []viol
	var inc string
	if strings.HasPrefix(c.Kind, "C14") {
		vs, inc = check14(&c, o, rec)
	} else {
		vs, inc = check05(&c, o, rec)
	}
	r.Eval(1)
	if inc != "" {
		r.Inconclusive(inc)
	}
	r.Distinct(fmt.Sprintf("%s/%s/%s/%s", c.Kind, c.Proto, c.Codec, c.Method))
	r.Distinct("replay")
	r.Set("replayed_observation", map[string]any{
		"handler_ran": rec.Ran, "handler_sent": rec.Sent, "handler_op_errors": rec.OpErrs,
		"http": o.HTTP, "grpc_status": o.CodeText, "code": o.Code, "msg": clip(o.Msg, 200), "replies": o.Replies,
		"transport_error": o.Err, "framing": o.WebErr, "panics": len(o.Panics),
		"ws_close": o.WSClose, "ws_code": o.WSCode, "ws_payload_len": o.WSPayloadLen,
		"header_md": o.MDHdr, "trailer_md": o.MDTrl,
	})
	for _, v := range vs {
		r.Violate(v.key, v.what, &c)
	}
}
