package proto

import (
	"bytes"
	"encoding/json"
	"fmt"
	"io"
	"math"
	"math/rand"
	"runtime"
	"strings"
	"sync"
	"unicode/utf8"

	spb "google.golang.org/genproto/googleapis/rpc/status"
	"google.golang.org/protobuf/encoding/protojson"
	"google.golang.org/protobuf/encoding/protowire"
	"google.golang.org/protobuf/proto"
	"google.golang.org/protobuf/types/known/anypb"

	"verif/internal/mon"
)

// ------------------------------------------------------------ pinned tables

// google.rpc.Code -> HTTP status, from the comments of google/rpc/code.proto.
// CANCELLED is documented as 499; 408 is accepted as well.
var httpOfCode = [17][]int{
	{200}, {499, 408}, {500}, {400}, {504}, {404}, {409}, {403}, {429},
	{400}, {409}, {400}, {501}, {500}, {503}, {500}, {401},
}

// Twirp error names (https://twitchtv.github.io/twirp/docs/spec_v7.html#error-codes)
var twirpOfCode = [17]string{
	"", "canceled", "unknown", "invalid_argument", "deadline_exceeded", "not_found",
	"already_exists", "permission_denied", "resource_exhausted", "failed_precondition",
	"aborted", "out_of_range", "unimplemented", "internal", "unavailable", "dataloss",
	"unauthenticated",
}

var twirpSpecNames = func() map[string]bool {
	m := map[string]bool{"bad_route": true, "malformed": true}
	for _, n := range twirpOfCode[1:] {
		m[n] = true
	}
	return m
}()

// larking's documented WebSocket close codes (larking/code.go, pinned here).
const (
	wsNormal      = 1000
	wsGoingAway   = 1001
	wsUnsupported = 1003
	wsPolicy      = 1008
	wsInternal    = 1011
)

var wsOfCode = [17]int{
	wsNormal, wsGoingAway, wsInternal, wsUnsupported, wsGoingAway, wsInternal, wsGoingAway,
	wsInternal, wsInternal, wsInternal, wsInternal, wsInternal, wsUnsupported, wsInternal,
	wsInternal, wsInternal, wsPolicy,
}

func wantHTTP(c uint32) []int {
	if c <= 16 {
		return httpOfCode[c]
	}
	return []int{500}
}

func wantWS(c uint32) int {
	if c <= 16 {
		return wsOfCode[c]
	}
	return wsInternal
}

// ---------------------------------------------------------- input classes

func codeClass(c uint32) string {
	switch {
	case c <= 16:
		return fmt.Sprintf("code=%d", c)
	case c == 17:
		return "code=17"
	}
	return "code>17"
}

func needsEscape(b byte) bool { return b < ' ' || b > '~' || b == '%' }

// msgShape is the structural class of a status message with respect to the
// encodings it passes through.
func msgShape(s string) string {
	if s == "" {
		return "msg-empty"
	}
	last := -1
	for i := 0; i < len(s); i++ {
		if needsEscape(s[i]) {
			last = i
		}
	}
	sh := "msg-plain"
	switch {
	case last == len(s)-1:
		sh = "msg-escaped-byte-last"
	case last >= 0:
		sh = "msg-text-after-escaped-byte"
	}
	return sh
}

func sizeClass(s string) string {
	switch {
	case len(s) >= 65536:
		return "/64k+"
	case len(s) >= 1024:
		return "/1k+"
	}
	return ""
}

// keyProto is the protocol part of finding keys: the protocol as the client
// speaks it (transport variants and clients of the same protocol share it);
// the codec is part of it only where the status travels in the message codec.
func keyProto(c *Case) string {
	p := strings.TrimSuffix(c.Proto, "-sock")
	switch p {
	case "http":
		return "http/" + c.Codec
	case "grpc-raw", "grpc-h2c":
		return "grpc"
	}
	return p
}

func wsLenClass(s string) string {
	if len(s) > 123 {
		return "msg>123-bytes"
	}
	return "msg<=123-bytes"
}

type msgIn struct {
	s     string
	label string
}

func repeatTo(unit string, n int) string {
	var sb strings.Builder
	for sb.Len()+len(unit) <= n {
		sb.WriteString(unit)
	}
	for sb.Len() < n {
		sb.WriteByte('.')
	}
	return sb.String()
}

func baseMsgs() []msgIn {
	return []msgIn{
		{"", "empty"},
		{"plain ascii message", "ascii"},
		{"50% done", "pct-middle"},
		// printable ASCII only, '%' followed by two hex digits: decodes to
		// something else unless the '%' itself is escaped
		{"shelves%2F1 is %41", "pct-hex-ascii"},
	}
}

// randomMsg composes a message from pieces of every character class; no
// leading / trailing white space (HTTP header transport may trim it).
func randomMsg(rng *rand.Rand) string {
	pieces := []string{"a", "Z", "0", " ", "%", "%%", "%2", "%41", "\n", "\t", "\x01", "\x1f", "\x7f", "~", "\"", "\\", "é", "✓", "😀", "\u00a0", ":", ",", "+", "/", "="}
	for {
		var sb strings.Builder
		for i, n := 0, 1+rng.Intn(24); i < n; i++ {
			sb.WriteString(pieces[rng.Intn(len(pieces))])
		}
		s := sb.String()
		if strings.TrimSpace(s) == s && strings.Trim(s, " \t\n\u00a0") == s {
			return s
		}
	}
}

func allMsgs(thorough bool) []msgIn {
	out := []msgIn{
		{"", "empty"},
		{"plain ascii message", "ascii"},
		{"%done", "pct-start"},
		{"50% done", "pct-middle"},
		{"done 100%", "pct-end"},
		{"shelves%2F1", "pct-hex-ascii"},
		{"%41", "pct-hex-only"},
		{"rate 100%25", "pct-hex-end"},
		{"naïve café ✓", "utf8-tail"},
		{"tail is four bytes 😀", "utf8-tail4"},
		{"é at start, ascii after", "utf8-then-ascii"},
		{repeatTo("one KiB of ascii text; ", 1024), "1KiB"},
		{repeatTo("1 KiB ü% ", 1023) + "!", "1KiB-escaped"},
		{repeatTo("seventy KiB of text, ", 70*1024), "70KiB"},
	}
	bytesQuick := []byte{0x01, '\t', '\n', '\r', 0x1f, ' ', '"', '&', '+', '/', ':', '<', '\\', '~', 0x7f}
	if thorough {
		for b := 1; b <= 0x7f; b++ {
			out = append(out, msgIn{"ab" + string([]byte{byte(b)}) + "cd", fmt.Sprintf("byte-%02x", b)})
		}
		for _, b := range []byte{0x01, '\n', '%', 0x7f} {
			out = append(out, msgIn{"ab" + string([]byte{b}), fmt.Sprintf("byte-%02x-last", b)})
			out = append(out, msgIn{string([]byte{b}) + "cd", fmt.Sprintf("byte-%02x-first", b)})
		}
		out = append(out, msgIn{repeatTo("70 KiB ✓%\n", 70*1024-1) + "é", "70KiB-escaped"})
		out = append(out, msgIn{repeatTo("x", 123), "123B"}, msgIn{repeatTo("x", 124), "124B"}, msgIn{repeatTo("y", 121) + "é", "123B-utf8-tail"}, msgIn{repeatTo("y", 122) + "é", "124B-utf8-tail"})
	} else {
		for _, b := range bytesQuick {
			out = append(out, msgIn{"ab" + string([]byte{b}) + "cd", fmt.Sprintf("byte-%02x", b)})
		}
		out = append(out, msgIn{"ab\n", "byte-0a-last"}, msgIn{repeatTo("x", 123), "123B"}, msgIn{repeatTo("y", 122) + "é", "124B-utf8-tail"})
	}
	return out
}

var allCodes = func() []uint32 {
	var cs []uint32
	for c := uint32(0); c <= 16; c++ {
		cs = append(cs, c)
	}
	return append(cs, 17, 18, 19, 31, 32, 63, 64, 100, 255, 256, math.MaxInt32, 1<<31, math.MaxUint32)
}()

// ------------------------------------------------------------------ oracle

func expectedDetails() []*anypb.Any {
	var out []*anypb.Any
	for _, d := range detailMsgs() {
		a, _ := anypb.New(d)
		out = append(out, a)
	}
	return out
}

// checkStatusProto compares a decoded google.rpc.Status with the script.
func checkStatusProto(got *spb.Status, sc *Script, pfx string, add func(obs, cls, what string)) {
	if int32(sc.Code) != got.GetCode() {
		add("status-body-code", codeClass(sc.Code), fmt.Sprintf("%s: google.rpc.Status.code=%d, handler returned %d", pfx, got.GetCode(), int32(sc.Code)))
	}
	if got.GetMessage() != sc.Msg {
		add("status-body-message", msgShape(sc.Msg), fmt.Sprintf("%s: google.rpc.Status.message=%+q, handler returned %+q", pfx, clip(got.GetMessage(), 80), clip(sc.Msg, 80)))
	}
	checkDetails(got.GetDetails(), sc, pfx, add)
}

func checkDetails(got []*anypb.Any, sc *Script, pfx string, add func(obs, cls, what string)) {
	var want []*anypb.Any
	if sc.Details {
		want = expectedDetails()
	}
	if len(got) != len(want) {
		add("details", "details-count", fmt.Sprintf("%s: %d status details delivered, handler attached %d", pfx, len(got), len(want)))
		return
	}
	for i := range want {
		if !proto.Equal(got[i], want[i]) {
			add("details", "details-value", fmt.Sprintf("%s: status detail %d differs: got %+q want %+q", pfx, i, fmt.Sprint(got[i]), fmt.Sprint(want[i])))
			return
		}
	}
}

// decodeHTTPStatus decodes an HTTP error body as google.rpc.Status according
// to the response Content-Type.
func decodeHTTPStatus(o *Obs) (*spb.Status, string) {
	ct := o.Hdr.Get("Content-Type")
	mt := strings.TrimSpace(strings.SplitN(ct, ";", 2)[0])
	st := &spb.Status{}
	switch mt {
	case "application/json":
		if err := protojson.Unmarshal(o.Body, st); err != nil {
			return nil, fmt.Sprintf("error body (Content-Type %+q) is not a JSON google.rpc.Status: %+q; body %+q", ct, fmt.Sprint(err), clip(string(o.Body), 120))
		}
	case "application/protobuf", "application/x-protobuf", "application/octet-stream":
		if err := proto.Unmarshal(o.Body, st); err != nil {
			return nil, fmt.Sprintf("error body (Content-Type %+q) is not a binary google.rpc.Status: %+q", ct, fmt.Sprint(err))
		}
	default:
		return nil, fmt.Sprintf("error body has Content-Type %+q, which names no known encoding of google.rpc.Status", ct)
	}
	return st, ""
}

func wantReplies(c *Case) int {
	if c.Method == "Echo" {
		if c.Script.Code == 0 {
			return 1
		}
		return 0
	}
	return c.Script.Replies
}

// check05 judges one observation. inconclusive != "" means the case could
// not be observed (never a violation).
func check05(c *Case, o *Obs, rec Rec) (vs []viol, inconclusive string) {
	sc := &c.Script
	pc := keyProto(c)
	if c.Target != "" {
		pc += "@" + c.Target
	}
	if c.Opt != "" {
		pc += "[" + c.Opt + "]"
	}
	preCls := "" // metadata call the handler made before failing
	switch {
	case sc.Pre == "set" || len(sc.Hdr) > 0 && !sc.SendHdr:
		preCls = ",after-SetHeader"
	case sc.Pre == "send" || len(sc.Hdr) > 0:
		preCls = ",after-SendHeader"
	case sc.Pre == "trl" || len(sc.Trl) > 0:
		preCls = ",after-SetTrailer"
	}
	// traffic dimensions: the call itself is compressed / the server has just
	// served other traffic; the class keeps the shape of the status
	traffic := ""
	switch {
	case c.After != "":
		traffic = "after-" + c.After + "-traffic,"
	case c.Gzip:
		traffic = "gzip-call,"
	}
	add := func(obs, cls, what string) {
		if traffic != "" {
			if o.Hist != nil {
				what += fmt.Sprintf(" [right before, the same mux served %d concurrent %s calls (%d as scripted, %d compressed replies seen)]", o.Hist.Calls, o.Hist.Kind, o.Hist.OK, o.Hist.CompFrames)
			}
			vs = append(vs, viol{pc + ":" + obs + ":" + traffic + strings.TrimPrefix(cls, traffic), what})
			return
		}
		if c.Kind == "C05ctx" {
			cls = "ctx-done"
		}
		if c.WSCtl != "" {
			cls = "client-" + c.WSCtl
		}
		if c.Opt != "" {
			// mux-option cases: the class is how the status compares with the limit
			switch n := len(sc.Msg); {
			case n <= 64:
				cls = "msg<=64B"
			case n <= 256:
				cls = "msg<=256B"
			default:
				cls = "msg>256B"
			}
			if sc.Details {
				cls += "+details"
			}
		}
		if preCls != "" && obs != "call-not-delivered" {
			// the metadata call is the structural class of these cases (codes
			// and message shapes have their own cases without such a call)
			cls = preCls[1:]
		}
		vs = append(vs, viol{pc + ":" + obs + ":" + cls, what})
	}
	gen := codeClass(sc.Code)
	if sc.Code <= 16 {
		gen = "code-in-range," + msgShape(sc.Msg) + sizeClass(sc.Msg)
	}
	if c.Kind == "C05ctx" {
		gen = "ctx-done"
	}
	if c.Route != "" {
		gen = "http-shape," + ctClass(c.ReqCT) + "," + acceptClass(c.Accept)
	}
	gen = traffic + gen
	pv, stop := panicViols(c, o, gen)
	vs = append(vs, pv...)
	if o.Wedged && len(pv) == 0 {
		return vs, "in-process watchdog fired without a stack inside larking"
	}
	if stop {
		return vs, ""
	}
	if c.Route != "" && !o.Timeout {
		return append(vs, check05HTTPShape(c, o, rec)...), ""
	}
	if c.Hold && o.Timeout && rec.Done && o.Stuck != "" {
		// generous watchdog + goroutine dump: the handler has returned its
		// status, the request is still inside the mux, the client (send side
		// open, waiting for the result) never got the status
		add("status-not-delivered", "client-send-side-open", fmt.Sprintf("handler returned code %d after %d replies; the client, which keeps its send side open until it has the result, received no status within %v; the request is still inside larking: %s", sc.Code, rec.Sent, holdTimeout, ascii(clip(larkingFrames(o.Stuck), 600))))
		return vs, ""
	}
	if o.Timeout {
		return vs, c.Proto + ": client timed out (" + o.Err + ")"
	}
	if !rec.Ran {
		// A well-formed call to a registered method that the mux answered by
		// itself (close frame, HTTP status, grpc-status) without invoking the
		// handler: the handler's status cannot reach the client. Without such
		// an answer nothing was observed.
		if answered(o) {
			add("call-not-delivered", "handler-never-invoked", fmt.Sprintf("the scripted handler was never invoked; the client was answered with HTTP %d, grpc-status %+q %+q, close code %d %+q", o.HTTP, o.CodeText, clip(o.Msg, 100), o.WSCode, clip(string(o.WSReason), 100)))
			return vs, ""
		}
		return vs, fmt.Sprintf("%s: the scripted handler was never invoked (HTTP %d, transport %+q)", c.Proto, o.HTTP, clip(o.Err, 100))
	}
	if o.Err != "" && !(c.Proto == "ws") {
		add("no-response", gen, fmt.Sprintf("client got no usable response: %s", ascii(clip(o.Err, 200))))
		return vs, ""
	}

	if o.EncErr != "" {
		// the client decodes per the response's Content-Encoding: neither code
		// nor message can be read from a body that does not decode
		add("content-encoding-undecodable", aeClass(c.AcceptEnc), o.EncErr)
		return vs, ""
	}
	switch {
	case c.Proto == "http" || c.Proto == "http-sock":
		if sc.Code == 0 {
			if o.HTTP != 200 {
				add("http-status", "code=0", fmt.Sprintf("successful RPC answered with HTTP %d", o.HTTP))
			}
			return
		}
		if rec.Sent > 0 && c.Codec == "proto" && c.Accept != "" {
			// protobuf stream followed by the error (framing pinned from the
			// unchanged tree): rec.Sent length-prefixed replies, then the
			// google.rpc.Status document as negotiated - JSON when the request
			// has no Accept, binary for Accept: application/protobuf - unframed
			rest := o.Body
			for i := 0; i < rec.Sent; i++ {
				n, k := protowire.ConsumeVarint(rest)
				if k <= 0 || uint64(len(rest)-k) < n {
					add("stream-body-undecodable", "protobuf-stream,accept="+c.Accept, fmt.Sprintf("reply %d of %d is not a length-prefixed message (%d bytes left)", i+1, rec.Sent, len(rest)))
					return
				}
				rest = rest[k+int(n):]
			}
			st := &spb.Status{}
			var err error
			if c.Accept == "-" {
				err = protojson.Unmarshal(rest, st)
			} else {
				err = proto.Unmarshal(rest, st)
			}
			if err != nil || st.GetCode() != int32(sc.Code) || st.GetMessage() != sc.Msg {
				add("stream-final-status", "protobuf-stream,accept="+c.Accept, fmt.Sprintf("after the %d replies the body does not end with the handler's status (%d, %+q) in the negotiated encoding: %+q (decode error: %v)", rec.Sent, sc.Code, clip(sc.Msg, 60), clip(string(rest), 80), err))
			}
			return
		}
		if rec.Sent > 0 && c.AcceptEnc != "" && c.Codec == "json" {
			// streamed JSON replies followed by the error: the stream of JSON
			// values decodes and ends with the handler's google.rpc.Status
			dec := json.NewDecoder(bytes.NewReader(o.Body))
			var last json.RawMessage
			n := 0
			for {
				var v json.RawMessage
				if err := dec.Decode(&v); err != nil {
					if err != io.EOF {
						add("stream-body-undecodable", aeClass(c.AcceptEnc), fmt.Sprintf("after %d JSON values the streamed body does not decode: %+q", n, err.Error()))
						return
					}
					break
				}
				last, n = v, n+1
			}
			st := &spb.Status{}
			if err := protojson.Unmarshal(last, st); err != nil || st.GetCode() != int32(sc.Code) || st.GetMessage() != sc.Msg {
				add("stream-final-status", aeClass(c.AcceptEnc), fmt.Sprintf("the streamed body (%d JSON values) does not end with the handler's status (%d, %+q): last value %+q", n, sc.Code, clip(sc.Msg, 60), clip(string(last), 100)))
			}
			return
		}
		if rec.Sent > 0 {
			return // HTTP has no status channel after the first reply: only the panic check applies
		}
		ok := false
		for _, w := range wantHTTP(sc.Code) {
			ok = ok || w == o.HTTP
		}
		if !ok {
			add("http-status", codeClass(sc.Code), fmt.Sprintf("HTTP status %d for code %d, documented %v", o.HTTP, sc.Code, wantHTTP(sc.Code)))
		}
		st, why := decodeHTTPStatus(o)
		if st == nil {
			add("status-body-undecodable", gen, why)
			return
		}
		checkStatusProto(st, sc, "HTTP error body", add)

	case c.Proto == "twirp" || c.Proto == "twirp-sock":
		if sc.Code == 0 {
			if o.HTTP != 200 {
				add("http-status", "code=0", fmt.Sprintf("successful Twirp RPC answered with HTTP %d", o.HTTP))
			}
			return
		}
		var te struct {
			Code *string `json:"code"`
			Msg  *string `json:"msg"`
		}
		// Twirp spec: errors are JSON with a non-200 HTTP status (the exact
		// status is not compared: larking documents the gRPC mapping)
		if o.HTTP < 400 {
			add("twirp-http-status", "error-with-success-status", fmt.Sprintf("Twirp error for code %d answered with HTTP %d", sc.Code, o.HTTP))
		}
		if mt := strings.TrimSpace(strings.SplitN(o.Hdr.Get("Content-Type"), ";", 2)[0]); mt != "application/json" {
			add("twirp-content-type", "error-response", fmt.Sprintf("Twirp error response has Content-Type %+q, the spec requires application/json", o.Hdr.Get("Content-Type")))
		}
		if err := json.Unmarshal(o.Body, &te); err != nil || te.Code == nil {
			add("twirp-body-undecodable", gen, fmt.Sprintf("Twirp error body is not a JSON object with a code: %+q; body %+q", fmt.Sprint(err), clip(string(o.Body), 120)))
			return
		}
		if sc.Code <= 16 {
			if *te.Code != twirpOfCode[sc.Code] {
				add("twirp-name", codeClass(sc.Code), fmt.Sprintf("Twirp code %+q for gRPC code %d, the Twirp spec name is %+q", *te.Code, sc.Code, twirpOfCode[sc.Code]))
			}
		} else if !twirpSpecNames[*te.Code] {
			add("twirp-name", "code-out-of-range", fmt.Sprintf("Twirp code %+q for gRPC code %d is not one of the Twirp error codes", *te.Code, sc.Code))
		}
		got := ""
		if te.Msg != nil {
			got = *te.Msg
		}
		if got != sc.Msg {
			add("twirp-msg", msgShape(sc.Msg), fmt.Sprintf("Twirp msg %+q, handler returned %+q", clip(got, 80), clip(sc.Msg, 80)))
		}

	case c.Proto == "grpc":
		if o.Replies != wantReplies(c) && rec.Sent == wantReplies(c) {
			add("replies", gen, fmt.Sprintf("grpc-go client received %d replies, handler sent %d", o.Replies, rec.Sent))
		}
		if sc.Code > math.MaxInt32 {
			// grpc-go cannot parse a grpc-status above 2^31-1 (its own server
			// sends the same text); only require that the call ended with an error
			if o.Code == 0 {
				add("grpc-status", "code>17", fmt.Sprintf("handler returned code %d, grpc-go client saw OK", sc.Code))
			}
			return
		}
		if o.Code != uint64(sc.Code) {
			add("grpc-status", codeClass(sc.Code), fmt.Sprintf("grpc-go client saw code %d (%+q), handler returned %d", o.Code, clip(o.Msg, 100), sc.Code))
			return
		}
		if sc.Code == 0 {
			return
		}
		if o.Msg != sc.Msg {
			add("grpc-message", msgShape(sc.Msg), fmt.Sprintf("grpc-go client saw message %+q, handler returned %+q", clip(o.Msg, 80), clip(sc.Msg, 80)))
		}
		checkDetails(o.Details.GetDetails(), sc, "grpc-go client", add)

	case strings.HasPrefix(c.Proto, "grpc"):
		web := strings.HasPrefix(c.Proto, "grpcweb")
		if web {
			ct := o.Hdr.Get("Content-Type")
			okct := strings.HasPrefix(ct, "application/grpc-web")
			if c.webText() {
				okct = strings.HasPrefix(ct, "application/grpc-web-text")
			} else if strings.HasPrefix(ct, "application/grpc-web-text") {
				okct = false
			}
			if !okct {
				shape := "with-body"
				if len(o.Body) == 0 {
					shape = "headers-only-response"
				}
				add("content-type", shape, fmt.Sprintf("gRPC-web response has Content-Type %+q (request was %s)", ct, c.Proto))
			}
		}
		if o.WebErr != "" {
			add("framing", framingClass(c, o), fmt.Sprintf("response body is not a well-formed frame sequence: %s (%d replies decoded, trailer frame seen: %v)", o.WebErr, o.Replies, o.HasStatus))
		}
		if !o.HasStatus {
			if o.WebErr == "" {
				add("grpc-status-missing", gen, fmt.Sprintf("no grpc-status in trailers, trailer frame or headers (HTTP %d, %d body bytes)", o.HTTP, len(o.Body)))
			}
			return
		}
		if o.Replies != wantReplies(c) && rec.Sent == wantReplies(c) && o.WebErr == "" {
			add("replies", gen, fmt.Sprintf("%d reply frames, handler sent %d", o.Replies, rec.Sent))
		}
		if c.Kind == "C05ctx" && o.Code != uint64(sc.Code) {
			// the deadline of the call has passed, the handler then returned its
			// own status: that status (not the context's) is the result
			add("grpc-status", "ctx-done", fmt.Sprintf("grpc-status %s (%+q) after the deadline, handler returned %d", o.CodeText, clip(o.Msg, 80), sc.Code))
			return
		}
		if o.Code != uint64(sc.Code) {
			add("grpc-status", codeClass(sc.Code), fmt.Sprintf("grpc-status %+q, handler returned %d", o.CodeText, sc.Code))
			return
		}
		if sc.Code == 0 {
			return
		}
		if o.Msg != sc.Msg {
			add("grpc-message", msgShape(sc.Msg), fmt.Sprintf("percent-decoded grpc-message %+q, handler returned %+q", clip(o.Msg, 80), clip(sc.Msg, 80)))
		}
		if o.DetErr != "" {
			add("details", "details-undecodable", o.DetErr)
			return
		}
		if o.Details != nil {
			checkStatusProto(o.Details, sc, "grpc-status-details-bin", add)
		} else if sc.Details {
			add("details", "details-count", "no grpc-status-details-bin although the handler attached 2 details")
		}

	case c.Proto == "ws":
		if !o.WSClose {
			add("close-frame-missing", gen, fmt.Sprintf("connection ended without a close frame after %d messages: %s", o.Replies, ascii(clip(o.Err, 160))))
			return
		}
		if o.WSPayloadLen > 125 {
			add("close-frame-payload>125", wsLenClass(sc.Msg), fmt.Sprintf("close frame with a %d-byte payload (control frames are limited to 125 bytes, RFC 6455 5.5) for a %d-byte message", o.WSPayloadLen, len(sc.Msg)))
			return
		}
		if !o.WSFin || o.WSRsv != 0 || o.WSMasked || o.WSPayloadLen == 1 {
			add("close-frame-malformed", gen, fmt.Sprintf("close frame fin=%v rsv=%d masked=%v payload=%d", o.WSFin, o.WSRsv, o.WSMasked, o.WSPayloadLen))
			return
		}
		if o.Replies != wantReplies(c) && rec.Sent == wantReplies(c) {
			add("replies", gen, fmt.Sprintf("%d messages before the close frame, handler sent %d", o.Replies, rec.Sent))
		}
		if sc.Code == 0 {
			if !o.WSNoBody && o.WSCode != wsNormal {
				add("close-code", "code=0", fmt.Sprintf("close code %d after a successful RPC", o.WSCode))
			}
			return
		}
		if o.WSNoBody {
			add("close-code", codeClass(sc.Code), fmt.Sprintf("close frame without a status code for gRPC code %d", sc.Code))
			return
		}
		if o.WSCode != wantWS(sc.Code) {
			add("close-code", codeClass(sc.Code), fmt.Sprintf("close code %d for gRPC code %d, larking documents %d", o.WSCode, sc.Code, wantWS(sc.Code)))
		}
		reason := string(o.WSReason)
		switch {
		case !utf8.ValidString(reason):
			add("close-reason-not-utf8", wsLenClass(sc.Msg), fmt.Sprintf("close reason %+q is not valid UTF-8", clip(reason, 60)))
		case len(sc.Msg) <= 123 && reason != sc.Msg:
			add("close-reason", wsLenClass(sc.Msg)+","+msgShape(sc.Msg), fmt.Sprintf("close reason %+q, handler returned %+q (fits a close frame)", clip(reason, 80), clip(sc.Msg, 80)))
		case !strings.HasPrefix(sc.Msg, reason):
			add("close-reason", wsLenClass(sc.Msg)+","+msgShape(sc.Msg), fmt.Sprintf("close reason %+q is not a prefix of the message %+q", clip(reason, 80), clip(sc.Msg, 80)))
		}
	}
	return vs, ""
}

// larkingFrames lists the larking functions of a goroutine dump excerpt.
func larkingFrames(dump string) string {
	var fr []string
	for _, ln := range strings.Split(dump, "\n") {
		if strings.HasPrefix(ln, "larking.io/") || strings.HasPrefix(ln, "io.") || strings.HasPrefix(ln, "goroutine ") {
			if i := strings.LastIndex(ln, "("); i > 0 && !strings.HasPrefix(ln, "goroutine ") {
				ln = ln[:i]
			}
			fr = append(fr, ln)
		}
	}
	return strings.Join(fr, " < ")
}

func ctClass(ct string) string {
	switch mt := strings.ToLower(strings.TrimSpace(strings.SplitN(ct, ";", 2)[0])); {
	case ct == "-":
		return "ct-absent"
	case mt == "application/json" || mt == "application/protobuf" || mt == "application/octet-stream":
		if strings.Contains(ct, ";") {
			return "ct-registered+params"
		}
		if mt != ct {
			return "ct-registered-other-case"
		}
		return "ct-registered"
	case strings.Count(mt, "/") == 1 && !strings.ContainsAny(mt, " ,") && !strings.HasPrefix(mt, "/") && !strings.HasSuffix(mt, "/"):
		return "ct-foreign"
	}
	return "ct-malformed"
}

func acceptClass(a string) string {
	switch {
	case a == "-":
		return "accept-absent"
	case a == "*/*" || a == "application/*":
		return "accept-wildcard"
	case strings.HasPrefix(a, "application/json") && !strings.Contains(a, ";") || strings.HasPrefix(a, "application/protobuf") && !strings.Contains(a, " "):
		return "accept-match"
	case strings.Contains(a, "application/json") || strings.Contains(a, "application/protobuf"):
		return "accept-match-in-list-or-params"
	case strings.Count(a, "/") >= 1 && !strings.Contains(a, ";;"):
		return "accept-no-match"
	}
	return "accept-malformed"
}

// check05HTTPShape judges an HTTP failure under arbitrary Content-Type /
// Accept headers: whatever the media types, the client gets the documented
// HTTP status and a google.rpc.Status it can decode by the response
// Content-Type - for a handler error the handler's status, for an error the
// mux raises itself (no route, no codec) a non-OK status whose code the HTTP
// status matches.
func check05HTTPShape(c *Case, o *Obs, rec Rec) (vs []viol) {
	sc := &c.Script
	pc := "http"
	if c.Target != "" {
		pc += "@" + c.Target
	}
	kind := "mux-error"
	if rec.Ran {
		kind = "handler-error"
	}
	cls := kind + "," + ctClass(c.ReqCT) + "," + acceptClass(c.Accept)
	if c.PreCT != "" {
		cls += ",after-" + ctClass(c.PreCT) + "-request"
	}
	add := func(obs, _ string, what string) {
		vs = append(vs, viol{pc + ":" + obs + ":" + cls, fmt.Sprintf("%s %s (Content-Type %+q, Accept %+q): %s", c.Route, c.Proto, c.ReqCT, c.Accept, what)})
	}
	if o.Err != "" {
		add("no-response", "", "client got no usable response: "+ascii(clip(o.Err, 160)))
		return vs
	}
	if o.SeqDiff != "" {
		// request isolation: the answer is a function of the request, not of
		// what other clients asked the same mux before
		add("response-depends-on-earlier-request", "", o.SeqDiff)
	}
	if rec.Ran && sc.Code == 0 {
		return vs // successful call: not this property
	}
	if o.HTTP < 400 {
		add("http-status", "", fmt.Sprintf("the failing call was answered with HTTP %d", o.HTTP))
		return vs
	}
	st, why := decodeHTTPStatus(o)
	if st == nil {
		add("status-body-undecodable", "", why)
		return vs
	}
	if rec.Ran {
		ok := false
		for _, w := range wantHTTP(sc.Code) {
			ok = ok || w == o.HTTP
		}
		if !ok {
			add("http-status", "", fmt.Sprintf("HTTP status %d for code %d, documented %v", o.HTTP, sc.Code, wantHTTP(sc.Code)))
		}
		checkStatusProto(st, sc, "HTTP error body", add)
		return vs
	}
	if st.GetCode() == 0 {
		add("status-body-code", "", fmt.Sprintf("HTTP %d with a google.rpc.Status of code OK", o.HTTP))
		return vs
	}
	ok := false
	for _, w := range wantHTTP(uint32(st.GetCode())) {
		ok = ok || w == o.HTTP
	}
	if !ok {
		add("http-status", "", fmt.Sprintf("HTTP status %d with a body of code %d (%+q), documented %v", o.HTTP, st.GetCode(), clip(st.GetMessage(), 80), wantHTTP(uint32(st.GetCode()))))
	}
	return vs
}

// aeClass: does the Accept-Encoding value admit gzip?
func aeClass(ae string) string {
	l := strings.ToLower(ae)
	switch {
	case strings.Contains(l, "gzip;q=0") && !strings.Contains(l, "gzip;q=0."), strings.Contains(l, "*;q=0") && !strings.Contains(l, "gzip"), !strings.Contains(l, "gzip") && !strings.Contains(l, "*"):
		return "accept-encoding-without-gzip"
	}
	return "accept-encoding-admits-gzip"
}

// answered reports that the client received a definite protocol-level answer.
func answered(o *Obs) bool {
	return o.Err == "" && !o.Timeout && (o.WSClose || o.HasStatus || o.HTTP >= 400)
}

func framingClass(c *Case, o *Obs) string {
	if c.webText() {
		return "text-mode-body"
	}
	return "binary-body"
}

// --------------------------------------------------------------- workload

type variant struct {
	proto, codec, method string
	replies              int // replies before the status (streaming)
}

func c05Variants(thorough bool) []variant {
	var vs []variant
	codecs := []string{"json", "proto"}
	for _, cd := range codecs {
		for _, p := range []string{"http", "http-sock"} {
			vs = append(vs, variant{p, cd, "Echo", 0}, variant{p, cd, "SS", 0}, variant{p, cd, "SS", 1}, variant{p, cd, "SS", 3})
		}
		vs = append(vs, variant{"twirp", cd, "Echo", 0}, variant{"twirp-sock", cd, "Echo", 0})
		for _, p := range []string{"grpc", "grpc-raw", "grpcweb", "grpcweb-text", "grpcweb-sock", "grpcweb-text-sock"} {
			vs = append(vs, variant{p, cd, "Echo", 0})
			for _, k := range []int{0, 1, 3} {
				vs = append(vs, variant{p, cd, "SS", k})
			}
		}
		for _, k := range []int{0, 1, 3} {
			vs = append(vs, variant{"grpc", cd, "Bidi", k})
		}
	}
	vs = append(vs, variant{"grpc-h2c", "proto", "Echo", 0}, variant{"grpc-h2c", "proto", "SS", 1})
	for _, k := range []int{0, 1, 3} {
		vs = append(vs, variant{"ws", "json", "Bidi", k})
	}
	return vs
}

type c05Runner struct {
	r       *mon.Run
	env     *Env
	envs    []*Env // the environments of flush (envs[0] == env), kept between phases
	sampled map[string]bool
	queue   []c05Job
	histOK  map[string]int // history kind -> calls whose clients saw the scripted outcome
}

func (g *c05Runner) closeEnvs() {
	for _, e := range g.envs {
		if e != g.env {
			e.Close()
		}
	}
	g.envs = nil
}

func protoFamily(p string) string {
	p = strings.TrimSuffix(p, "-sock")
	return p
}

// exec queues a case; flush executes the queue.
func (g *c05Runner) exec(c *Case, label string) {
	g.queue = append(g.queue, c05Job{c, label})
}

type c05Job struct {
	c     *Case
	label string
}

type c05Outcome struct {
	vs       []viol
	inc      string
	ran      bool
	panics   int
	obsKind  string // counter of what the client decoded
	distinct string
	sample   map[string]any
	hist     *HistObs
	comp     int // compressed reply frames the client of a gzip call saw
}

func runC05Job(env *Env, j c05Job) c05Outcome {
	c := j.c
	o, rec := env.run(c)
	var out c05Outcome
	out.vs, out.inc = check05(c, o, rec)
	out.ran = rec.Ran
	out.panics = len(o.Panics)
	out.hist = o.Hist
	if c.Gzip {
		out.comp = o.CompFrames
	}
	switch {
	case o.WSClose:
		out.obsKind = "ws_close_frames_observed"
	case o.TrailersOnly:
		out.obsKind = "grpc_trailers_only_responses"
	case o.HasStatus:
		out.obsKind = "grpc_statuses_decoded"
	case rec.Ran && c.Script.Code != 0 && rec.Sent == 0 && o.HTTP != 0:
		out.obsKind = "http_error_bodies_observed"
	}
	if c.Route != "" && o.HTTP != 0 && out.inc == "" {
		out.distinct = fmt.Sprintf("%s:%s/shape/%s/%s/%s/%s/ran=%v", c.Target, protoFamily(c.Proto), c.Route, c.Method, ctClass(c.ReqCT), acceptClass(c.Accept), rec.Ran)
	} else if rec.Ran && out.inc == "" {
		cc := "ok"
		switch {
		case c.Script.Code > 17:
			cc = "code>17"
		case c.Script.Code == 17:
			cc = "code=17"
		case c.Script.Code > 0:
			cc = "code-in-range"
		}
		out.distinct = fmt.Sprintf("%s%s/%s/%s/after=%d/%s/%s/details=%v/%s", c.Target+":", protoFamily(c.Proto), c.Codec, c.Method, c.Script.Replies, cc, msgShape(c.Script.Msg)+sizeClass(c.Script.Msg), c.Script.Details, c.Kind+"/pre="+c.Script.Pre+"/hdr="+fmt.Sprint(len(c.Script.Hdr) > 0, c.Script.SendHdr, len(c.Script.Trl) > 0)+"/opt="+c.Opt+fmt.Sprintf("/hold=%v", c.Hold))
		switch {
		case c.After != "" && (o.Hist == nil || o.Hist.OK == 0):
			out.distinct = "" // the earlier traffic did not take place: nothing new was observed
		case c.Gzip || c.After != "":
			out.distinct += fmt.Sprintf("/gzip=%v/after=%s", c.Gzip, c.After)
		}
	}
	if c.Script.Code == 5 && j.label == "pct-middle" && c.Script.Details && c.Script.Replies <= 1 {
		out.sample = map[string]any{"proto": c.Proto, "target": c.Target, "codec": c.Codec, "method": c.Method, "code": c.Script.Code, "msg": c.Script.Msg, "replies_before_status": c.Script.Replies,
			"observed": map[string]any{"http": o.HTTP, "grpc_status": o.CodeText, "code": o.Code, "msg": clip(o.Msg, 60), "replies": o.Replies, "ws_close_code": o.WSCode, "panics": len(o.Panics)}}
	}
	return out
}

// flush executes the queued cases on a few independent environments (each
// with its own muxes, servers, back-end, clients and panic log, so that
// observations never mix) and then applies the outcomes in queue order: the
// evidence and the replay case kept per finding key do not depend on
// scheduling.
func (g *c05Runner) flush() {
	r := g.r
	workers := runtime.NumCPU() / 2
	if workers > 6 {
		workers = 6
	}
	if workers < 1 {
		workers = 1
	}
	if len(g.queue) < 64 {
		workers = 1
	}
	if len(g.envs) == 0 {
		g.envs = []*Env{g.env}
	}
	for len(g.envs) < workers {
		e, err := newEnv()
		if err != nil {
			break
		}
		g.envs = append(g.envs, e)
	}
	envs := g.envs
	if len(envs) > workers {
		envs = envs[:workers]
	}
	outs := make([]c05Outcome, len(g.queue))
	var wg sync.WaitGroup
	for w := range envs {
		wg.Add(1)
		go func(w int) {
			defer wg.Done()
			for i := w; i < len(g.queue); i += len(envs) {
				outs[i] = runC05Job(envs[w], g.queue[i])
			}
		}(w)
	}
	wg.Wait()
	for i, out := range outs {
		c := g.queue[i].c
		r.Eval(1)
		r.Count("rpcs_"+protoFamily(c.Proto), 1)
		if c.Target == "proxy" {
			r.Count("rpcs_to_proxied_backend", 1)
		}
		if out.ran {
			r.Count("handler_invocations", 1)
		}
		if out.panics > 0 {
			r.Count("server_panics_observed", out.panics)
		}
		if out.obsKind != "" {
			r.Count(out.obsKind, 1)
		}
		if c.Gzip {
			r.Count("status_cells_of_gzip_calls", 1)
			r.Count("gzip_call_compressed_reply_frames_seen", out.comp)
		}
		if h := out.hist; h != nil {
			r.Count("status_cells_after_earlier_traffic", 1)
			r.Count("history_calls_issued", h.Calls)
			r.Count("history_calls_as_scripted", h.OK)
			r.Count("history_calls_as_scripted_"+h.Kind, h.OK)
			r.Count("history_calls_other_outcome", h.Unexpected)
			r.Count("history_compressed_replies_seen", h.CompFrames)
			r.Count("history_server_panics_not_judged", h.Panics)
			if h.OK == 0 {
				r.Count("status_cells_whose_history_did_not_take_place", 1)
			}
			g.histOK[h.Kind] += h.OK
		}
		if out.inc != "" {
			r.Inconclusive(out.inc)
		}
		if out.distinct != "" {
			r.Distinct(out.distinct)
		}
		for _, v := range out.vs {
			r.Violate(v.key, v.what, c)
		}
		if fam := c.Target + ":" + protoFamily(c.Proto); out.sample != nil && r.SampleN() < 6 && !g.sampled[fam] {
			g.sampled[fam] = true
			r.Sample(out.sample)
		}
	}
	g.queue = nil
}

// RunC05 is the status / error fidelity check.
func RunC05(r *mon.Run) {
	r.Rule = "a scripted handler behind a real Mux returns status (code, message, optional 2 details) before any reply or after 1 / 3 replies; one client per protocol observes the outcome: HTTP JSON/protobuf and Twirp (in-process and HTTP/1 socket), grpc-go over h2c, raw gRPC frames in-process and over h2c, gRPC-web binary/text (in-process and HTTP/1 socket), WebSocket (socket). Cases = (codes 0..16, 17, 18, 19, 31, 32, 63, 64, 100, 255, 256, 2^31-1, 2^31, 2^32-1 x 3 base messages) + (2-3 codes x every message of the message set: empty, ASCII, single bytes embedded in text, '%' at start/middle/end, multi-byte tails, 1 KiB, 70 KiB, 123/124-byte close-frame boundary, seeded random mixes of ASCII / '%' / control / multi-byte pieces), each with and without details, on every protocol x codec x method x reply-count variant, plus a class where the handler calls SetHeader / SendHeader / SetTrailer with custom metadata at entry or right before it returns the status, plus HTTP failures (handler errors on body-less GET and HttpBody upload routes, errors of the mux itself: no codec, no route, wrong verb, unknown method) under 11 request Content-Type x 11 Accept values (absent, registered, with parameters, other case, foreign, wildcard, non-matching, malformed), plus sequences (the request preceded on the same fresh mux by another client's request with the same Accept value and another Content-Type; the answer must equal the one a fresh mux gives to the request alone), plus a sweep of the status message length 0..40 on gRPC-web-text after 0..3 replies, plus Accept-Encoding request headers (gzip, identity, q=0 forms, lists) on the HTTP / Twirp failure classes with the body decoded per the response Content-Encoding, plus protobuf reply streams over HTTP failing after 0..3 replies with Accept absent / protobuf (length-prefixed replies followed by the unframed status document in the negotiated type, pinned from the unchanged tree), plus WebSocket clients that send Ping / unsolicited Pong frames before / after their data frame, plus a mux with ConnectionTimeoutOption(100ms) whose handler stays quiet for 400 ms before it returns its status (after 0..3 replies; WebSocket, gRPC, gRPC-web, HTTP), plus muxes built with small MaxSendMessageSize / MaxReceiveMessageSize options (64, 256 bytes) x long messages / details, plus client- and bidi-streaming gRPC clients (grpc-go, raw h2c) that keep their send side open until the status arrives (10 s watchdog + goroutine dump), plus a small class where the call's deadline has expired before the handler returns, plus two traffic dimensions: (1) the failing call is itself a compressed call (request messages with grpc-encoding gzip, replies compressed) on every gRPC-family variant x codes 0/5/13/17 x 6 message shapes + random messages; (2) earlier traffic: right before the status cell the same mux serves 6-12 concurrent calls of other clients of one kind - failed calls with long escaped messages, 48 KiB messages, WebSocket streams, HTTP bodies with Content-Encoding / Accept-Encoding gzip, compressed gRPC-web calls, compressed gRPC calls, a mix - then an uncompressed call fails with an ASCII / '%' / multi-byte / control-character / 1 KiB message on 15 protocol x codec x method variants (one phase per kind; two garbage collections between phases empty the process's sync.Pools so that a finding names the kind that preceded it; the earlier calls are counted, not judged). Every class runs against the handler registered on the mux and (quick: reduced matrix) against the same handler on a real grpc.Server back-end that a second mux proxies through RegisterConn (codes up to 2^31-1). An execution is non-trivial when the scripted handler ran; distinct = (target, protocol, codec, method, replies before status, code class, message shape, details?, compressed call?, kind of earlier traffic - only when that traffic took place as scripted)"
	r.Floor = 150
	env, err := newEnv()
	if err != nil {
		r.Inconclusive("environment: " + err.Error())
		return
	}
	defer env.Close()
	g := &c05Runner{r: r, env: env, sampled: map[string]bool{}, histOK: map[string]int{}}
	defer g.closeEnvs()

	msgs := allMsgs(r.Thorough())
	rng := r.Rand("c05-messages")
	for i, n := 0, r.Pick(10, 120); i < n; i++ {
		msgs = append(msgs, msgIn{randomMsg(rng), "random"})
	}
	base := baseMsgs()
	sweepCodes := []uint32{5, 13}
	if r.Thorough() {
		sweepCodes = []uint32{1, 5, 16}
		base = append(base, msgIn{"naïve café ✓", "utf8-tail"}, msgIn{"ab\ncd", "byte-0a"}, msgIn{repeatTo("one KiB of ascii text; ", 1024), "1KiB"})
	}
	// every case runs against the locally registered handler and against the
	// same handler on a grpc.Server back-end proxied through RegisterConn
	// (quick: a reduced matrix for the proxied target)
	sockTwin := func(p string) bool { return strings.HasSuffix(p, "-sock") }
	for _, target := range []string{"", "proxy"} {
		reduced := target == "proxy" && !r.Thorough()
		for _, v := range c05Variants(r.Thorough()) {
			if reduced && sockTwin(v.proto) {
				continue
			}
			one := func(code uint32, m msgIn, det bool) {
				if target == "proxy" && code > math.MaxInt32 {
					return // the grpc-go hop cannot carry a grpc-status above 2^31-1
				}
				c := &Case{Kind: "C05", Proto: v.proto, Codec: v.codec, Method: v.method, Class: m.label, Target: target,
					Script: Script{Code: code, Msg: m.s, Details: det, Replies: v.replies}}
				if code == 0 && v.method != "Echo" && v.replies == 0 {
					c.Script.Replies = 2 // successful stream
				}
				g.exec(c, m.label)
			}
			for _, code := range allCodes {
				for _, m := range base {
					if code == 0 && m.label != "ascii" {
						continue // success: the message is not part of the outcome
					}
					for _, det := range []bool{false, true} {
						if code == 0 && det {
							continue
						}
						one(code, m, det)
					}
				}
			}
			for ci, code := range sweepCodes {
				for _, m := range msgs {
					if reduced && ci > 0 && code != 1 {
						continue
					}
					heavy := len(m.s) > 4096
					if heavy && v.replies == 3 {
						continue
					}
					if heavy && strings.HasPrefix(v.proto, "grpcweb") && strings.HasSuffix(v.proto, "-sock") {
						// Go's HTTP/1 client refuses chunked trailer sections above 4 KiB
						// ("suspiciously long trailer"): a limit of the client, the
						// in-process variants carry the long messages
						continue
					}
					for _, det := range []bool{false, true} {
						if det && (strings.HasPrefix(m.label, "byte-") && !r.Thorough()) {
							continue
						}
						if m.label == "random" && (det != (len(m.s)%2 == 0) || code != sweepCodes[0]) {
							continue
						}
						one(code, m, det)
					}
				}
			}
			if target == "proxy" && !r.Thorough() {
				// Canceled from a back-end is a class of its own for a proxy (it is
				// also what a vanished client looks like): always swept
				for _, m := range base {
					one(1, m, true)
				}
			}
		}
	}

	// the handler touches header / trailer metadata before it fails: at entry
	// (before any reply) or right before returning the status (after the replies)
	preCodes := []uint32{1, 5, 16, 17, 100}
	if r.Thorough() {
		preCodes = allCodes[1:]
	}
	custom := []KV{{K: "x-c05", V: [][]byte{[]byte("v1"), []byte("v 2")}}, {K: "x-c05-bin", V: [][]byte{{0, 0xff, 0xfb, '%'}}}}
	for _, target := range []string{"", "proxy"} {
		for _, v := range c05Variants(r.Thorough()) {
			if target == "proxy" && !r.Thorough() && sockTwin(v.proto) {
				continue
			}
			for _, code := range preCodes {
				if target == "proxy" && code > math.MaxInt32 {
					continue
				}
				for _, op := range []string{"set", "send", "trl"} {
					for _, at := range []string{"entry", "before-return"} {
						if at == "before-return" && v.replies == 0 {
							continue // same point as "entry"
						}
						c := &Case{Kind: "C05", Proto: v.proto, Codec: v.codec, Method: v.method, Class: "metadata-" + op + "-at-" + at, Target: target,
							Script: Script{Code: code, Msg: "50% done ✓", Details: code%2 == 1, Replies: v.replies}}
						if at == "before-return" {
							c.Script.Pre = op
						} else {
							switch op {
							case "set":
								c.Script.Hdr = custom
							case "send":
								c.Script.Hdr, c.Script.SendHdr = custom, true
							default:
								c.Script.Trl = custom
							}
						}
						g.exec(c, c.Class)
					}
				}
			}
		}
	}

	// mux options: small send / receive limits must not affect how a status
	// (long message, details) reaches the client
	long200 := msgIn{repeatTo("a status message of two hundred bytes; ", 200), "200B"}
	for _, opt := range []string{"send64", "send256", "recv64"} {
		for _, target := range []string{"", "proxy"} {
			for _, v := range c05Variants(r.Thorough()) {
				if target == "proxy" && sockTwin(v.proto) {
					continue
				}
				for _, code := range []uint32{0, 5, 16} {
					for _, m := range []msgIn{{"50% done", "pct-middle"}, long200, {repeatTo("1 KiB ü% ", 1023) + "!", "1KiB-escaped"}} {
						for _, det := range []bool{false, true} {
							if code == 0 && (det || m.label != "pct-middle") {
								continue
							}
							c := &Case{Kind: "C05", Proto: v.proto, Codec: v.codec, Method: v.method, Class: "opt-" + opt + "/" + m.label, Target: target, Opt: opt,
								Script: Script{Code: code, Msg: m.s, Details: det, Replies: v.replies}}
							if code == 0 && v.method != "Echo" && v.replies == 0 {
								c.Script.Replies = 2
							}
							g.exec(c, c.Class)
						}
					}
				}
			}
		}
	}

	// HTTP failures under arbitrary request Content-Type / Accept headers:
	// handler errors (routes that reach the handler whatever the media type)
	// and errors the mux raises itself (no codec, no route)
	cts := []string{"-", "application/json", "application/protobuf", "application/json; charset=utf-8", "Application/JSON", "text/plain; charset=utf-8", "image/png", "application/x-www-form-urlencoded", "multipart/form-data; boundary=x", "not a media type", ""}
	accepts := []string{"-", "*/*", "application/*", "application/json", "application/protobuf", "application/protobuf;q=0.5, application/json", "application/json; charset=utf-8", "image/*", "text/html, image/webp", "a/b;;q=x,,", ""}
	for _, target := range []string{"", "proxy"} {
		for _, p := range []string{"http", "http-sock"} {
			if p == "http-sock" && target == "proxy" && !r.Thorough() {
				continue
			}
			for _, rt := range []struct{ route, method string }{{"get", "Echo"}, {"get", "SS"}, {"upload", "UploadU"}, {"post", "Echo"}, {"404", "Echo"}, {"405", "Echo"}, {"deep-path", "Echo"}, {"no-method", "Echo"}} {
				for _, ct := range cts {
					for _, ac := range accepts {
						codes := []uint32{5}
						if rt.route == "get" || rt.route == "upload" {
							codes = []uint32{5, 16}
						}
						for _, code := range codes {
							c := &Case{Kind: "C05http", Proto: p, Codec: "json", Method: rt.method, Class: "http-shape", Target: target, Route: rt.route, ReqCT: ct, Accept: ac,
								Script: Script{Code: code, Msg: "50% done ✓", Details: code == 16}}
							g.exec(c, c.Class)
						}
					}
				}
			}
		}
	}

	// sequences: the failing (or succeeding) request is preceded on the same
	// mux by another client's request with the same Accept value and another
	// Content-Type
	for _, ac := range []string{"text/plain", "text/html, image/webp", "image/*", "application/x-protobuf", "application/grpc", "-", "*/*", "application/json", "application/protobuf"} {
		for _, pre := range []string{"application/json", "application/protobuf", "application/octet-stream", "image/png"} {
			for _, b := range []struct{ route, ct, method string }{{"post", "application/json", "Echo"}, {"post", "application/protobuf", "Echo"}, {"get", "-", "Echo"}, {"get", "application/json", "SS"}, {"upload", "image/png", "UploadU"}, {"404", "application/json", "Echo"}} {
				if b.ct == pre {
					continue
				}
				for _, code := range []uint32{5, 0} {
					if code == 0 && b.route != "post" {
						continue
					}
					c := &Case{Kind: "C05http", Proto: "http", Codec: "json", Method: b.method, Class: "http-sequence", Route: b.route, ReqCT: b.ct, Accept: ac, PreCT: pre,
						Script: Script{Code: code, Msg: "50% done ✓", Details: true, Replies: 1}}
					if code != 0 {
						c.Script.Replies = 0
					}
					g.exec(c, c.Class)
				}
			}
		}
	}

	// gRPC-web (text: base64 chunking): the status after k replies with every
	// message length 0..40, i.e. every residue of the trailer block length
	for _, p := range []string{"grpcweb-text", "grpcweb-text-sock", "grpcweb"} {
		for _, target := range []string{"", "proxy"} {
			if target == "proxy" && p != "grpcweb-text" {
				continue
			}
			for _, k := range []int{0, 1, 2, 3} {
				for n := 0; n <= 40; n++ {
					for _, code := range []uint32{5, 13} {
						if code == 13 && !r.Thorough() && n%2 == 1 {
							continue
						}
						c := &Case{Kind: "C05", Proto: p, Codec: "proto", Method: "SS", Class: "msg-length-sweep", Target: target,
							Script: Script{Code: code, Msg: repeatTo("m", n), Details: n%5 == 0, Replies: k}}
						g.exec(c, c.Class)
					}
				}
			}
		}
	}

	// a small ConnectionTimeoutOption and a handler that stays quiet longer
	// than it before returning its status: the option must not affect how the
	// status reaches the client
	for _, target := range []string{"", "proxy"} {
		for _, v := range []variant{{"ws", "json", "Bidi", 0}, {"ws", "json", "Bidi", 1}, {"ws", "json", "Bidi", 3},
			{"grpc", "proto", "Echo", 0}, {"grpc", "proto", "SS", 1}, {"grpc", "proto", "Bidi", 2}, {"grpc-h2c", "proto", "SS", 1},
			{"grpcweb", "proto", "SS", 0}, {"grpcweb", "proto", "SS", 2}, {"grpcweb-text", "proto", "SS", 1}, {"grpcweb-sock", "proto", "SS", 1}, {"grpcweb-text-sock", "proto", "SS", 2},
			{"http-sock", "json", "Echo", 0}, {"twirp-sock", "json", "Echo", 0}} {
			if target == "proxy" && v.proto != "ws" && v.proto != "grpc" {
				continue
			}
			for _, code := range []uint32{5, 0} {
				if code == 0 && v.proto != "ws" {
					continue
				}
				c := &Case{Kind: "C05", Proto: v.proto, Codec: v.codec, Method: v.method, Class: "quiet-before-status", Target: target, Opt: "conn100ms",
					Script: Script{Code: code, Msg: "50% done", Details: true, Replies: v.replies, PauseMs: 400}}
				if code == 0 && v.replies == 0 {
					c.Script.Replies = 2
				}
				g.exec(c, c.Class)
			}
		}
	}

	// Accept-Encoding as a header of the HTTP / Twirp failure classes: errors
	// before anything was sent, after SendHeader, after streamed replies; the
	// client decodes per the response's Content-Encoding
	for _, target := range []string{"", "proxy"} {
		for _, ae := range []string{"gzip", "identity", "*;q=0", "gzip;q=0", "gzip, deflate, br", "identity;q=0.5, gzip"} {
			for _, v := range []variant{{"http", "json", "Echo", 0}, {"http", "proto", "Echo", 0}, {"http-sock", "json", "Echo", 0}, {"http", "json", "SS", 0}, {"http", "json", "SS", 1}, {"http", "json", "SS", 3},
				{"http-sock", "json", "SS", 2}, {"http", "proto", "SS", 1}, {"http-sock", "proto", "SS", 0}, {"twirp", "json", "Echo", 0}, {"twirp", "proto", "Echo", 0}, {"twirp-sock", "json", "Echo", 0}} {
				if target == "proxy" && strings.HasSuffix(v.proto, "-sock") {
					continue
				}
				for _, pre := range []string{"", "send", "set"} {
					for _, code := range []uint32{5, 0} {
						if code == 0 && pre != "" {
							continue
						}
						c := &Case{Kind: "C05", Proto: v.proto, Codec: v.codec, Method: v.method, Class: "accept-encoding", Target: target, AcceptEnc: ae,
							Script: Script{Code: code, Msg: "50% done ✓ " + repeatTo("compressible ", 300), Details: pre == "", Replies: v.replies}}
						switch pre {
						case "send":
							c.Script.Hdr, c.Script.SendHdr = custom, true
						case "set":
							c.Script.Hdr = custom
						}
						if code == 0 && v.method != "Echo" && v.replies == 0 {
							c.Script.Replies = 2
						}
						g.exec(c, c.Class)
					}
				}
			}
		}
	}

	// protobuf (and octet-stream) reply streams over HTTP that fail after
	// some replies, with Accept absent / protobuf
	for _, target := range []string{"", "proxy"} {
		for _, p := range []string{"http", "http-sock"} {
			if target == "proxy" && p == "http-sock" {
				continue
			}
			for _, ac := range []string{"-", "application/protobuf"} {
				for _, k := range []int{0, 1, 2, 3} {
					for _, code := range []uint32{5, 8, 16} {
						for _, m := range []msgIn{{"50% done", "pct-middle"}, {repeatTo("a longer status message; ", 200), "200B"}} {
							c := &Case{Kind: "C05", Proto: p, Codec: "proto", Method: "SS", Class: "protobuf-stream-then-status", Target: target, Accept: ac,
								Script: Script{Code: code, Msg: m.s, Details: code == 8, Replies: k}}
							g.exec(c, c.Class)
						}
					}
				}
			}
		}
	}

	// WebSocket clients that send control frames (Ping, unsolicited Pong)
	// before / after their data frame
	for _, target := range []string{"", "proxy"} {
		for _, ctl := range []string{"ping-before", "pong-before", "ping-after", "pong-after", "ping-both", "pong-both"} {
			for _, k := range []int{0, 1, 3} {
				for _, code := range []uint32{0, 5, 16} {
					c := &Case{Kind: "C05", Proto: "ws", Codec: "json", Method: "Bidi", Class: "ws-control-frames", Target: target, WSCtl: ctl,
						Script: Script{Code: code, Msg: "50% done", Replies: k}}
					if code == 0 && k == 0 {
						c.Script.Replies = 2
					}
					g.exec(c, c.Class)
				}
			}
		}
	}

	// full-duplex clients: the client-/bidi-streaming client keeps its send
	// side open (no half-close) until it has received the status
	for _, target := range []string{"", "proxy"} {
		for _, pv := range []struct{ proto, codec string }{{"grpc", "proto"}, {"grpc", "json"}, {"grpc-h2c", "proto"}} {
			for _, mv := range []struct {
				method  string
				replies int
			}{{"Bidi", 0}, {"Bidi", 1}, {"Bidi", 3}, {"CS", 0}} {
				holdCodes := []uint32{0, 5}
				if r.Thorough() {
					holdCodes = []uint32{0, 1, 5, 13, 17}
				}
				for _, code := range holdCodes {
					c := &Case{Kind: "C05", Proto: pv.proto, Codec: pv.codec, Method: mv.method, Class: "client-send-side-open", Target: target, Hold: true,
						Script: Script{Code: code, Msg: "50% done", Details: code == 5, Replies: mv.replies}}
					if code == 0 && mv.method == "CS" {
						c.Script.Replies = 1
					}
					g.exec(c, c.Class)
				}
			}
		}
	}

	// deadline already expired when the handler returns its status
	// (raw clients: their own deadline is generous, only the grpc-timeout
	// header is small; the handler blocks until ctx.Done() and then returns)
	for _, p := range []string{"grpc-raw", "grpc-h2c", "grpcweb", "grpcweb-text", "grpcweb-sock", "grpcweb-text-sock"} {
		for _, meth := range []struct {
			m string
			k int
		}{{"Echo", 0}, {"SS", 0}, {"SS", 1}, {"SS", 3}, {"Bidi", 1}} {
			if meth.m == "Bidi" && strings.HasPrefix(p, "grpcweb") {
				continue
			}
			for _, code := range []uint32{1, 4, 5, 13, 17} {
				for _, det := range []bool{false, true} {
					c := &Case{Kind: "C05ctx", Proto: p, Codec: "proto", Method: meth.m, Class: "ctx-done",
						Script: Script{Code: code, Msg: "late status 50% ✓", Details: det, Replies: meth.k, WaitCtx: true}}
					g.exec(c, "ctx-done")
				}
			}
		}
	}

	g.flush()

	// ---- traffic dimensions. The cells above run in a process that has served
	// nothing but uncompressed, mostly small calls. A server process serves
	// every kind of traffic, and what it keeps between calls (package-level
	// pools, per-mux caches, connection state) is shared by all of them.

	// (1) the failing call itself is a compressed call: request messages with
	// grpc-encoding gzip (the replies before the status are then compressed
	// too), on every gRPC-family variant
	gzMsgs := []msgIn{{"plain ascii message", "ascii"}, {"50% done", "pct-middle"}, {"naïve café ✓", "utf8-tail"}, {"é at start, ascii after", "utf8-then-ascii"}, {"ab\ncd", "byte-0a"}, {repeatTo("1 KiB ü% ", 1023) + "!", "1KiB-escaped"}}
	for i, n := 0, r.Pick(2, 12); i < n; i++ {
		gzMsgs = append(gzMsgs, msgIn{randomMsg(rng), "random"})
	}
	for _, target := range []string{"", "proxy"} {
		for _, v := range c05Variants(r.Thorough()) {
			if !gzipCapable(v.proto) || target == "proxy" && !r.Thorough() && (sockTwin(v.proto) || v.replies == 3) {
				continue
			}
			for _, code := range []uint32{0, 5, 13, 17} {
				for mi, m := range gzMsgs {
					if code == 0 && mi > 0 || code == 17 && mi > 1 {
						continue
					}
					c := &Case{Kind: "C05", Proto: v.proto, Codec: v.codec, Method: v.method, Class: "gzip-call/" + m.label, Target: target, Gzip: true,
						Script: Script{Code: code, Msg: m.s, Details: (mi+int(code))%2 == 0 && code != 0, Replies: v.replies, Pad: []int{0, 200, 3000}[mi%3]}}
					if code == 0 && v.method != "Echo" && v.replies == 0 {
						c.Script.Replies = 2
					}
					g.exec(c, c.Class)
				}
			}
		}
	}
	g.flush()

	// (2) earlier traffic: right before the status cell the same mux serves
	// several concurrent calls of other clients - failing calls with long
	// escaped messages, large messages, WebSocket streams, gzip HTTP bodies,
	// compressed gRPC-web and gRPC calls, a mix of all. One phase per kind, so
	// that a finding names the kind that precedes it; between phases two
	// garbage collections empty the sync.Pools of the process (Go drops pooled
	// objects after two collections), the state later phases start from is
	// then what their own kind leaves behind.
	histVariants := []variant{{"grpc", "proto", "Echo", 0}, {"grpc", "json", "SS", 1}, {"grpc-raw", "proto", "SS", 0}, {"grpc-raw", "json", "Echo", 0}, {"grpc-h2c", "proto", "Echo", 0},
		{"grpcweb", "proto", "Echo", 0}, {"grpcweb", "json", "SS", 2}, {"grpcweb-text", "proto", "SS", 1}, {"grpcweb-sock", "proto", "SS", 0}, {"grpcweb-text-sock", "proto", "Echo", 0},
		{"http", "json", "Echo", 0}, {"http", "proto", "SS", 0}, {"http-sock", "json", "Echo", 0}, {"twirp", "json", "Echo", 0}, {"ws", "json", "Bidi", 1}}
	histMsgs := []msgIn{{"plain ascii message", "ascii"}, {"50% done", "pct-middle"}, {"naïve café ✓", "utf8-tail"}, {"ab\ncd then text", "byte-0a"}, {repeatTo("1 KiB ü% ", 1023) + "!", "1KiB-escaped"}}
	for _, kind := range HistoryKinds {
		runtime.GC()
		runtime.GC()
		msgs := append([]msgIn{}, histMsgs...)
		for i, n := 0, r.Pick(1, 6); i < n; i++ {
			msgs = append(msgs, msgIn{randomMsg(rng), "random"})
		}
		for _, target := range []string{"", "proxy"} {
			for _, v := range histVariants {
				if target == "proxy" && !r.Thorough() && sockTwin(v.proto) {
					continue
				}
				for mi, m := range msgs {
					for _, code := range []uint32{5, 13} {
						if !r.Thorough() && (mi+int(code))%2 == 1 && (target == "proxy" || m.label == "ascii") {
							continue
						}
						c := &Case{Kind: "C05", Proto: v.proto, Codec: v.codec, Method: v.method, Class: "after-" + kind + "/" + m.label, Target: target, After: kind,
							Script: Script{Code: code, Msg: m.s, Details: code == 13, Replies: v.replies}}
						g.exec(c, c.Class)
					}
				}
			}
		}
		g.flush()
		if g.histOK[kind] == 0 {
			r.Inconclusive("the earlier traffic of kind " + kind + " never took place as scripted: its cells observed nothing")
		}
	}
	runtime.GC()

	r.Set("parallel_environments", "cases are executed on up to 6 independent environments; outcomes are applied in case-list order")

	r.Assume("expected values are pinned tables (google/rpc/code.proto HTTP mapping, Twirp spec names, larking's documented WebSocket close codes) and the status the harness handler itself returned; decoders are protojson/proto, grpc-go's client, the harness frame parser and percent-decoder")
	r.Assume("status messages are valid UTF-8 without leading/trailing white space (HTTP header transport may trim it); code 0 means the handler returns nil")
	r.Assume("grpc-go cannot parse grpc-status values above 2^31-1: for those codes only the raw-frame clients check the code text")
}
