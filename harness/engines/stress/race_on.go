//go:build race

package stress

const raceEnabled = true
