// Package stress holds the concurrency engines (C12, C13).
package stress

import _ "github.com/anishathalye/porcupine"
