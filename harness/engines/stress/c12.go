package stress

import (
	"bytes"
	"context"
	"fmt"
	"math/rand"
	"net/http"
	"sort"
	"sync"
	"sync/atomic"
	"time"

	"github.com/anishathalye/porcupine"
	"google.golang.org/genproto/googleapis/api/annotations"
	"google.golang.org/grpc"
	"google.golang.org/protobuf/proto"
	"google.golang.org/protobuf/reflect/protoreflect"
	"larking.io/larking"

	"verif/internal/mon"
	"verif/internal/vschema"
	"verif/internal/wire"
)

// ---- history events (client boundary, one monotonic clock)

type opIn struct {
	Kind string // reg | regfail | drop | req
	Svc  int
	Meth int // req: method index
}

type opOut struct {
	OK     bool // reg: accepted; req: served; drop: was registered
	Status int
}

type histOp struct {
	Client    int
	In        opIn
	Out       opOut
	Call, Ret int64
}

type recorder struct {
	mu    sync.Mutex
	ops   []histOp
	start time.Time
}

func (r *recorder) now() int64 { return int64(time.Since(r.start)) }

func (r *recorder) add(o histOp) {
	r.mu.Lock()
	r.ops = append(r.ops, o)
	r.mu.Unlock()
}

// visibility model per service: registered bool.
var visModel = porcupine.Model{
	Partition: func(history []porcupine.Operation) [][]porcupine.Operation {
		by := map[int][]porcupine.Operation{}
		var keys []int
		for _, op := range history {
			k := op.Input.(opIn).Svc
			if _, ok := by[k]; !ok {
				keys = append(keys, k)
			}
			by[k] = append(by[k], op)
		}
		sort.Ints(keys)
		var out [][]porcupine.Operation
		for _, k := range keys {
			out = append(out, by[k])
		}
		return out
	},
	Init: func() interface{} { return false },
	Step: func(state, input, output interface{}) (bool, interface{}) {
		st := state.(bool)
		in := input.(opIn)
		out := output.(opOut)
		switch in.Kind {
		case "reg":
			if out.OK {
				return true, true
			}
			return true, st
		case "regfail":
			// must fail and change nothing
			return !out.OK, st
		case "drop":
			return out.OK == st, false
		case "req":
			return out.OK == st, st
		}
		return false, st
	},
	Equal: func(a, b interface{}) bool { return a.(bool) == b.(bool) },
	DescribeOperation: func(input, output interface{}) string {
		return fmt.Sprintf("%+v -> %+v", input, output)
	},
}

// ---- workload

const methodsPerSvc = 40

type svcPlan struct {
	idx  int
	name string
	fail bool // last method carries an invalid rule
	// next: the later service through whose /alt/{b}/s<next>/... routes this
	// service's variable-prefix binding passes (see buildHistory)
	next int
	sd   protoreflect.ServiceDescriptor
}

type echoImpl struct{ served *int64 }

func (e echoImpl) Unary(ctx context.Context, md protoreflect.MethodDescriptor, in proto.Message) (proto.Message, error) {
	atomic.AddInt64(e.served, 1)
	out := vschema.NewMsg(md.Output())
	out.ProtoReflect().Set(md.Output().Fields().ByName("method"), protoreflect.ValueOfString(vschema.FullMethod(md)))
	return out, nil
}

func (e echoImpl) Stream(md protoreflect.MethodDescriptor, ss grpc.ServerStream) error {
	// the upper half of every service is server-streaming: one request,
	// one reply
	in := vschema.NewMsg(md.Input())
	if err := ss.RecvMsg(in); err != nil {
		return err
	}
	atomic.AddInt64(e.served, 1)
	out := vschema.NewMsg(md.Output())
	out.ProtoReflect().Set(md.Output().Fields().ByName("method"), protoreflect.ValueOfString(vschema.FullMethod(md)))
	return ss.SendMsg(out)
}

func getRule(p string) *annotations.HttpRule {
	return &annotations.HttpRule{Pattern: &annotations.HttpRule_Get{Get: p}}
}

var histSeq int64

type history struct {
	id        int64
	pkg       string
	plans     []*svcPlan
	mux       *larking.Mux
	rec       *recorder
	served    int64
	snaps     []snapRec
	snapMu    sync.Mutex
	failReg   int64
	pfxProbes int64
}

type snapRec struct {
	snap interface{}
	fp   string
	op   string
}

func buildHistory(nGood, nFail int) (*history, error) {
	h := &history{id: atomic.AddInt64(&histSeq, 1)}
	h.pkg = fmt.Sprintf("vf.h%d", h.id)
	f := &vschema.File{Path: fmt.Sprintf("vf/h%d.proto", h.id), Pkg: h.pkg}
	// service 0 is the baseline registered before the start
	total := 1 + nGood + nFail
	for s := 0; s < total; s++ {
		p := &svcPlan{idx: s, name: fmt.Sprintf("S%d", s), fail: s > nGood}
		if s > 0 {
			p.next = s%(total-1) + 1
		}
		svc := vschema.Service{Name: p.name}
		for m := 0; m < methodsPerSvc; m++ {
			rule := getRule(fmt.Sprintf("/h%d/s%d/m%d/{a}", h.id, s, m))
			rule.AdditionalBindings = []*annotations.HttpRule{getRule(fmt.Sprintf("/h%d/alt/{b}/s%d/m%d", h.id, s, m))}
			// prefix bindings: every later service also binds a verb on a
			// path that another service's routes only pass through, i.e. on
			// a trie node that may already exist in the published snapshot
			// without binding anything: a literal prefix of a baseline route
			// (Me1) and a prefix through a variable of a route of another
			// later service, registered before or after this one (Me2)
			if s > 0 && m == 1 {
				rule.AdditionalBindings = append(rule.AdditionalBindings, getRule(fmt.Sprintf("/h%d/s0/m%d", h.id, s)))
			}
			if s > 0 && m == 2 {
				rule.AdditionalBindings = append(rule.AdditionalBindings, getRule(fmt.Sprintf("/h%d/alt/{b}/s%d", h.id, p.next)))
			}
			if p.fail && m == methodsPerSvc-1 {
				rule = getRule(fmt.Sprintf("/h%d/s%d/m%d/{no_such_field}", h.id, s, m))
			}
			// unary and streaming methods in one service (a service must
			// become visible as a whole, whatever its methods' kinds)
			svc.Methods = append(svc.Methods, vschema.Method{Name: fmt.Sprintf("Me%d", m), In: "vf.Req", Out: "vf.Rsp", Rule: rule, SS: m >= methodsPerSvc/2})
		}
		f.Services = append(f.Services, svc)
		h.plans = append(h.plans, p)
	}
	fd, err := f.Build()
	if err != nil {
		return nil, err
	}
	for _, p := range h.plans {
		p.sd = fd.Services().ByName(protoreflect.Name(p.name))
	}
	reg, err := vschema.Registry(fd)
	if err != nil {
		return nil, err
	}
	h.mux, err = larking.NewMux(larking.FilesOption(reg))
	if err != nil {
		return nil, err
	}
	h.rec = &recorder{start: time.Now()}
	return h, nil
}

func (h *history) register(p *svcPlan) error {
	return larking.VerifRegisterService(h.mux, vschema.ServiceDesc(p.sd, echoImpl{&h.served}), struct{}{})
}

func (h *history) capture(op string) {
	s := larking.VerifSnapshot(h.mux)
	fp := larking.VerifFingerprint(s)
	h.snapMu.Lock()
	h.snaps = append(h.snaps, snapRec{s, fp, op})
	h.snapMu.Unlock()
}

// request serves one request for (svc, method) over HTTP or gRPC in-process
// and classifies the outcome.
func (h *history) request(svc, meth int, proto int) (served bool, code int, torn bool, pi *mon.PanicInfo, wedged bool) {
	var resp *wire.Resp
	switch proto {
	case 0:
		resp = wire.Serve(h.mux, wire.BodyRequest("GET", fmt.Sprintf("/h%d/s%d/m%d/x", h.id, svc, meth), "", nil, nil))
	case 1:
		resp = wire.Serve(h.mux, wire.BodyRequest("GET", fmt.Sprintf("/h%d/alt/y/s%d/m%d", h.id, svc, meth), "", nil, nil))
	case 3: // prefix binding of Me1: a literal prefix of a baseline route
		resp = wire.Serve(h.mux, wire.BodyRequest("GET", fmt.Sprintf("/h%d/s0/m%d", h.id, svc), "", nil, nil))
	case 4: // prefix binding of Me2: prefix (through a variable) of another later service's routes
		resp = wire.Serve(h.mux, wire.BodyRequest("GET", fmt.Sprintf("/h%d/alt/y/s%d", h.id, h.plans[svc].next), "", nil, nil))
	default:
		full := fmt.Sprintf("/%s.S%d/Me%d", h.pkg, svc, meth)
		resp = wire.Serve(h.mux, wire.GRPCRequest(full, nil, bytes.NewReader(wire.Frame(nil, false))))
		if resp.Wedged || resp.Panic != nil {
			return false, 0, false, resp.Panic, resp.Wedged
		}
		if c, _, _, ok := resp.GRPCStatus(); ok {
			return c == 0, c, false, nil, false
		}
		return false, resp.Code, false, nil, false
	}
	if resp.Wedged || resp.Panic != nil {
		return false, 0, false, resp.Panic, resp.Wedged
	}
	return resp.Code == http.StatusOK, resp.Code, resp.Code == http.StatusNotImplemented, nil, false
}

type c12stats struct {
	overlap int64
}

func runHistory(r *mon.Run, rng *rand.Rand, readers, writers int, single bool) {
	nGood, nFail := 5+rng.Intn(4), 1+rng.Intn(2)
	h, err := buildHistory(nGood, nFail)
	if err != nil {
		r.Inconclusive("harness: " + err.Error())
		return
	}
	if err := h.register(h.plans[0]); err != nil {
		r.Inconclusive("baseline registration failed: " + err.Error())
		return
	}
	h.capture("baseline")
	var stop int32
	var wg sync.WaitGroup
	viol := func(key, what string) {
		r.Violate(key, what, map[string]any{"history": h.id, "readers": readers, "writers": writers, "good": nGood, "fail": nFail})
	}
	// readers
	for c := 0; c < readers; c++ {
		wg.Add(1)
		seed := rng.Int63()
		go func(c int) {
			defer wg.Done()
			lr := rand.New(rand.NewSource(seed))
			flip := 0
			for atomic.LoadInt32(&stop) == 0 {
				svc := lr.Intn(len(h.plans))
				meth := 0
				if flip%2 == 1 {
					meth = methodsPerSvc - 1
				}
				if lr.Intn(5) == 0 {
					meth = lr.Intn(methodsPerSvc)
				}
				flip++
				pr := lr.Intn(3)
				if svc > 0 && lr.Intn(4) == 0 {
					pr = 3 + lr.Intn(2)
					meth = pr - 2
				}
				p := h.plans[svc]
				call := h.rec.now()
				served, code, torn, pi, wedged := h.request(svc, meth, pr)
				ret := h.rec.now()
				if wedged {
					r.Inconclusive("request did not return within the watchdog")
					return
				}
				if pi != nil {
					viol(pi.Key(), "request panicked during concurrent registration: "+pi.Value)
					return
				}
				if pr >= 3 {
					atomic.AddInt64(&h.pfxProbes, 1)
					kind := []string{"literal-prefix-of-baseline-route", "variable-prefix-of-later-service-route"}[pr-3]
					out := "unrouted"
					if served {
						out = "served"
					}
					r.Distinct(fmt.Sprintf("prefix-binding/%s/fail=%v/%s", kind, p.fail, out))
				}
				switch {
				case pr >= 3 && p.fail && code != http.StatusNotFound:
					viol("failed-registration-route-visible:prefix-of-existing-route", fmt.Sprintf("GET on a path where only service %d binds a verb (other services' routes pass through it) answered %d, but that service's registration is refused", svc, code))
				case pr >= 3 && torn:
					viol("route-without-handler:prefix-of-existing-route", fmt.Sprintf("501 for the verb service %d binds on a prefix of another service's route: the route is visible without its handler (registration work in progress observable)", svc))
				case svc == 0 && !served:
					viol("baseline-request-failed-during-registration", fmt.Sprintf("request for an already registered method answered %d while registrations were running", code))
				case p.fail && served:
					viol("failed-registration-route-served", fmt.Sprintf("method %d of a service whose registration fails was served", meth))
				case torn:
					viol("route-without-handler", fmt.Sprintf("501 for service %d method %d: route visible but handler list empty (never dropped)", svc, meth))
				}
				h.rec.add(histOp{Client: c, In: opIn{"req", svc, meth}, Out: opOut{served, code}, Call: call, Ret: ret})
			}
		}(c)
	}
	// writers
	var ww sync.WaitGroup
	order := rng.Perm(len(h.plans) - 1)
	for w := 0; w < writers; w++ {
		ww.Add(1)
		seed := rng.Int63()
		go func(w int) {
			defer ww.Done()
			lr := rand.New(rand.NewSource(seed))
			for i, oi := range order {
				if i%writers != w {
					continue
				}
				p := h.plans[oi+1]
				time.Sleep(time.Duration(lr.Intn(300)) * time.Microsecond)
				var before interface{}
				var fpBefore string
				if single {
					before = larking.VerifSnapshot(h.mux)
					fpBefore = larking.VerifFingerprint(before)
				}
				kind := "reg"
				if p.fail {
					kind = "regfail"
				}
				call := h.rec.now()
				var rerr error
				pi := mon.Catch(func() { rerr = h.register(p) })
				ret := h.rec.now()
				if pi != nil {
					viol(pi.Key(), "registration panicked: "+pi.Value)
					return
				}
				h.rec.add(histOp{Client: 1000 + w, In: opIn{kind, p.idx, 0}, Out: opOut{OK: rerr == nil}, Call: call, Ret: ret})
				if p.fail {
					atomic.AddInt64(&h.failReg, 1)
					if rerr == nil {
						viol("invalid-service-accepted", "a service whose last method has an unknown field path was accepted")
					}
					if single {
						after := larking.VerifSnapshot(h.mux)
						if !larking.VerifSameSnapshot(before, after) {
							viol("failed-registration-published-state", "failed registration replaced the published snapshot")
						} else if larking.VerifFingerprint(after) != fpBefore {
							viol("failed-registration-mutated-state", "failed registration mutated the published snapshot in place")
						}
					}
				}
				h.capture(fmt.Sprintf("%s(S%d)", kind, p.idx))
			}
		}(w)
	}
	ww.Wait()
	// let readers observe the final state for a moment
	time.Sleep(2 * time.Millisecond)
	atomic.StoreInt32(&stop, 1)
	wg.Wait()

	// monitor 2: snapshot immutability
	h.snapMu.Lock()
	snaps := h.snaps
	h.snapMu.Unlock()
	for _, s := range snaps {
		r.Count("snapshots_refingerprinted", 1)
		if fp := larking.VerifFingerprint(s.snap); fp != s.fp {
			viol("published-snapshot-mutated-in-place", fmt.Sprintf("snapshot captured after %s changed afterwards", s.op))
			break
		}
	}
	// final state: every good service fully served, failing ones not at all
	for _, p := range h.plans {
		for _, m := range []int{0, methodsPerSvc / 2, methodsPerSvc - 1} {
			served, code, _, _, _ := h.request(p.idx, m, 0)
			if served == p.fail {
				viol("final-state-wrong", fmt.Sprintf("after quiescence service %d (fail=%v) method %d answered %d", p.idx, p.fail, m, code))
			}
		}
		if p.idx > 0 {
			for pr := 3; pr <= 4; pr++ {
				served, code, _, _, _ := h.request(p.idx, pr-2, pr)
				if served == p.fail || (p.fail && code != http.StatusNotFound) {
					viol("final-state-wrong:prefix-of-existing-route", fmt.Sprintf("after quiescence the verb service %d (fail=%v) binds on a prefix of another service's route answered %d", p.idx, p.fail, code))
				}
			}
		}
	}

	// monitor 3: linearizability of visibility
	h.rec.mu.Lock()
	ops := h.rec.ops
	h.rec.mu.Unlock()
	var pops []porcupine.Operation
	type win struct{ a, b int64 }
	regWin := map[int]win{}
	for _, o := range ops {
		if o.In.Kind != "req" {
			regWin[o.In.Svc] = win{o.Call, o.Ret}
		}
	}
	overlap := 0
	for _, o := range ops {
		if o.In.Svc == 0 {
			continue // baseline: checked directly
		}
		pops = append(pops, porcupine.Operation{ClientId: o.Client, Input: o.In, Call: o.Call, Output: o.Out, Return: o.Ret})
		if o.In.Kind == "req" {
			if w, ok := regWin[o.In.Svc]; ok && o.Call < w.b && o.Ret > w.a {
				overlap++
			}
		}
	}
	r.Count("probes_of_verbs_bound_on_prefixes_of_other_services_routes", int(atomic.LoadInt64(&h.pfxProbes)))
	r.Count("history_ops", len(ops))
	r.Count("requests_overlapping_a_registration_window", overlap)
	res, info := porcupine.CheckOperationsVerbose(visModel, pops, 120*time.Second)
	r.Count("porcupine_partitions_checked", len(h.plans)-1)
	switch res {
	case porcupine.Ok:
		r.Count("histories_linearizable", 1)
	case porcupine.Unknown:
		r.Inconclusive("porcupine timed out")
	case porcupine.Illegal:
		_ = info
		viol("visibility-not-linearizable", "requests observed a service's routes becoming visible non-atomically (history is not linearizable against the per-service registered/unregistered model): "+describeIllegal(ops))
	}
	r.Eval(1)
	cls := "overlap0"
	switch {
	case overlap > 100:
		cls = "overlap>100"
	case overlap > 10:
		cls = "overlap>10"
	case overlap > 0:
		cls = "overlap>0"
	}
	r.Distinct(fmt.Sprintf("readers=%d/writers=%d/good=%d/fail=%d/%s", readers, writers, nGood, nFail, cls))
}

// describeIllegal finds a short witness: a served request that returned
// before an unrouted request for the same service was called.
func describeIllegal(ops []histOp) string {
	by := map[int][]histOp{}
	for _, o := range ops {
		if o.In.Kind == "req" {
			by[o.In.Svc] = append(by[o.In.Svc], o)
		}
	}
	for svc, l := range by {
		for _, a := range l {
			if !a.Out.OK {
				continue
			}
			for _, b := range l {
				if !b.Out.OK && b.Call > a.Ret {
					return fmt.Sprintf("service %d: method %d served at [%d,%d]ns, later method %d answered %d at [%d,%d]ns", svc, a.In.Meth, a.Call, a.Ret, b.In.Meth, b.Out.Status, b.Call, b.Ret)
				}
			}
		}
	}
	return "(no two-request witness found)"
}

// RunC12 is the registration-atomicity check (built with -race).
func RunC12(r *mon.Run) {
	r.Rule = "seeded stress histories: 2-4 writers registering fresh 40-method services (some whose last method is invalid, so the whole registration must fail) while 8-16 readers request the first/last/random method of every planned service over two HTTP bindings and in-process gRPC. Monitors: (1) Go race detector (reports with a larking frame), (2) every snapshot captured after an operation is re-fingerprinted at the end; failed registrations keep pointer and fingerprint (single-writer histories), (3) porcupine linearizability of (reg, regfail, req) per service against a registered/unregistered model, plus direct assertions (baseline always served, failed service never served, no route without handler). distinct = (readers, writers, #good, #failing services, overlap class); requests overlapping a registration window are counted. Prefix-binding dimension: every later service (accepted or refused) also binds a verb on a path that another service's routes only pass through (literal prefix of a baseline route; prefix through a variable of another later service's route), probed by the readers under the same assertions (keys ...:prefix-of-existing-route; distinct prefix-binding/<kind>/fail/<outcome>); the conn lane's refused back-ends do the same below the local baseline and below proxied routes. Cancelled-waiter dimension: 1-2 RegisterConn/DropConn calls whose context is cancelled or expires while they wait behind a RegisterConn held open at a reflection round trip; afterwards state must match the calls' return values and a later RegisterService/RegisterConn/DropConn (PRNG order) must return (10 s watchdog; violation only with a goroutine dump showing the caller parked inside larking, else inconclusive); distinct cancelled-waiter/<waiter kinds>/<cancel|deadline>/<held request>"
	r.Floor = 3
	rng := r.Rand("c12")
	n := r.Pick(24, 700)
	for i := 0; i < n; i++ {
		readers := 8 + rng.Intn(9)
		writers := 2 + rng.Intn(3)
		single := i%4 == 0
		if single {
			writers = 1
		}
		runHistory(r, rng, readers, writers, single)
		if r.Violations() > 8 {
			break
		}
	}
	connLane(r)
	raceReports(r)
	r.Assume("schedules are those the Go scheduler produced (counted, not enumerated)")
	r.Sample(map[string]any{"history": "writers register S1..Sk (40 methods each, last ones invalid) concurrently with readers requesting GET /h<id>/s<k>/m<0|39>/x, GET /h<id>/alt/y/s<k>/m<i> and gRPC /vf.h<id>.S<k>/Me<i>", "methods_per_service": methodsPerSvc})
	if r.Counter("requests_overlapping_a_registration_window") == 0 {
		r.Inconclusive("no request overlapped a registration window")
	}
}
