package stress

import (
	"bytes"
	"context"
	"encoding/json"
	"fmt"
	"google.golang.org/genproto/googleapis/api/annotations"
	"math/rand"
	"net/http"
	"strings"
	"sync"
	"sync/atomic"
	"time"

	"github.com/anishathalye/porcupine"
	"google.golang.org/grpc"
	"google.golang.org/grpc/codes"
	"google.golang.org/grpc/status"
	"google.golang.org/protobuf/proto"
	"google.golang.org/protobuf/reflect/protoreflect"
	"larking.io/larking"

	"verif/internal/backend"
	"verif/internal/mon"
	"verif/internal/vschema"
	"verif/internal/wire"
)

// conn lane of C12: RegisterConn / DropConn of two back-ends exposing the
// same service (reflection artificially slow, i.e. the writer holds the mux
// lock for milliseconds) concurrent with requests for that service and for a
// locally registered baseline service.

type taggedImpl struct{ tag string }

func (t taggedImpl) Unary(ctx context.Context, md protoreflect.MethodDescriptor, in proto.Message) (proto.Message, error) {
	out := vschema.NewMsg(md.Output())
	o := out.ProtoReflect()
	o.Set(o.Descriptor().Fields().ByName("tag"), protoreflect.ValueOfString(t.tag))
	o.Set(o.Descriptor().Fields().ByName("method"), protoreflect.ValueOfString(vschema.FullMethod(md)))
	return out, nil
}

func (t taggedImpl) Stream(md protoreflect.MethodDescriptor, ss grpc.ServerStream) error {
	return status.Error(codes.Unimplemented, "no streams")
}

const connMethods = 12

type connEnv struct {
	sdX   protoreflect.ServiceDescriptor
	sdL   protoreflect.ServiceDescriptor
	fdL   protoreflect.FileDescriptor
	backs []*backend.Backend
	// bad exposes a service whose LAST method carries a rule that larking
	// must refuse: its registration fails after most of the work is done
	bad *backend.Backend
	// sw serves service Z. It is registered (valid descriptors) before a
	// history starts; during the history its reflection hands out a newer
	// revision whose last method is invalid, so re-registering the SAME
	// connection is refused: Z must keep being served throughout.
	sw              *backend.Backend
	fdZgood, fdZbad protoreflect.FileDescriptor
	gated           *backend.Backend // reflection answers only when released
}

func newConnEnv() (*connEnv, error) {
	e := &connEnv{}
	fx := &vschema.File{Path: "vf/cx.proto", Pkg: "vf.cx"}
	svc := vschema.Service{Name: "X"}
	for m := 0; m < connMethods; m++ {
		svc.Methods = append(svc.Methods, vschema.Method{Name: fmt.Sprintf("Me%d", m), In: "vf.Req", Out: "vf.Rsp", Rule: getRule(fmt.Sprintf("/cx/m%d/{a}", m))})
	}
	fx.Services = []vschema.Service{svc}
	fdX, err := fx.Build()
	if err != nil {
		return nil, err
	}
	e.sdX = fdX.Services().ByName("X")
	fl := &vschema.File{Path: "vf/cl.proto", Pkg: "vf.cl", Services: []vschema.Service{{Name: "L", Methods: []vschema.Method{
		{Name: "Base", In: "vf.Req", Out: "vf.Rsp", Rule: getRule("/cl/base/{a}")},
	}}}}
	if e.fdL, err = fl.Build(); err != nil {
		return nil, err
	}
	e.sdL = e.fdL.Services().ByName("L")
	for _, tag := range []string{"b1", "b2"} {
		b, err := backend.StartDelayed(tag, true, 1500*time.Microsecond, backend.Svc{SD: e.sdX, Impl: taggedImpl{tag}})
		if err != nil {
			e.Close()
			return nil, err
		}
		e.backs = append(e.backs, b)
	}
	fy := &vschema.File{Path: "vf/cy.proto", Pkg: "vf.cy"}
	svcY := vschema.Service{Name: "Y"}
	for m := 0; m < 6; m++ {
		svcY.Methods = append(svcY.Methods, vschema.Method{Name: fmt.Sprintf("Me%d", m), In: "vf.Req", Out: "vf.Rsp", Rule: getRule(fmt.Sprintf("/cy/m%d/{a}", m))})
	}
	// /cx/m0/{a}/y hangs below nodes the live X routes own
	svcY.Methods = append(svcY.Methods, vschema.Method{Name: "Deep", In: "vf.Req", Out: "vf.Rsp", Rule: getRule("/cx/m0/{a}/y")})
	// verbs bound on paths that live routes (the local baseline, X) only pass
	// through: nodes that exist in the published trie without binding anything
	svcY.Methods = append(svcY.Methods, vschema.Method{Name: "PfxLocal", In: "vf.Req", Out: "vf.Rsp", Rule: getRule("/cl/base")})
	svcY.Methods = append(svcY.Methods, vschema.Method{Name: "PfxConn", In: "vf.Req", Out: "vf.Rsp", Rule: getRule("/cx/m0")})
	svcY.Methods = append(svcY.Methods, vschema.Method{Name: "Bad", In: "vf.Req", Out: "vf.Rsp", Rule: getRule("/cy/bad/{no_such_field}")})
	fy.Services = []vschema.Service{svcY}
	fdY, err := fy.Build()
	if err != nil {
		e.Close()
		return nil, err
	}
	if e.bad, err = backend.StartDelayed("bad", true, 500*time.Microsecond, backend.Svc{SD: fdY.Services().ByName("Y"), Impl: taggedImpl{"bad"}}); err != nil {
		e.Close()
		return nil, err
	}
	mkZ := func(bad bool) (protoreflect.FileDescriptor, error) {
		fz := &vschema.File{Path: "vf/cz.proto", Pkg: "vf.cz"}
		svcZ := vschema.Service{Name: "Z"}
		for m := 0; m < 6; m++ {
			svcZ.Methods = append(svcZ.Methods, vschema.Method{Name: fmt.Sprintf("Me%d", m), In: "vf.Req", Out: "vf.Rsp", Rule: getRule(fmt.Sprintf("/cz/m%d/{a}", m))})
		}
		last := vschema.Method{Name: "Last", In: "vf.Req", Out: "vf.Rsp", Rule: getRule("/cz/last/{a}")}
		if bad {
			// the newer revision: one more route on the first method, and a
			// last method that larking must refuse
			svcZ.Methods[0].Rule = &annotations.HttpRule{Pattern: &annotations.HttpRule_Get{Get: "/cz/m0/{a}"}, AdditionalBindings: []*annotations.HttpRule{getRule("/cz/v2/m0/{a}"), getRule("/cz/m1")}}
			last.Rule = getRule("/cz/last/{no_such_field}")
		}
		svcZ.Methods = append(svcZ.Methods, last)
		fz.Services = []vschema.Service{svcZ}
		return fz.Build()
	}
	if e.fdZgood, err = mkZ(false); err != nil {
		e.Close()
		return nil, err
	}
	if e.fdZbad, err = mkZ(true); err != nil {
		e.Close()
		return nil, err
	}
	if e.sw, err = backend.StartDelayed("sw", true, 300*time.Microsecond, backend.Svc{SD: e.fdZgood.Services().ByName("Z"), Impl: taggedImpl{"sw"}}); err != nil {
		e.Close()
		return nil, err
	}
	if e.gated, err = backend.Start("gated", true, backend.Svc{SD: fdY.Services().ByName("Y"), Impl: taggedImpl{"gated"}}); err != nil {
		e.Close()
		return nil, err
	}
	return e, nil
}

func (e *connEnv) Close() {
	for _, b := range e.backs {
		b.Close()
	}
	for _, b := range []*backend.Backend{e.bad, e.sw, e.gated} {
		if b != nil {
			b.Close()
		}
	}
}

type connIn struct {
	Kind string // regconn | dropconn | req
	Conn int
	Meth int
}

type connOut struct {
	OK  bool   // regconn: nil error; dropconn: returned true; req: served
	Tag string // req: answering backend
}

var connModel = porcupine.Model{
	Init: func() interface{} { return 0 },
	Step: func(state, input, output interface{}) (bool, interface{}) {
		mask := state.(int)
		in := input.(connIn)
		out := output.(connOut)
		bit := 1 << uint(in.Conn)
		switch in.Kind {
		case "regconn":
			if out.OK {
				return true, mask | bit
			}
			return true, mask
		case "dropconn":
			return out.OK == (mask&bit != 0), mask &^ bit
		case "req":
			if !out.OK {
				return mask == 0, mask
			}
			idx := 0
			if out.Tag == "b2" {
				idx = 1
			}
			return mask&(1<<uint(idx)) != 0, mask
		}
		return false, mask
	},
	Equal: func(a, b interface{}) bool { return a.(int) == b.(int) },
	DescribeOperation: func(input, output interface{}) string {
		return fmt.Sprintf("%+v -> %+v", input, output)
	},
}

var refusedProbes, refreshProbes, prefixProbes int64

var longQuery = func() string {
	var sb strings.Builder
	for i := 0; i < 400; i++ {
		if i > 0 {
			sb.WriteByte('&')
		}
		fmt.Fprintf(&sb, "rs=v%d", i)
	}
	return sb.String()
}()

func runConnHistory(r *mon.Run, e *connEnv, rng *rand.Rand, readers, writers int) {
	// extra local services registered by a third writer while the
	// connection writers run: a RegisterConn that works on a stale clone
	// would silently undo them (lost update)
	hid := atomic.AddInt64(&histSeq, 1)
	fx := &vschema.File{Path: fmt.Sprintf("vf/cxl%d.proto", hid), Pkg: fmt.Sprintf("vf.cxl%d", hid)}
	const nExtra = 3
	for i := 0; i < nExtra; i++ {
		fx.Services = append(fx.Services, vschema.Service{Name: fmt.Sprintf("E%d", i), Methods: []vschema.Method{
			{Name: "Get", In: "vf.Req", Out: "vf.Rsp", Rule: getRule(fmt.Sprintf("/cxl%d/e%d/{a}", hid, i))},
		}})
	}
	fdX, err := fx.Build()
	if err != nil {
		r.Inconclusive("harness: " + err.Error())
		return
	}
	reg, err := vschema.Registry(e.fdL, fdX)
	if err != nil {
		r.Inconclusive("harness: " + err.Error())
		return
	}
	mux, err := larking.NewMux(larking.FilesOption(reg))
	if err != nil {
		r.Inconclusive("harness: " + err.Error())
		return
	}
	if err := larking.VerifRegisterService(mux, vschema.ServiceDesc(e.sdL, taggedImpl{"local"}), struct{}{}); err != nil {
		r.Inconclusive("baseline registration: " + err.Error())
		return
	}
	e.sw.SetFiles(e.fdZgood)
	{
		ctx, cancel := context.WithTimeout(context.Background(), 20*time.Second)
		err := mux.RegisterConn(ctx, e.sw.CC)
		cancel()
		if err != nil {
			r.Inconclusive("registration of the switchable back-end: " + err.Error())
			return
		}
	}
	e.sw.SetFiles(e.fdZbad)
	defer e.sw.SetFiles(e.fdZgood)
	rec := &recorder{start: time.Now()}
	type cop struct {
		c    int
		in   connIn
		out  connOut
		a, b int64
	}
	var mu sync.Mutex
	var ops []cop
	add := func(o cop) { mu.Lock(); ops = append(ops, o); mu.Unlock() }
	var script []string
	var smu sync.Mutex
	viol := func(key, what string) {
		smu.Lock()
		sc := append([]string(nil), script...)
		smu.Unlock()
		r.Violate(key, what, map[string]any{"ops_so_far": sc, "readers": readers, "writers": writers})
	}
	var snaps []snapRec
	var snapMu sync.Mutex
	capture := func(op string) {
		s := larking.VerifSnapshot(mux)
		fp := larking.VerifFingerprint(s)
		snapMu.Lock()
		snaps = append(snaps, snapRec{s, fp, op})
		snapMu.Unlock()
	}
	capture("baseline")

	var stop int32
	var wg sync.WaitGroup
	for c := 0; c < readers; c++ {
		wg.Add(1)
		seed := rng.Int63()
		go func(c int) {
			defer wg.Done()
			lr := rand.New(rand.NewSource(seed))
			flip := 0
			for atomic.LoadInt32(&stop) == 0 {
				if lr.Intn(4) == 0 {
					resp := wire.Serve(mux, wire.BodyRequest("GET", "/cl/base/x", "", nil, nil))
					if resp.Panic != nil {
						viol(resp.Panic.Key(), "baseline request panicked: "+resp.Panic.Value)
						return
					}
					if resp.Code != 200 {
						viol("baseline-request-failed-during-conn-registration", fmt.Sprintf("request for the local baseline method answered %d during RegisterConn/DropConn", resp.Code))
					}
					continue
				}
				if lr.Intn(6) == 0 {
					// Z stays registered: the refused refresh of its
					// connection must not be observable
					path := []string{"/cz/m0/v", "/cz/m5/v", "/cz/last/v"}[lr.Intn(3)]
					resp := wire.Serve(mux, wire.BodyRequest("GET", path, "", nil, nil))
					atomic.AddInt64(&refreshProbes, 1)
					if resp.Panic != nil {
						viol(resp.Panic.Key(), "request panicked: "+resp.Panic.Value)
						return
					}
					if resp.Code != http.StatusOK || !strings.Contains(string(resp.Body), `"sw"`) {
						viol("registered-service-disturbed-by-refused-refresh", fmt.Sprintf("GET %s answered %d %.100q although its connection stays registered (only a refresh with invalid descriptors was refused)", path, resp.Code, resp.Body))
					}
					if r2 := wire.Serve(mux, wire.BodyRequest("GET", "/cz/v2/m0/v", "", nil, nil)); r2.Code != http.StatusNotFound {
						viol("route-of-refused-registration-visible", fmt.Sprintf("GET /cz/v2/m0/v (declared only by the refused revision) answered %d", r2.Code))
					}
					atomic.AddInt64(&prefixProbes, 1)
					if r2 := wire.Serve(mux, wire.BodyRequest("GET", "/cz/m1", "", nil, nil)); r2.Code != http.StatusNotFound {
						viol("route-of-refused-registration-visible:prefix-of-existing-route", fmt.Sprintf("GET /cz/m1 (bound only by the refused revision, on a node the registered revision's /cz/m1/{a} passes through) answered %d", r2.Code))
					}
					continue
				}
				if lr.Intn(5) == 0 {
					// routes of the back-end whose registration is refused
					// must never be visible, not even while it is being refused
					path := []string{"/cy/m0/v", "/cy/m5/v", "/cx/m0/v/y", "/vf.cy.Y/Me0", "/cl/base", "/cx/m0"}[lr.Intn(6)]
					if path == "/cl/base" || path == "/cx/m0" {
						// bound only by the refused back-end, on a node that
						// routes registered by others pass through
						atomic.AddInt64(&prefixProbes, 1)
						resp := wire.Serve(mux, wire.BodyRequest("GET", path, "", nil, nil))
						if resp.Panic != nil {
							viol(resp.Panic.Key(), "request panicked: "+resp.Panic.Value)
							return
						}
						if resp.Code != http.StatusNotFound {
							viol("route-of-refused-registration-visible:prefix-of-existing-route", fmt.Sprintf("GET %s answered %d although the only registration that binds a verb there was refused (other services' routes merely pass through that path; body %.80q)", path, resp.Code, resp.Body))
						}
						continue
					}
					verb := "GET"
					if strings.HasPrefix(path, "/vf.") {
						verb = "POST"
					}
					resp := wire.Serve(mux, wire.BodyRequest(verb, path, "", nil, nil))
					atomic.AddInt64(&refusedProbes, 1)
					if resp.Panic != nil {
						viol(resp.Panic.Key(), "request panicked: "+resp.Panic.Value)
						return
					}
					if resp.Code != http.StatusNotFound {
						viol("route-of-refused-registration-visible", fmt.Sprintf("%s %s answered %d although the only registration that declares it was refused (body %.80q)", verb, path, resp.Code, resp.Body))
					}
					continue
				}
				meth := 0
				if flip%2 == 1 {
					meth = connMethods - 1
				}
				flip++
				// some requests carry a long query string: query parsing sits
				// between route matching and handler lookup, so it widens the
				// window in which a request could straddle two snapshots
				query := ""
				if lr.Intn(3) == 0 {
					query = longQuery
				}
				a := rec.now()
				var resp *wire.Resp
				if lr.Intn(4) == 0 {
					// the any-verb implicit binding of the same method
					resp = wire.Serve(mux, wire.BodyRequest("POST", fmt.Sprintf("/vf.cx.X/Me%d", meth), "", http.Header{"Content-Type": {"application/json"}}, []byte(`{"a":"i"}`)))
				} else {
					resp = wire.Serve(mux, wire.BodyRequest("GET", fmt.Sprintf("/cx/m%d/v", meth), query, nil, nil))
				}
				b := rec.now()
				if resp.Wedged {
					r.Inconclusive("proxied request did not return")
					return
				}
				if resp.Panic != nil {
					viol(resp.Panic.Key(), "proxied request panicked: "+resp.Panic.Value)
					return
				}
				out := connOut{}
				switch resp.Code {
				case http.StatusOK:
					var body struct {
						Tag string `json:"tag"`
					}
					json.Unmarshal(resp.Body, &body)
					out = connOut{OK: true, Tag: body.Tag}
					if body.Tag != "b1" && body.Tag != "b2" {
						viol("proxied-reply-without-backend-tag", fmt.Sprintf("200 with body %.100s", resp.Body))
					}
				case http.StatusNotImplemented:
					// a matched route whose handler list is empty: no single
					// published snapshot has that (routes and handlers of a
					// connection are added and removed together)
					viol("route-without-handler", fmt.Sprintf("501 for /cx/m%d: the route was matched but no handler was found; the request was resolved against two different routing states or a torn one", meth))
				case http.StatusNotFound, http.StatusBadRequest:
				default:
					// the back-ends stay up and their connections open for
					// the whole run (DropConn does not close them): nothing
					// but 200 / 404 is explained by any routing state
					viol(fmt.Sprintf("request-failed-with-live-backends:%d", resp.Code), fmt.Sprintf("GET /cx/m%d/v answered %d %.120q; every back-end is up, so whichever routing state the request saw it is either served or unrouted", meth, resp.Code, resp.Body))
					continue
				}
				add(cop{c, connIn{"req", 0, meth}, out, a, b})
			}
		}(c)
	}
	var ww sync.WaitGroup
	for w := 0; w < writers; w++ {
		ww.Add(1)
		seed := rng.Int63()
		go func(w int) {
			defer ww.Done()
			lr := rand.New(rand.NewSource(seed))
			nops := 5 + lr.Intn(6)
			for i := 0; i < nops; i++ {
				ci := lr.Intn(len(e.backs))
				if writers > 1 {
					ci = w % len(e.backs) // one writer per connection
				}
				cc := e.backs[ci].CC
				time.Sleep(time.Duration(lr.Intn(400)) * time.Microsecond)
				ctx, cancel := context.WithTimeout(context.Background(), 20*time.Second)
				if lr.Intn(5) < 3 {
					a := rec.now()
					var rerr error
					pi := mon.Catch(func() { rerr = mux.RegisterConn(ctx, cc) })
					b := rec.now()
					cancel()
					if pi != nil {
						viol(pi.Key(), "RegisterConn panicked: "+pi.Value)
						return
					}
					if rerr != nil && ctx.Err() != nil {
						r.Inconclusive("RegisterConn timed out")
						return
					}
					smu.Lock()
					script = append(script, fmt.Sprintf("w%d:RegConn(b%d)=%v", w, ci+1, rerr))
					smu.Unlock()
					add(cop{1000 + w, connIn{"regconn", ci, 0}, connOut{OK: rerr == nil}, a, b})
					capture(fmt.Sprintf("RegConn(b%d)", ci+1))
				} else {
					a := rec.now()
					var was bool
					pi := mon.Catch(func() { was = mux.DropConn(ctx, cc) })
					b := rec.now()
					cancel()
					if pi != nil {
						viol(pi.Key(), "DropConn panicked: "+pi.Value)
						return
					}
					smu.Lock()
					script = append(script, fmt.Sprintf("w%d:DropConn(b%d)=%v", w, ci+1, was))
					smu.Unlock()
					add(cop{1000 + w, connIn{"dropconn", ci, 0}, connOut{OK: was}, a, b})
					capture(fmt.Sprintf("DropConn(b%d)", ci+1))
				}
			}
		}(w)
	}
	// a writer whose registrations are all refused (late, see connEnv.bad)
	ww.Add(1)
	badSeed, localSeed := rng.Int63(), rng.Int63()
	go func() {
		defer ww.Done()
		lr := rand.New(rand.NewSource(badSeed))
		for i := 0; i < 3; i++ {
			time.Sleep(time.Duration(200+lr.Intn(3000)) * time.Microsecond)
			ctx, cancel := context.WithTimeout(context.Background(), 20*time.Second)
			var rerr error
			pi := mon.Catch(func() { rerr = mux.RegisterConn(ctx, e.bad.CC) })
			cancel()
			if pi != nil {
				viol(pi.Key(), "RegisterConn (back-end with an invalid last rule) panicked: "+pi.Value)
				return
			}
			smu.Lock()
			script = append(script, fmt.Sprintf("wb:RegConn(bad)=%v", rerr != nil))
			smu.Unlock()
			if rerr == nil {
				viol("invalid-backend-accepted", "RegisterConn of a back-end whose last method has a rule with an unknown field returned nil")
				return
			}
			r.Count("refused_conn_registrations", 1)
			capture("RegConn(bad) refused")
		}
	}()
	// refused refreshes of the registered switchable connection
	ww.Add(1)
	swSeed := rng.Int63()
	go func() {
		defer ww.Done()
		lr := rand.New(rand.NewSource(swSeed))
		for i := 0; i < 2; i++ {
			time.Sleep(time.Duration(300+lr.Intn(3000)) * time.Microsecond)
			ctx, cancel := context.WithTimeout(context.Background(), 20*time.Second)
			var rerr error
			pi := mon.Catch(func() { rerr = mux.RegisterConn(ctx, e.sw.CC) })
			cancel()
			if pi != nil {
				viol(pi.Key(), "RegisterConn (refresh with an invalid revision) panicked: "+pi.Value)
				return
			}
			smu.Lock()
			script = append(script, fmt.Sprintf("ws:Refresh(sw,invalid)=%v", rerr != nil))
			smu.Unlock()
			if rerr == nil {
				viol("invalid-backend-accepted", "re-registering a connection whose new revision has an invalid last method returned nil")
				return
			}
			r.Count("refused_refreshes", 1)
			capture("Refresh(sw) refused")
		}
	}()
	// third writer: local registrations interleaved with the conn writers
	var extraOK [nExtra]bool
	ww.Add(1)
	go func() {
		defer ww.Done()
		lr := rand.New(rand.NewSource(localSeed))
		for i := 0; i < nExtra; i++ {
			time.Sleep(time.Duration(500+lr.Intn(4000)) * time.Microsecond)
			sd := fdX.Services().Get(i)
			var rerr error
			pi := mon.Catch(func() {
				rerr = larking.VerifRegisterService(mux, vschema.ServiceDesc(sd, taggedImpl{"local"}), struct{}{})
			})
			if pi != nil {
				viol(pi.Key(), "RegisterService panicked during conn registration: "+pi.Value)
				return
			}
			extraOK[i] = rerr == nil
			smu.Lock()
			script = append(script, fmt.Sprintf("wl:RegLocal(E%d)=%v", i, rerr))
			smu.Unlock()
			capture(fmt.Sprintf("RegLocal(E%d)", i))
		}
	}()
	ww.Wait()
	time.Sleep(2 * time.Millisecond)
	atomic.StoreInt32(&stop, 1)
	wg.Wait()

	r.Count("probes_of_refused_routes", int(atomic.SwapInt64(&refusedProbes, 0)))
	r.Count("probes_of_service_with_refused_refresh", int(atomic.SwapInt64(&refreshProbes, 0)))
	r.Count("conn_lane_probes_of_refused_verbs_on_prefixes_of_live_routes", int(atomic.SwapInt64(&prefixProbes, 0)))
	for _, path := range []string{"/cz/m0/v", "/cz/last/v"} {
		if resp := wire.Serve(mux, wire.BodyRequest("GET", path, "", nil, nil)); resp.Code != http.StatusOK {
			viol("registered-service-disturbed-by-refused-refresh", fmt.Sprintf("GET %s answers %d after the run although its connection is still registered", path, resp.Code))
			break
		}
	}
	{
		var was bool
		ctx, cancel := context.WithTimeout(context.Background(), 20*time.Second)
		mon.Catch(func() { was = mux.DropConn(ctx, e.sw.CC) })
		cancel()
		if !was {
			viol("registered-connection-forgotten-after-refused-refresh", "DropConn reports the switchable connection as not registered after its refused refreshes")
		}
	}
	{
		var was bool
		ctx, cancel := context.WithTimeout(context.Background(), 20*time.Second)
		pi := mon.Catch(func() { was = mux.DropConn(ctx, e.bad.CC) })
		cancel()
		if pi != nil {
			viol(pi.Key(), "DropConn of a never-registered connection panicked: "+pi.Value)
		} else if was {
			viol("refused-connection-recorded", "DropConn reports that the connection whose registrations were all refused was registered")
		}
		for _, path := range []string{"/cy/m0/v", "/cy/m5/v", "/cx/m0/v/y"} {
			if resp := wire.Serve(mux, wire.BodyRequest("GET", path, "", nil, nil)); resp.Code != http.StatusNotFound {
				viol("route-of-refused-registration-visible", fmt.Sprintf("GET %s answers %d after the run although its only registration was refused", path, resp.Code))
				break
			}
		}
	}
	// no successful registration may be lost
	for i := 0; i < nExtra; i++ {
		if !extraOK[i] {
			continue
		}
		resp := wire.Serve(mux, wire.BodyRequest("GET", fmt.Sprintf("/cxl%d/e%d/v", hid, i), "", nil, nil))
		r.Count("local_registrations_checked_after_conn_ops", 1)
		if resp.Code != http.StatusOK {
			viol("registered-local-service-lost", fmt.Sprintf("local service E%d was registered successfully while RegisterConn/DropConn were running, but answers %d afterwards (lost update)", i, resp.Code))
			break
		}
	}

	for _, s := range snaps {
		r.Count("snapshots_refingerprinted", 1)
		if fp := larking.VerifFingerprint(s.snap); fp != s.fp {
			viol("published-snapshot-mutated-in-place", fmt.Sprintf("snapshot captured after %s changed afterwards", s.op))
			break
		}
	}
	mu.Lock()
	all := ops
	mu.Unlock()
	var pops []porcupine.Operation
	overlap := 0
	for _, o := range all {
		pops = append(pops, porcupine.Operation{ClientId: o.c, Input: o.in, Call: o.a, Output: o.out, Return: o.b})
		if o.in.Kind == "req" {
			for _, w := range all {
				if w.in.Kind != "req" && o.a < w.b && o.b > w.a {
					overlap++
					break
				}
			}
		}
	}
	r.Count("conn_history_ops", len(all))
	r.Count("requests_overlapping_a_conn_registration_window", overlap)
	res, _ := porcupine.CheckOperationsVerbose(connModel, pops, 120*time.Second)
	switch res {
	case porcupine.Ok:
		r.Count("conn_histories_linearizable", 1)
	case porcupine.Unknown:
		r.Inconclusive("porcupine timed out (conn lane)")
	case porcupine.Illegal:
		smu.Lock()
		sc := strings.Join(script, "; ")
		smu.Unlock()
		viol("conn-visibility-not-linearizable", "requests during RegisterConn/DropConn are not explained by any linearization against the live-connection-set model (served by a dropped backend, unrouted while a backend was live, or wrong return value); writer ops: "+sc)
	}
	r.Eval(1)
	cls := "overlap0"
	if overlap > 20 {
		cls = "overlap>20"
	} else if overlap > 0 {
		cls = "overlap>0"
	}
	r.Distinct(fmt.Sprintf("conn/readers=%d/writers=%d/%s", readers, writers, cls))
}

// gatedRegistration: a RegisterConn whose reflection round trip is held open
// by the harness. While it is in progress requests for everything that was
// registered before must complete (they are resolved against the published
// snapshot and never wait for the writer).
func gatedRegistration(r *mon.Run, e *connEnv, k int) {
	reg, err := vschema.Registry(e.fdL)
	if err != nil {
		r.Inconclusive("harness: " + err.Error())
		return
	}
	mux, err := larking.NewMux(larking.FilesOption(reg))
	if err != nil {
		r.Inconclusive("harness: " + err.Error())
		return
	}
	if err := larking.VerifRegisterService(mux, vschema.ServiceDesc(e.sdL, taggedImpl{"local"}), struct{}{}); err != nil {
		r.Inconclusive("baseline registration: " + err.Error())
		return
	}
	ctx, cancel := context.WithTimeout(context.Background(), 60*time.Second)
	defer cancel()
	if err := mux.RegisterConn(ctx, e.backs[0].CC); err != nil {
		r.Inconclusive("RegisterConn(b1): " + err.Error())
		return
	}
	entered := make(chan struct{}, 1)
	release := make(chan struct{})
	holdAt := k % 3 // which reflection request is held
	var cnt int64
	e.gated.ReflHook.Store(func(int) {
		if int(atomic.AddInt64(&cnt, 1)-1) == holdAt {
			select {
			case entered <- struct{}{}:
			default:
			}
			<-release
		}
	})
	done := make(chan error, 1)
	go func() {
		var rerr error
		pi := mon.Catch(func() { rerr = mux.RegisterConn(ctx, e.gated.CC) })
		if pi != nil {
			rerr = fmt.Errorf("panic: %s", pi.Value)
		}
		done <- rerr
	}()
	released := false
	rel := func() {
		if !released {
			released = true
			close(release)
		}
	}
	defer func() {
		rel()
		e.gated.ReflHook.Store((func(int))(nil))
		select {
		case <-done:
		case <-time.After(30 * time.Second):
		}
		mux.DropConn(ctx, e.gated.CC)
	}()
	select {
	case <-entered:
	case err := <-done:
		r.Inconclusive(fmt.Sprintf("gated registration ended before the gate was reached: %v", err))
		return
	case <-time.After(20 * time.Second):
		r.Inconclusive("gated registration never reached the reflection gate")
		return
	}
	// the registration is now in progress and cannot finish
	type probe struct {
		name string
		req  func() *http.Request
		want int
	}
	probes := []probe{
		{"local-http", func() *http.Request { return wire.BodyRequest("GET", "/cl/base/x", "", nil, nil) }, 200},
		{"proxied-http", func() *http.Request { return wire.BodyRequest("GET", "/cx/m0/v", "", nil, nil) }, 200},
		{"unrouted-http", func() *http.Request { return wire.BodyRequest("GET", "/nothing/here", "", nil, nil) }, 404},
		{"local-grpc", func() *http.Request {
			return wire.GRPCRequest("/vf.cl.L/Base", nil, bytes.NewReader(wire.Frame(nil, false)))
		}, 200},
	}
	for round := 0; round < 3; round++ {
		for _, p := range probes {
			resc := make(chan *wire.Resp, 1)
			go func() { resc <- wire.Serve(mux, p.req()) }()
			select {
			case resp := <-resc:
				r.Count("requests_completed_while_a_registration_was_held_open", 1)
				if resp.Panic != nil {
					r.Violate(resp.Panic.Key(), p.name+" panicked while a registration was in progress: "+resp.Panic.Value, map[string]any{"probe": p.name, "held_reflection_request": holdAt})
					return
				}
				if resp.Code != p.want {
					r.Violate("wrong-answer-while-registration-in-progress:"+p.name, fmt.Sprintf("%s answered %d (want %d) while RegisterConn of another back-end was waiting for its reflection reply", p.name, resp.Code, p.want), map[string]any{"probe": p.name, "held_reflection_request": holdAt})
					return
				}
			case err := <-done:
				done <- err
				r.Inconclusive("gated registration ended although the gate is closed")
				return
			case <-time.After(10 * time.Second):
				r.Violate("request-waits-for-registration-in-progress:"+p.name, fmt.Sprintf("%s did not complete within 10 s while RegisterConn of another back-end was waiting for its reflection reply (reflection request #%d held); requests must be served from the published state, not wait for the writer", p.name, holdAt), map[string]any{"probe": p.name, "held_reflection_request": holdAt})
				return
			}
		}
	}
	r.Eval(1)
	r.Distinct(fmt.Sprintf("gated-registration/held-request=%d", holdAt))
}

// lastProviderChurn: ONE back-end is registered and dropped over and over
// while readers hammer its variable-free routes (a literal-only binding, the
// implicit /package.Service/Method binding) and a variable one. Each drop
// takes the methods' last handler away, so their routes go with it. Readers
// may see 200 or 404, never a matched route without handler (501); the
// writer, which is the only one changing the mux, asks again after every
// call returned: 200 after RegisterConn, 404 after DropConn - a request
// issued after the call returned is resolved against the state it published.
func lastProviderChurn(r *mon.Run, rounds int) {
	fw := &vschema.File{Path: "vf/cw.proto", Pkg: "vf.cw", Services: []vschema.Service{{Name: "W", Methods: []vschema.Method{
		{Name: "Me0", In: "vf.Req", Out: "vf.Rsp", Rule: &annotations.HttpRule{Pattern: &annotations.HttpRule_Get{Get: "/cw/static"}, AdditionalBindings: []*annotations.HttpRule{getRule("/cw/m0/{a}"), getRule("/cw/deep/er/static")}}},
		{Name: "Me1", In: "vf.Req", Out: "vf.Rsp", Rule: getRule("/cw/m1/{a}")},
	}}}}
	fdW, err := fw.Build()
	if err != nil {
		r.Inconclusive("harness: " + err.Error())
		return
	}
	solo, err := backend.Start("solo", true, backend.Svc{SD: fdW.Services().ByName("W"), Impl: taggedImpl{"solo"}})
	if err != nil {
		r.Inconclusive("harness: " + err.Error())
		return
	}
	defer solo.Close()
	mux, err := larking.NewMux()
	if err != nil {
		r.Inconclusive("harness: " + err.Error())
		return
	}
	type probe struct{ verb, path string }
	probes := []probe{{"GET", "/cw/static"}, {"POST", "/vf.cw.W/Me0"}, {"GET", "/cw/deep/er/static"}, {"POST", "/vf.cw.W/Me1"}, {"GET", "/cw/m0/v"}}
	do := func(p probe) *wire.Resp {
		if p.verb == "POST" {
			return wire.Serve(mux, wire.BodyRequest("POST", p.path, "", http.Header{"Content-Type": {"application/json"}}, []byte(`{"a":"i"}`)))
		}
		return wire.Serve(mux, wire.BodyRequest("GET", p.path, "", nil, nil))
	}
	var vmu sync.Mutex
	var script []string
	viol := func(key, what string) {
		vmu.Lock()
		defer vmu.Unlock()
		sc := script
		if len(sc) > 12 {
			sc = sc[len(sc)-12:]
		}
		r.Violate(key, what, map[string]any{"lane": "last-provider-churn", "last_ops": append([]string(nil), sc...)})
	}
	var stop int32
	var wg sync.WaitGroup
	var nreq int64
	for c := 0; c < 4; c++ {
		wg.Add(1)
		go func(c int) {
			defer wg.Done()
			for i := 0; atomic.LoadInt32(&stop) == 0; i++ {
				p := probes[(i+c)%len(probes)]
				resp := do(p)
				atomic.AddInt64(&nreq, 1)
				switch {
				case resp.Wedged:
					r.Inconclusive("churn lane request did not return")
					return
				case resp.Panic != nil:
					viol(resp.Panic.Key(), p.verb+" "+p.path+" panicked: "+resp.Panic.Value)
					return
				case resp.Code == http.StatusOK && strings.Contains(string(resp.Body), `"solo"`), resp.Code == http.StatusNotFound:
				case resp.Code == http.StatusNotImplemented:
					viol("route-without-handler:last-provider-churn", fmt.Sprintf("%s %s answered 501: the route was matched but the method has no handler; the request was resolved against two different routing states", p.verb, p.path))
					return
				default:
					viol(fmt.Sprintf("request-failed-with-live-backends:%d:last-provider-churn", resp.Code), fmt.Sprintf("%s %s answered %d %.120q while its only back-end is up and merely registered / dropped", p.verb, p.path, resp.Code, resp.Body))
					return
				}
			}
		}(c)
	}
	for i := 0; i < rounds && r.Violations() == 0; i++ {
		ctx, cancel := context.WithTimeout(context.Background(), 20*time.Second)
		var rerr error
		pi := mon.Catch(func() { rerr = mux.RegisterConn(ctx, solo.CC) })
		if pi != nil || rerr != nil {
			cancel()
			if pi != nil {
				viol(pi.Key(), "RegisterConn panicked: "+pi.Value)
			} else if ctx.Err() != nil {
				r.Inconclusive("RegisterConn timed out")
			} else {
				viol("RegConn-error:last-provider-churn", "RegisterConn of the only back-end failed: "+rerr.Error())
			}
			break
		}
		vmu.Lock()
		script = append(script, "RegConn(solo)")
		vmu.Unlock()
		for _, p := range probes {
			if resp := do(p); resp.Panic == nil && !resp.Wedged && resp.Code != http.StatusOK {
				viol("registered-method-not-served-after-RegisterConn-returned", fmt.Sprintf("%s %s answered %d %.100q after RegisterConn returned nil (round %d)", p.verb, p.path, resp.Code, resp.Body, i))
			}
		}
		var was bool
		pi = mon.Catch(func() { was = mux.DropConn(ctx, solo.CC) })
		cancel()
		if pi != nil {
			viol(pi.Key(), "DropConn panicked: "+pi.Value)
			break
		}
		if !was {
			viol("DropConn-returned-false:last-provider-churn", "DropConn of the registered connection returned false")
		}
		vmu.Lock()
		script = append(script, "DropConn(solo)")
		vmu.Unlock()
		for _, p := range probes {
			if resp := do(p); resp.Panic == nil && !resp.Wedged && resp.Code != http.StatusNotFound {
				viol(fmt.Sprintf("dropped-route-still-resolved:%d", resp.Code), fmt.Sprintf("%s %s answered %d %.100q after DropConn of the method's only back-end returned (round %d); nothing registers concurrently", p.verb, p.path, resp.Code, resp.Body, i))
			}
		}
		r.Eval(1)
	}
	atomic.StoreInt32(&stop, 1)
	wg.Wait()
	r.Count("last_provider_churn_rounds", rounds)
	r.Count("last_provider_churn_reader_requests", int(atomic.LoadInt64(&nreq)))
	r.Distinct("last-provider-churn")
}

func connLane(r *mon.Run) {
	e, err := newConnEnv()
	if err != nil {
		r.Inconclusive("conn lane: " + err.Error())
		return
	}
	defer e.Close()
	for k := 0; k < r.Pick(3, 30); k++ {
		gatedRegistration(r, e, k)
	}
	cancelledWaiterLane(r, e)
	lastProviderChurn(r, r.Pick(40, 800))
	rng := r.Rand("c12-conn")
	n := r.Pick(6, 300)
	for i := 0; i < n; i++ {
		runConnHistory(r, e, rng, 4+rng.Intn(5), 1+rng.Intn(2))
		if r.Violations() > 8 {
			break
		}
	}
}
