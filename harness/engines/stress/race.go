package stress

import (
	"fmt"
	"os"
	"sort"
	"strings"

	"verif/internal/mon"
)

// raceReports reads the race detector's log of THIS process (GORACE
// log_path, exploration mode halt_on_error=0), de-duplicates the reports by
// the pair of top larking frames of the two conflicting accesses and turns
// them into violations. A report without any larking frame is a race inside
// the harness itself: the run is then inconclusive, not "violated".
func raceReports(r *mon.Run) {
	if !raceEnabled {
		r.Inconclusive("binary not built with -race: race monitor inactive")
		return
	}
	prefix := os.Getenv("VERIF_RACE_LOG")
	if prefix == "" {
		r.Inconclusive("VERIF_RACE_LOG not set: race reports cannot be collected")
		return
	}
	b, err := os.ReadFile(fmt.Sprintf("%s.%d", prefix, os.Getpid()))
	if err != nil {
		r.Count("race_reports", 0)
		return // no report file: no race was reported
	}
	blocks := strings.Split(string(b), "WARNING: DATA RACE")
	n := 0
	for _, blk := range blocks[1:] {
		n++
		tops := accessTops(blk)
		sort.Strings(tops)
		key := "race:" + strings.Join(tops, "|")
		hasLarking := false
		for _, t := range tops {
			if t != "-" {
				hasLarking = true
			}
		}
		if !hasLarking {
			r.Inconclusive("race report without a larking frame (harness race): " + firstLines(blk, 12))
			continue
		}
		if len(blk) > 6000 {
			blk = blk[:6000]
		}
		r.Violate(key, "data race reported by the Go race detector: "+strings.Join(tops, " vs "), map[string]any{"report": "WARNING: DATA RACE" + blk})
	}
	r.Count("race_reports", n)
}

func firstLines(s string, n int) string {
	l := strings.Split(s, "\n")
	if len(l) > n {
		l = l[:n]
	}
	return strings.Join(l, " / ")
}

// accessTops returns, for each of the two access stacks of a report, the top
// function in larking.io/larking ("-" when the stack has none).
func accessTops(blk string) []string {
	var tops []string
	lines := strings.Split(blk, "\n")
	in := false
	cur := ""
	flush := func() {
		if in {
			if cur == "" {
				cur = "-"
			}
			tops = append(tops, cur)
		}
		in = false
		cur = ""
	}
	for _, ln := range lines {
		t := strings.TrimSpace(ln)
		switch {
		case strings.HasPrefix(t, "Read at") || strings.HasPrefix(t, "Write at") || strings.HasPrefix(t, "Previous read at") || strings.HasPrefix(t, "Previous write at") ||
			strings.HasPrefix(t, "Atomic read at") || strings.HasPrefix(t, "Atomic write at") || strings.HasPrefix(t, "Previous atomic"):
			flush()
			in = true
		case strings.HasPrefix(t, "Goroutine ") || strings.HasPrefix(t, "=========="):
			flush()
		case in && cur == "" && strings.HasPrefix(t, "larking.io/larking."):
			f := t
			if i := strings.LastIndex(f, "("); i > 0 && strings.HasSuffix(f, ")") {
				f = f[:i]
			}
			cur = strings.TrimPrefix(f, "larking.io/")
		}
	}
	flush()
	for len(tops) < 2 {
		tops = append(tops, "-")
	}
	return tops[:2]
}
