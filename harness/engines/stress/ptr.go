package stress

import "unsafe"

// uintptrOf identifies the backing array of a non-empty slice (monitor only:
// used to count pooled-buffer reuse, never dereferenced).
func uintptrOf(b []byte) uintptr { return uintptr(unsafe.Pointer(&b[0])) }
