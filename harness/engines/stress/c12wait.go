package stress

import (
	"context"
	"fmt"
	"math/rand"
	"net/http"
	"runtime"
	"sort"
	"strings"
	"sync/atomic"
	"time"

	"larking.io/larking"

	"verif/internal/mon"
	"verif/internal/vschema"
	"verif/internal/wire"
)

// Cancelled-waiter lane of C12: registrations / removals whose context ends
// WHILE they wait for another registration in progress (a RegisterConn whose
// reflection round trip is held open by the harness, i.e. the writer lock is
// taken). Whatever such a call answers (an error, or a late success), it is
// one registration of the history: if it failed it changed nothing, and every
// later RegisterService / RegisterConn / DropConn must still complete.

type goBlock struct {
	header string
	funcs  []string
	text   string
}

func allStacks() string {
	buf := make([]byte, 4<<20)
	return string(buf[:runtime.Stack(buf, true)])
}

func parseDump(dump string) []goBlock {
	var out []goBlock
	for _, blk := range strings.Split(dump, "\n\n") {
		lines := strings.Split(strings.TrimSpace(blk), "\n")
		if len(lines) == 0 || !strings.HasPrefix(lines[0], "goroutine ") {
			continue
		}
		g := goBlock{header: lines[0], text: blk}
		for _, l := range lines[1:] {
			if l == "" || l[0] == '\t' || strings.HasPrefix(l, "created by ") {
				continue
			}
			if i := strings.LastIndex(l, "("); i > 0 {
				l = l[:i]
			}
			g.funcs = append(g.funcs, l)
		}
		out = append(out, g)
	}
	return out
}

// blockedInLarking: the goroutine's innermost frame outside the Go runtime /
// sync packages is a larking function (it is parked by larking itself, not by
// gRPC or network I/O below larking).
func (g goBlock) blockedInLarking() (bool, string) {
	if strings.Contains(g.header, "[running]") || strings.Contains(g.header, "[runnable]") {
		return false, ""
	}
	for _, f := range g.funcs {
		switch {
		case strings.HasPrefix(f, "runtime."), strings.HasPrefix(f, "sync."), strings.HasPrefix(f, "sync/"), strings.HasPrefix(f, "internal/"):
			continue
		case strings.HasPrefix(f, "larking.io/larking."):
			return true, strings.TrimPrefix(f, "larking.io/larking.")
		default:
			return false, ""
		}
	}
	return false, ""
}

func (g goBlock) has(marker string) bool {
	for _, f := range g.funcs {
		if strings.HasSuffix(f, marker) {
			return true
		}
	}
	return false
}

//go:noinline
func c12WaiterCall(f func()) { f() }

//go:noinline
func c12FollowUp(f func()) { f() }

type cwWaiter struct {
	conn   int    // 0 = b1 (not registered), 1 = b2 (registered before, in some cells)
	kind   string // reg | drop
	ctx    context.Context
	cancel context.CancelFunc
	done   chan struct{}
	err    error
	was    bool
	pi     *mon.PanicInfo
	early  bool // returned before the registration in progress was released
}

func cancelledWaiterCell(r *mon.Run, e *connEnv, rng *rand.Rand, k int) (observedWaiting int) {
	hid := atomic.AddInt64(&histSeq, 1)
	fq := &vschema.File{Path: fmt.Sprintf("vf/cq%d.proto", hid), Pkg: fmt.Sprintf("vf.cq%d", hid), Services: []vschema.Service{{Name: "E", Methods: []vschema.Method{
		{Name: "Get", In: "vf.Req", Out: "vf.Rsp", Rule: getRule(fmt.Sprintf("/cq%d/e/{a}", hid))},
	}}}}
	fdQ, err := fq.Build()
	if err != nil {
		r.Inconclusive("harness: " + err.Error())
		return
	}
	reg, err := vschema.Registry(e.fdL, fdQ)
	if err != nil {
		r.Inconclusive("harness: " + err.Error())
		return
	}
	mux, err := larking.NewMux(larking.FilesOption(reg))
	if err != nil {
		r.Inconclusive("harness: " + err.Error())
		return
	}
	if err := larking.VerifRegisterService(mux, vschema.ServiceDesc(e.sdL, taggedImpl{"local"}), struct{}{}); err != nil {
		r.Inconclusive("baseline registration: " + err.Error())
		return
	}
	bg, bgCancel := context.WithTimeout(context.Background(), 120*time.Second)
	defer bgCancel()
	live := map[int]bool{}
	pre2 := rng.Intn(2) == 0
	if pre2 {
		if err := mux.RegisterConn(bg, e.backs[1].CC); err != nil {
			r.Inconclusive("RegisterConn(b2): " + err.Error())
			return
		}
		live[1] = true
	}
	mode := []string{"cancel", "deadline"}[rng.Intn(2)]
	holdAt := k % 3
	mask := 1 + rng.Intn(3)
	var ws []*cwWaiter
	for c := 0; c < 2; c++ {
		if mask&(1<<uint(c)) != 0 {
			ws = append(ws, &cwWaiter{conn: c, kind: []string{"reg", "drop"}[rng.Intn(2)], done: make(chan struct{})})
		}
	}
	var kinds []string
	for _, w := range ws {
		st := "unregistered"
		if live[w.conn] {
			st = "registered"
		}
		kinds = append(kinds, w.kind+"-"+st+"-conn")
	}
	sort.Strings(kinds)
	shape := fmt.Sprintf("waiters=%s/%s/held-request=%d", strings.Join(kinds, "+"), mode, holdAt)
	caseOf := func(extra map[string]any) map[string]any {
		m := map[string]any{"lane": "cancelled-waiter", "shape": shape, "b2_registered_before": pre2}
		for k, v := range extra {
			m[k] = v
		}
		return m
	}

	// the registration in progress
	entered := make(chan struct{}, 1)
	release := make(chan struct{})
	var cnt int64
	e.gated.ReflHook.Store(func(int) {
		if int(atomic.AddInt64(&cnt, 1)-1) == holdAt {
			select {
			case entered <- struct{}{}:
			default:
			}
			<-release
		}
	})
	released := false
	rel := func() {
		if !released {
			released = true
			close(release)
		}
	}
	gdone := make(chan error, 1)
	go func() {
		var rerr error
		if pi := mon.Catch(func() { rerr = mux.RegisterConn(bg, e.gated.CC) }); pi != nil {
			rerr = fmt.Errorf("panic: %s", pi.Value)
		}
		gdone <- rerr
	}()
	defer func() {
		rel()
		e.gated.ReflHook.Store((func(int))(nil))
	}()
	select {
	case <-entered:
	case err := <-gdone:
		r.Inconclusive(fmt.Sprintf("gated registration ended before the gate was reached: %v", err))
		return
	case <-time.After(20 * time.Second):
		r.Inconclusive("gated registration never reached the reflection gate")
		return
	}

	// the waiters
	for _, w := range ws {
		w := w
		if mode == "deadline" {
			w.ctx, w.cancel = context.WithTimeout(context.Background(), time.Duration(15+rng.Intn(30))*time.Millisecond)
		} else {
			w.ctx, w.cancel = context.WithCancel(context.Background())
		}
		defer w.cancel()
		cc := e.backs[w.conn].CC
		go func() {
			defer close(w.done)
			c12WaiterCall(func() {
				w.pi = mon.Catch(func() {
					if w.kind == "reg" {
						w.err = mux.RegisterConn(w.ctx, cc)
					} else {
						w.was = mux.DropConn(w.ctx, cc)
					}
				})
			})
		}()
	}
	returned := func(w *cwWaiter) bool {
		select {
		case <-w.done:
			return true
		default:
			return false
		}
	}
	// observe (not judge): are the waiters parked inside larking?
	pollEnd := time.Now().Add(2 * time.Second)
	if mode == "deadline" {
		pollEnd = time.Now().Add(12 * time.Millisecond)
	}
	for {
		n, ret := 0, 0
		for _, g := range parseDump(allStacks()) {
			if g.has("stress.c12WaiterCall") {
				if ok, _ := g.blockedInLarking(); ok {
					n++
				}
			}
		}
		for _, w := range ws {
			if returned(w) {
				ret++
			}
		}
		observedWaiting = n
		if n+ret >= len(ws) || time.Now().After(pollEnd) {
			break
		}
		time.Sleep(time.Millisecond)
	}
	r.Count("waiters_observed_parked_inside_larking_before_their_context_ended", observedWaiting)
	for _, w := range ws {
		if mode == "cancel" {
			w.cancel()
		} else {
			<-w.ctx.Done()
		}
	}
	// give calls that give up on a finished context the chance to do so
	// before the registration in progress is released (shapes the schedule,
	// judges nothing)
	grace := time.After(20 * time.Millisecond)
	for _, w := range ws {
		select {
		case <-w.done:
			w.early = true
			r.Count("waiters_that_returned_before_the_registration_in_progress_finished", 1)
		case <-grace:
			grace = time.After(0)
		}
	}
	if resp := wire.Serve(mux, wire.BodyRequest("GET", "/cl/base/x", "", nil, nil)); resp.Panic == nil && !resp.Wedged && resp.Code != http.StatusOK {
		r.Violate("baseline-request-failed-while-cancelled-registration-waits", fmt.Sprintf("GET /cl/base/x answered %d while a registration is in progress and others wait with finished contexts", resp.Code), caseOf(nil))
	}
	rel()
	select {
	case <-gdone:
	case <-time.After(30 * time.Second):
		r.Inconclusive("the gated registration did not return after its gate was opened")
		return
	}
	wedge := func(marker, what string, dump string) bool {
		for _, g := range parseDump(dump) {
			if !g.has(marker) {
				continue
			}
			if ok, where := g.blockedInLarking(); ok {
				r.Violate("registration-wedged-after-waiter-context-ended", fmt.Sprintf("%s did not return within the watchdog although no registration is in progress any more; its goroutine is parked inside larking at %s (%s). Before that, %d registration(s)/removal(s) had their context end while they waited for a registration in progress", what, where, g.header, len(ws)), caseOf(map[string]any{"blocked_at": where, "goroutine": c12FirstLines(g.text, 24)}))
				return true
			}
		}
		return false
	}
	for _, w := range ws {
		select {
		case <-w.done:
		case <-time.After(20 * time.Second):
			if !wedge("stress.c12WaiterCall", "a "+w.kind+" call whose context had ended", allStacks()) {
				r.Inconclusive("a waiter with finished context did not return within the watchdog (not parked inside larking)")
			}
			return
		}
		if w.pi != nil {
			r.Violate(w.pi.Key(), "call with a context that ended while waiting panicked: "+w.pi.Value, caseOf(nil))
			return
		}
		switch {
		case w.kind == "reg" && w.err == nil:
			live[w.conn] = true
			r.Count("waiters_with_ended_context_that_registered_anyway", 1)
		case w.kind == "reg":
			r.Count("waiters_with_ended_context_that_failed", 1)
		case w.was:
			delete(live, w.conn)
			r.Count("waiters_with_ended_context_that_dropped", 1)
		default:
			r.Count("waiters_with_ended_context_that_dropped_nothing", 1)
		}
	}
	// a failed registration changed nothing, a successful one is complete
	checkX := func(when string) bool {
		resp := wire.Serve(mux, wire.BodyRequest("GET", "/cx/m0/v", "", nil, nil))
		if resp.Panic != nil || resp.Wedged {
			return true
		}
		okTag := false
		for c := range live {
			if strings.Contains(string(resp.Body), `"`+e.backs[c].Tag+`"`) {
				okTag = true
			}
		}
		switch {
		case len(live) == 0 && resp.Code != http.StatusNotFound:
			r.Violate("route-visible-after-failed-waiting-registration", fmt.Sprintf("%s: GET /cx/m0/v answered %d %.80q although no successful registration provides it (the calls whose context ended returned errors / removed it)", when, resp.Code, resp.Body), caseOf(nil))
			return false
		case len(live) > 0 && (resp.Code != http.StatusOK || !okTag):
			r.Violate("registered-service-lost-after-waiting-registration", fmt.Sprintf("%s: GET /cx/m0/v answered %d %.80q although connection(s) %v are registered", when, resp.Code, resp.Body, live), caseOf(nil))
			return false
		}
		return true
	}
	if !checkX("after the waiters returned") {
		return
	}
	// every later registration / removal completes
	type fu struct {
		name string
		f    func() error
	}
	var localErr, regErr error
	var dropWas bool
	fus := []fu{
		{"RegisterService", func() error {
			localErr = larking.VerifRegisterService(mux, vschema.ServiceDesc(fdQ.Services().ByName("E"), taggedImpl{"local"}), struct{}{})
			return localErr
		}},
		{"RegisterConn", func() error { regErr = mux.RegisterConn(bg, e.backs[0].CC); return regErr }},
		{"DropConn", func() error { dropWas = mux.DropConn(bg, e.backs[0].CC); return nil }},
	}
	rng.Shuffle(len(fus), func(i, j int) { fus[i], fus[j] = fus[j], fus[i] })
	for _, f := range fus {
		f := f
		done, pi, dump := mon.Timed(10*time.Second, func() { c12FollowUp(func() { f.f() }) })
		if !done {
			if !wedge("stress.c12FollowUp", "a later "+f.name, dump) {
				r.Inconclusive("a later " + f.name + " did not return within the watchdog (not parked inside larking)")
			}
			return
		}
		if pi != nil {
			r.Violate(pi.Key(), "later "+f.name+" panicked: "+pi.Value, caseOf(nil))
			return
		}
		r.Count("later_writer_ops_completed_after_a_waiter_context_ended", 1)
		switch f.name {
		case "RegisterService":
			if localErr != nil {
				r.Violate("later-registration-refused-after-waiter-context-ended", "RegisterService of a fresh valid service failed: "+localErr.Error(), caseOf(nil))
				return
			}
			if resp := wire.Serve(mux, wire.BodyRequest("GET", fmt.Sprintf("/cq%d/e/v", hid), "", nil, nil)); resp.Panic == nil && !resp.Wedged && resp.Code != http.StatusOK {
				r.Violate("later-registration-not-served-after-waiter-context-ended", fmt.Sprintf("GET of the freshly registered local service answered %d", resp.Code), caseOf(nil))
				return
			}
		case "RegisterConn":
			if regErr != nil {
				r.Violate("later-registration-refused-after-waiter-context-ended", "RegisterConn(b1) with a live context failed: "+regErr.Error(), caseOf(nil))
				return
			}
			live[0] = true
		case "DropConn":
			if dropWas != live[0] {
				r.Violate("later-DropConn-wrong-answer-after-waiter-context-ended", fmt.Sprintf("DropConn(b1) returned %v, registered=%v", dropWas, live[0]), caseOf(nil))
				return
			}
			delete(live, 0)
		}
		if !checkX("after a later " + f.name) {
			return
		}
	}
	r.Eval(1)
	cls := "waiting-observed"
	if observedWaiting == 0 {
		cls = "waiting-not-observed"
	}
	r.Distinct("cancelled-waiter/" + shape + "/" + cls)
	return
}

func c12FirstLines(s string, n int) string {
	l := strings.Split(s, "\n")
	if len(l) > n {
		l = l[:n]
	}
	return strings.Join(l, "\n")
}

func cancelledWaiterLane(r *mon.Run, e *connEnv) {
	rng := r.Rand("c12-cancelled-waiter")
	n := r.Pick(9, 90)
	total := 0
	for k := 0; k < n; k++ {
		v0 := r.Violations()
		total += cancelledWaiterCell(r, e, rng, k)
		r.Count("cancelled_waiter_cells", 1)
		if r.Violations() > v0 {
			break
		}
	}
	if total == 0 && r.Violations() == 0 {
		r.Inconclusive("cancelled-waiter lane: no call was observed waiting inside larking when its context ended")
	}
}
