package stress

import (
	"bytes"
	"context"
	"crypto/sha256"
	"encoding/base64"
	"encoding/binary"
	"fmt"
	"github.com/gobwas/ws"
	"github.com/gobwas/ws/wsutil"
	"google.golang.org/grpc/metadata"
	"io"
	"math/rand"
	"net"
	"net/http"
	"reflect"
	"runtime"
	"sort"
	"strings"
	"sync"
	"sync/atomic"
	"time"

	"google.golang.org/genproto/googleapis/api/httpbody"
	"google.golang.org/grpc"
	"google.golang.org/grpc/codes"
	"google.golang.org/grpc/encoding/gzip"
	"google.golang.org/grpc/status"
	"google.golang.org/protobuf/encoding/protojson"
	"google.golang.org/protobuf/proto"
	"google.golang.org/protobuf/reflect/protoreflect"
	"larking.io/larking"

	"verif/internal/backend"
	"verif/internal/mon"
	"verif/internal/svc"
	"verif/internal/vschema"
	"verif/internal/wire"
)

// prf is the self-describing payload: n bytes determined by id.
func prf(id string, n int) []byte {
	out := make([]byte, 0, n+32)
	var ctr uint64
	seed := sha256.Sum256([]byte(id))
	for len(out) < n {
		var b [40]byte
		copy(b[:], seed[:])
		binary.LittleEndian.PutUint64(b[32:], ctr)
		h := sha256.Sum256(b[:])
		out = append(out, h[:]...)
		ctr++
	}
	return out[:n]
}

// ---- yielding codec / compressor wrappers (window widening at pluggable
// boundaries: they run while pooled buffers are held)

type c13mon struct {
	r         *mon.Run
	mu        sync.Mutex
	bufSeen   map[uintptr]string // backing array -> last request id
	reuse     int64
	inflight  int64
	peak      int64
	protoSeen sync.Map
	// cell is the failed-neighbour cell ("<protocol>:<fault kind>") whose
	// failures precede / accompany the requests running right now ("" outside
	// the failed-neighbour phase)
	cell atomic.Value
}

func (m *c13mon) enter() {
	n := atomic.AddInt64(&m.inflight, 1)
	for {
		p := atomic.LoadInt64(&m.peak)
		if n <= p || atomic.CompareAndSwapInt64(&m.peak, p, n) {
			break
		}
	}
}
func (m *c13mon) leave() { atomic.AddInt64(&m.inflight, -1) }

func yield() {
	runtime.Gosched()
}

type yCodec struct {
	larking.StreamCodec
	m *c13mon
}

func (c yCodec) Unmarshal(data []byte, v interface{}) error {
	if len(data) > 0 {
		c.m.mu.Lock()
		p := uintptrOf(data)
		if _, ok := c.m.bufSeen[p]; ok {
			c.m.reuse++
		} else if len(c.m.bufSeen) < 1<<16 {
			c.m.bufSeen[p] = ""
		}
		c.m.mu.Unlock()
	}
	yield()
	err := c.StreamCodec.Unmarshal(data, v)
	yield()
	return err
}

func (c yCodec) MarshalAppend(b []byte, v interface{}) ([]byte, error) {
	yield()
	out, err := c.StreamCodec.MarshalAppend(b, v)
	yield()
	return out, err
}

type yComp struct {
	larking.Compressor
}

type yWriteCloser struct{ io.WriteCloser }

func (w yWriteCloser) Write(p []byte) (int, error) { yield(); return w.WriteCloser.Write(p) }

type yReader struct{ io.Reader }

func (r yReader) Read(p []byte) (int, error) { yield(); return r.Reader.Read(p) }

func (c yComp) Compress(w io.Writer) (io.WriteCloser, error) {
	wc, err := c.Compressor.Compress(w)
	if err != nil {
		return nil, err
	}
	return yWriteCloser{wc}, nil
}

func (c yComp) Decompress(r io.Reader) (io.Reader, error) {
	rd, err := c.Compressor.Decompress(r)
	if err != nil {
		return nil, err
	}
	return yReader{rd}, nil
}

// ---- handlers

type c13impl struct {
	m    *c13mon
	viol func(key, what string, c any)
}

func chunkFields(m proto.Message) (id string, seq int32, data []byte) {
	r := m.ProtoReflect()
	f := r.Descriptor().Fields()
	return r.Get(f.ByName("id")).String(), int32(r.Get(f.ByName("seq")).Int()), r.Get(f.ByName("data")).Bytes()
}

func mkChunk(id string, seq int32, data []byte) proto.Message {
	m := vschema.NewMsg(vschema.Msg("vf.Chunk"))
	r := m.ProtoReflect()
	f := r.Descriptor().Fields()
	r.Set(f.ByName("id"), protoreflect.ValueOfString(id))
	r.Set(f.ByName("seq"), protoreflect.ValueOfInt32(seq))
	r.Set(f.ByName("data"), protoreflect.ValueOfBytes(data))
	return m
}

func chunkOK(id string, seq int32, data []byte) bool {
	return bytes.Equal(data, prf(fmt.Sprintf("%s/%d", id, seq), len(data)))
}

func (h c13impl) bad(lane, what string, id string) {
	key := "handler-saw-foreign-bytes:" + lane
	if c, _ := h.m.cell.Load().(string); c != "" {
		key = "failed-neighbour:" + c + ":" + key
		what = "after / next to failed requests of class " + c + ": " + what
	}
	h.viol(key, what, map[string]any{"id": id})
}

var c13assets sync.Map // id/n -> []byte, owned by the handlers

// asset returns the handler's cached content for id, after checking that
// nobody has written into it since it was created.
func (h c13impl) asset(id string, n int) []byte {
	key := fmt.Sprintf("%s/%d", id, n)
	v, _ := c13assets.LoadOrStore(key, prf(id, n))
	data := v.([]byte)
	if !bytes.Equal(data, prf(id, n)) {
		h.bad("handler-owned-buffer-modified", fmt.Sprintf("the content the handler keeps for %s (%d bytes, served from the same slice every time) has been overwritten", id, n), id)
		// repair it so that one corruption is one finding
		c13assets.Store(key, prf(id, n))
	}
	return data
}

var c13replies sync.Map // id/n -> *httpbody.HttpBody shared by all calls

func (h c13impl) sharedReply(id string, n int) *httpbody.HttpBody {
	key := fmt.Sprintf("%s/%d", id, n)
	v, _ := c13replies.LoadOrStore(key, &httpbody.HttpBody{Data: prf(id, n)})
	return v.(*httpbody.HttpBody)
}

// checkSharedReplies is the end-of-run canary over the shared reply objects.
func checkSharedReplies(viol func(key, what string, c any)) {
	c13replies.Range(func(k, v any) bool {
		hb := v.(*httpbody.HttpBody)
		parts := strings.SplitN(k.(string), "/", 2)
		var n int
		fmt.Sscanf(parts[1], "%d", &n)
		if hb.ContentType != "" || len(hb.Extensions) != 0 || !bytes.Equal(hb.Data, prf(parts[0], n)) {
			viol("handler-owned-reply-object-modified", fmt.Sprintf("the HttpBody object the handler returns for every download of %s was written to by the library: content_type=%q, %d data bytes (the handler created it without a content type and %d bytes)", parts[0], hb.ContentType, len(hb.Data), n), nil)
		}
		return true
	})
}

func (h c13impl) Unary(ctx context.Context, md protoreflect.MethodDescriptor, in proto.Message) (proto.Message, error) {
	switch md.Name() {
	case "Echo":
		id, seq, data := chunkFields(in)
		grpc.SetHeader(ctx, metadata.Pairs("x-vf-echo", id))
		if !chunkOK(id, seq, data) {
			h.bad("unary-echo", fmt.Sprintf("chunk %s/%d carries %d bytes that are not its own payload", id, seq, len(data)), id)
		}
		yield()
		return proto.Clone(in), nil
	case "UploadU":
		r := in.ProtoReflect()
		name := r.Get(r.Descriptor().Fields().ByName("name")).String()
		file := r.Get(r.Descriptor().Fields().ByName("file")).Message().Interface()
		var data []byte
		if hb, ok := file.(*httpbody.HttpBody); ok {
			data = hb.Data
		} else {
			fr := file.ProtoReflect()
			data = fr.Get(fr.Descriptor().Fields().ByName("data")).Bytes()
		}
		yield()
		if !bytes.Equal(data, prf(name, len(data))) {
			h.bad("httpbody-unary-upload", fmt.Sprintf("upload %s carries %d bytes that are not its own payload", name, len(data)), name)
		}
		out := vschema.NewMsg(md.Output())
		o := out.ProtoReflect()
		o.Set(o.Descriptor().Fields().ByName("tag"), protoreflect.ValueOfString(name))
		o.Set(o.Descriptor().Fields().ByName("n"), protoreflect.ValueOfInt64(int64(len(data))))
		return out, nil
	case "DownloadU":
		r := in.ProtoReflect()
		id := r.Get(r.Descriptor().Fields().ByName("a")).String()
		n := int(r.Get(r.Descriptor().Fields().ByName("n")).Int())
		if strings.HasPrefix(id, "static-nc-") {
			// the very same reply OBJECT for every call, without a content
			// type (an asset table built at start-up)
			return h.sharedReply(id, n), nil
		}
		if strings.HasPrefix(id, "static-") {
			// content the handler owns and serves again and again: the
			// very same slice goes into every reply
			return &httpbody.HttpBody{ContentType: "application/x-verif", Data: h.asset(id, n)}, nil
		}
		return &httpbody.HttpBody{ContentType: "application/x-verif", Data: prf(id, n)}, nil
	}
	return nil, status.Error(codes.Unimplemented, "n/a")
}

func (h c13impl) Stream(md protoreflect.MethodDescriptor, ss grpc.ServerStream) error {
	// every streaming call ends with trailer metadata of the handler's own
	ss.SetTrailer(metadata.Pairs("x-vf-handler-trailer", "c13"))
	switch md.Name() {
	case "Bidi", "CS":
		var kept []proto.Message
		if md.Name() == "Bidi" {
			first := vschema.NewMsg(md.Input())
			err := ss.RecvMsg(first)
			if err == io.EOF {
				return nil
			}
			if err != nil {
				return err
			}
			if id, _, _ := chunkFields(first); strings.HasPrefix(id, "dup-") {
				return h.duplex(md, ss, first)
			}
			kept = append(kept, first)
		}
		for {
			in := vschema.NewMsg(md.Input())
			err := ss.RecvMsg(in)
			if err == io.EOF {
				break
			}
			if err != nil {
				return err
			}
			kept = append(kept, in)
			if id, _, _ := chunkFields(in); strings.HasPrefix(id, "fail-") && len(kept) == 2 {
				// scripted back-end failure in the middle of the stream,
				// while the client may still be sending
				return status.Error(codes.Aborted, "scripted failure "+id)
			}
			yield()
		}
		// verify only after everything was received: exposes buffers that
		// were recycled while the message still referenced them
		for _, m := range kept {
			id, seq, data := chunkFields(m)
			if !chunkOK(id, seq, data) {
				h.bad("stream-collect", fmt.Sprintf("retained chunk %s/%d no longer carries its own payload", id, seq), id)
			}
		}
		if md.Name() == "CS" {
			id := ""
			if len(kept) > 0 {
				id, _, _ = chunkFields(kept[0])
			}
			return ss.SendMsg(mkChunk(id, int32(len(kept)), nil))
		}
		for _, m := range kept {
			if err := ss.SendMsg(m); err != nil {
				return err
			}
		}
		return nil
	case "Upload":
		first := vschema.NewMsg(md.Input())
		var data []byte
		var name string
		if rd, err := larking.AsHTTPBodyReader(ss, first); err == nil && strings.HasPrefix(nameOf(first), "r-") {
			name = nameOf(first)
			b, rerr := io.ReadAll(rd)
			if rerr != nil {
				return rerr
			}
			data = b
		} else {
			if err == nil {
				// AsHTTPBodyReader consumed the "first message" slot: the
				// rest of the body is still read through it
				name = nameOf(first)
				b, rerr := io.ReadAll(rd)
				if rerr != nil {
					return rerr
				}
				data = b
			} else {
				for {
					in := vschema.NewMsg(md.Input())
					rerr := ss.RecvMsg(in)
					if rerr == io.EOF {
						break
					}
					if rerr != nil {
						return rerr
					}
					if name == "" {
						name = nameOf(in)
					}
					fr := in.ProtoReflect()
					file := fr.Get(fr.Descriptor().Fields().ByName("file")).Message().Interface()
					if hb, ok := file.(*httpbody.HttpBody); ok {
						data = append(data, hb.Data...)
					} else {
						f2 := file.ProtoReflect()
						data = append(data, f2.Get(f2.Descriptor().Fields().ByName("data")).Bytes()...)
					}
					yield()
				}
			}
		}
		if !bytes.Equal(data, prf(name, len(data))) {
			h.bad("httpbody-stream-upload", fmt.Sprintf("streamed upload %s carries %d bytes that are not its own payload", name, len(data)), name)
		}
		out := vschema.NewMsg(md.Output())
		o := out.ProtoReflect()
		o.Set(o.Descriptor().Fields().ByName("tag"), protoreflect.ValueOfString(name))
		o.Set(o.Descriptor().Fields().ByName("n"), protoreflect.ValueOfInt64(int64(len(data))))
		return ss.SendMsg(out)
	case "Download":
		in := vschema.NewMsg(md.Input())
		if err := ss.RecvMsg(in); err != nil {
			return err
		}
		r := in.ProtoReflect()
		id := r.Get(r.Descriptor().Fields().ByName("a")).String()
		n := int(r.Get(r.Descriptor().Fields().ByName("n")).Int())
		data := prf(id, n)
		if strings.HasPrefix(id, "static-") {
			data = h.asset(id, n)
		}
		if strings.HasPrefix(id, "w-") {
			w, err := larking.AsHTTPBodyWriter(ss, &httpbody.HttpBody{ContentType: "application/x-verif"})
			if err != nil {
				return err
			}
			for len(data) > 0 {
				k := 700
				if k > len(data) {
					k = len(data)
				}
				if _, err := w.Write(data[:k]); err != nil {
					return err
				}
				data = data[k:]
				yield()
			}
			return nil
		}
		for first := true; first || len(data) > 0; first = false {
			k := 1000
			if k > len(data) {
				k = len(data)
			}
			if err := ss.SendMsg(&httpbody.HttpBody{ContentType: "application/x-verif", Data: data[:k]}); err != nil {
				return err
			}
			data = data[k:]
		}
		return nil
	}
	return status.Error(codes.Unimplemented, "n/a")
}

// duplex is the chat-style bidi handler: a receiver goroutine and a sender
// loop, so that RecvMsg and SendMsg of one stream overlap in time.
func (h c13impl) duplex(md protoreflect.MethodDescriptor, ss grpc.ServerStream, first proto.Message) error {
	ch := make(chan proto.Message, 64)
	errc := make(chan error, 1)
	go func() {
		defer close(ch)
		for {
			in := vschema.NewMsg(md.Input())
			err := ss.RecvMsg(in)
			if err == io.EOF {
				return
			}
			if err != nil {
				errc <- err
				return
			}
			ch <- in
		}
	}()
	send := func(m proto.Message) error {
		id, seq, data := chunkFields(m)
		if !chunkOK(id, seq, data) {
			h.bad("stream-duplex", fmt.Sprintf("received chunk %s/%d does not carry its own payload", id, seq), id)
		}
		yield()
		return ss.SendMsg(m)
	}
	if err := send(first); err != nil {
		return err
	}
	for m := range ch {
		if err := send(m); err != nil {
			for range ch { // let the receiver finish
			}
			return err
		}
	}
	select {
	case err := <-errc:
		return err
	default:
		return nil
	}
}

func keysOf(md metadata.MD) []string {
	var ks []string
	for k, v := range md {
		ks = append(ks, fmt.Sprintf("%s(%d)", k, len(v)))
	}
	sort.Strings(ks)
	return ks
}

func nameOf(m proto.Message) string {
	r := m.ProtoReflect()
	return r.Get(r.Descriptor().Fields().ByName("name")).String()
}

// ---- client lanes

type lane struct {
	name string
	run  func(e *c13env, id string, size int, lr *rand.Rand) string // "" = ok, else what differed
}

type c13env struct {
	std *svc.Std
	mux *larking.Mux
	srv *wire.Server
	cc  *grpc.ClientConn
	m   *c13mon
	// proxy lane: a second mux that reaches the same handlers through
	// RegisterConn to a real back-end
	pstd *svc.Std
	pmux *larking.Mux
	pcc  *grpc.ClientConn
	// pccL: client of the proxying mux with the small send limit
	pccL *grpc.ClientConn
	// listener addresses for the WebSocket lanes
	addr, paddr string
	// lmux: the local handlers behind a mux with a small receive limit
	// (recvLimit); it shares the process-wide pools with every other mux
	lmux *larking.Mux
}

func slowBody(b []byte, lr *rand.Rand) io.Reader {
	var cuts []int
	left := len(b)
	for left > 0 && len(cuts) < 64 {
		k := 1 + lr.Intn(97)
		if k > left {
			k = left
		}
		cuts = append(cuts, k)
		left -= k
	}
	rd := yReader{&wire.ScriptReader{Data: b, Cuts: cuts, EOFWithData: lr.Intn(2) == 0}}
	if g, _ := c13curGate.Load().(*c13gate); g != nil {
		return &gatedReader{Reader: rd, g: g}
	}
	return rd
}

func respBody(resp *wire.Resp) ([]byte, string) {
	b := resp.Body
	if resp.Header.Get("Content-Encoding") == "gzip" {
		d, err := wire.Gunzip(b)
		if err != nil {
			return nil, "response says Content-Encoding gzip but body does not gunzip: " + err.Error()
		}
		b = d
	}
	return b, ""
}

func checkEchoJSON(body []byte, id string, seq int32, size int) string {
	out := vschema.NewMsg(vschema.Msg("vf.Chunk"))
	if err := protojson.Unmarshal(body, out); err != nil {
		return "reply not decodable as JSON: " + err.Error()
	}
	gid, gseq, gdata := chunkFields(out)
	if gid != id || gseq != seq || !bytes.Equal(gdata, prf(fmt.Sprintf("%s/%d", id, seq), size)) {
		return fmt.Sprintf("echo is not a function of the request: got id=%s seq=%d len=%d", gid, gseq, len(gdata))
	}
	return ""
}

func checkEchoProto(b []byte, id string, seq int32, size int) string {
	out := vschema.NewMsg(vschema.Msg("vf.Chunk"))
	if err := proto.Unmarshal(b, out); err != nil {
		return "reply not decodable as protobuf: " + err.Error()
	}
	gid, gseq, gdata := chunkFields(out)
	if gid != id || gseq != seq || !bytes.Equal(gdata, prf(fmt.Sprintf("%s/%d", id, seq), size)) {
		return fmt.Sprintf("echo is not a function of the request: got id=%s seq=%d len=%d", gid, gseq, len(gdata))
	}
	return ""
}

func serveChecked(e *c13env, req *http.Request) (*wire.Resp, string) {
	resp := wire.Serve(e.mux, req)
	if resp.Wedged {
		return nil, "WEDGED"
	}
	if resp.Panic != nil {
		return nil, "PANIC " + resp.Panic.Key() + ": " + resp.Panic.Value
	}
	return resp, ""
}

var lanes = []lane{
	{"http/json", func(e *c13env, id string, size int, lr *rand.Rand) string {
		msg := mkChunk(id, 7, prf(id+"/7", size))
		b, _ := protojson.Marshal(msg)
		hdr := http.Header{"Content-Type": {"application/json"}}
		var req *http.Request
		if lr.Intn(2) == 0 {
			req = wire.NewRequest("POST", "/v1/echo", "", hdr, slowBody(b, lr), int64(len(b)))
		} else {
			req = wire.BodyRequest("POST", "/v1/echo", "", hdr, b)
		}
		resp, bad := serveChecked(e, req)
		if bad != "" {
			return bad
		}
		if resp.Code != 200 {
			return fmt.Sprintf("status %d: %.200s", resp.Code, resp.Body)
		}
		body, bad := respBody(resp)
		if bad != "" {
			return bad
		}
		return checkEchoJSON(body, id, 7, size)
	}},
	{"http/proto", func(e *c13env, id string, size int, lr *rand.Rand) string {
		b, _ := proto.Marshal(mkChunk(id, 3, prf(id+"/3", size)))
		hdr := http.Header{"Content-Type": {"application/protobuf"}, "Accept": {"application/protobuf"}}
		resp, bad := serveChecked(e, wire.NewRequest("POST", "/v1/echo", "", hdr, slowBody(b, lr), int64(len(b))))
		if bad != "" {
			return bad
		}
		if resp.Code != 200 {
			return fmt.Sprintf("status %d: %.200s", resp.Code, resp.Body)
		}
		body, bad := respBody(resp)
		if bad != "" {
			return bad
		}
		return checkEchoProto(body, id, 3, size)
	}},
	{"http/json+gzip", func(e *c13env, id string, size int, lr *rand.Rand) string {
		b, _ := protojson.Marshal(mkChunk(id, 9, prf(id+"/9", size)))
		z := wire.Gzip(b)
		hdr := http.Header{"Content-Type": {"application/json"}, "Content-Encoding": {"gzip"}, "Accept-Encoding": {"gzip"}}
		resp, bad := serveChecked(e, wire.NewRequest("POST", "/v1/echo", "", hdr, slowBody(z, lr), int64(len(z))))
		if bad != "" {
			return bad
		}
		if resp.Code != 200 {
			return fmt.Sprintf("status %d: %.200s", resp.Code, resp.Body)
		}
		body, bad := respBody(resp)
		if bad != "" {
			return bad
		}
		return checkEchoJSON(body, id, 9, size)
	}},
	{"grpc/identity", func(e *c13env, id string, size int, lr *rand.Rand) string {
		b, _ := proto.Marshal(mkChunk(id, 1, prf(id+"/1", size)))
		resp, bad := serveChecked(e, wire.GRPCRequest(e.std.Full("Echo"), nil, slowBody(wire.Frame(b, false), lr)))
		if bad != "" {
			return bad
		}
		if c, msg, _, ok := resp.GRPCStatus(); !ok || c != 0 {
			return fmt.Sprintf("grpc status %d %q ok=%v", c, msg, ok)
		}
		fr, rest := wire.ParseFrames(resp.Body)
		if len(fr) != 1 || len(rest) != 0 {
			return fmt.Sprintf("%d reply frames, %d stray bytes", len(fr), len(rest))
		}
		return checkEchoProto(fr[0].Data, id, 1, size)
	}},
	{"grpc/gzip", func(e *c13env, id string, size int, lr *rand.Rand) string {
		b, _ := proto.Marshal(mkChunk(id, 2, prf(id+"/2", size)))
		resp, bad := serveChecked(e, wire.GRPCRequest(e.std.Full("Echo"), http.Header{"Grpc-Encoding": {"gzip"}}, slowBody(wire.Frame(wire.Gzip(b), true), lr)))
		if bad != "" {
			return bad
		}
		if c, msg, _, ok := resp.GRPCStatus(); !ok || c != 0 {
			return fmt.Sprintf("grpc status %d %q ok=%v", c, msg, ok)
		}
		fr, rest := wire.ParseFrames(resp.Body)
		if len(fr) != 1 || len(rest) != 0 {
			return fmt.Sprintf("%d reply frames, %d stray bytes", len(fr), len(rest))
		}
		data := fr[0].Data
		if fr[0].Compressed() {
			d, err := wire.Gunzip(data)
			if err != nil {
				return "compressed reply frame does not gunzip: " + err.Error()
			}
			data = d
		}
		return checkEchoProto(data, id, 2, size)
	}},
	{"grpc/gzip-fails-late", func(e *c13env, id string, size int, lr *rand.Rand) string {
		// a compressed message whose decompression fails only after it has
		// produced (most of) its output: damaged gzip trailer, or a stream
		// cut short. The call must fail; what matters here is what the
		// failed call leaves behind for the other compressed calls.
		b, _ := proto.Marshal(mkChunk(id, 3, prf(id+"/3", size)))
		z := wire.Gzip(b)
		switch lr.Intn(3) {
		case 0:
			z[len(z)-5] ^= 0x5a // CRC32 / ISIZE trailer
		case 1:
			z = z[:len(z)-3-lr.Intn(5)]
		default:
			z = append(z[:len(z)-8:len(z)-8], 1, 2, 3, 4, 5, 6, 7, 8)
		}
		resp, bad := serveChecked(e, wire.GRPCRequest(e.std.Full("Echo"), http.Header{"Grpc-Encoding": {"gzip"}}, slowBody(wire.Frame(z, true), lr)))
		if bad != "" {
			return bad
		}
		if c, msg, _, ok := resp.GRPCStatus(); ok && c == 0 {
			return fmt.Sprintf("a message whose gzip stream is damaged was accepted (status OK %q)", msg)
		}
		return ""
	}},
	{"grpc-web", func(e *c13env, id string, size int, lr *rand.Rand) string {
		b, _ := proto.Marshal(mkChunk(id, 4, prf(id+"/4", size)))
		resp, bad := serveChecked(e, wire.WebRequest(e.std.Full("Echo"), nil, wire.Frame(b, false), false, ""))
		if bad != "" {
			return bad
		}
		wr := wire.DecodeWeb(resp.Body, false)
		if len(wr.Msgs) != 1 {
			return fmt.Sprintf("%d reply messages (status %d)", len(wr.Msgs), resp.Code)
		}
		return checkEchoProto(wr.Msgs[0], id, 4, size)
	}},
	{"grpc/bidi-collect", func(e *c13env, id string, size int, lr *rand.Rand) string {
		k := 1 + lr.Intn(4)
		var body []byte
		for i := 0; i < k; i++ {
			b, _ := proto.Marshal(mkChunk(id, int32(i), prf(fmt.Sprintf("%s/%d", id, i), size/k)))
			body = append(body, wire.Frame(b, false)...)
		}
		resp, bad := serveChecked(e, wire.GRPCRequest(e.std.Full("Bidi"), nil, slowBody(body, lr)))
		if bad != "" {
			return bad
		}
		if c, msg, _, ok := resp.GRPCStatus(); !ok || c != 0 {
			return fmt.Sprintf("grpc status %d %q ok=%v", c, msg, ok)
		}
		fr, _ := wire.ParseFrames(resp.Body)
		if len(fr) != k {
			return fmt.Sprintf("%d reply frames for %d requests", len(fr), k)
		}
		for i, f := range fr {
			if bad := checkEchoProto(f.Data, id, int32(i), size/k); bad != "" {
				return bad
			}
		}
		return ""
	}},
	{"http/json-stream", func(e *c13env, id string, size int, lr *rand.Rand) string {
		k := 1 + lr.Intn(4)
		var body []byte
		for i := 0; i < k; i++ {
			b, _ := protojson.Marshal(mkChunk(id, int32(i), prf(fmt.Sprintf("%s/%d", id, i), size/k)))
			body = append(body, b...)
		}
		resp, bad := serveChecked(e, wire.NewRequest("POST", "/v1/cs", "", http.Header{"Content-Type": {"application/json"}}, slowBody(body, lr), -1))
		if bad != "" {
			return bad
		}
		if resp.Code != 200 {
			return fmt.Sprintf("status %d: %.200s", resp.Code, resp.Body)
		}
		out := vschema.NewMsg(vschema.Msg("vf.Chunk"))
		if err := protojson.Unmarshal(resp.Body, out); err != nil {
			return "reply not JSON: " + err.Error()
		}
		gid, gseq, _ := chunkFields(out)
		if gid != id || int(gseq) != k {
			return fmt.Sprintf("client-stream summary id=%s n=%d, want id=%s n=%d", gid, gseq, id, k)
		}
		return ""
	}},
	{"http/json-stream+gzip", func(e *c13env, id string, size int, lr *rand.Rand) string {
		// streaming request body behind Content-Encoding: gzip: the stream
		// codec keeps reading the pooled decompressor up to and past its EOF
		k := 1 + lr.Intn(4)
		var body []byte
		for i := 0; i < k; i++ {
			b, _ := protojson.Marshal(mkChunk(id, int32(i), prf(fmt.Sprintf("%s/%d", id, i), size/k)))
			body = append(body, b...)
		}
		z := wire.Gzip(body)
		resp, bad := serveChecked(e, wire.NewRequest("POST", "/v1/cs", "", http.Header{"Content-Type": {"application/json"}, "Content-Encoding": {"gzip"}}, slowBody(z, lr), -1))
		if bad != "" {
			return bad
		}
		if resp.Code != 200 {
			return fmt.Sprintf("status %d: %.200s", resp.Code, resp.Body)
		}
		body2, bad := respBody(resp)
		if bad != "" {
			return bad
		}
		out := vschema.NewMsg(vschema.Msg("vf.Chunk"))
		if err := protojson.Unmarshal(body2, out); err != nil {
			return "reply not JSON: " + err.Error()
		}
		gid, gseq, _ := chunkFields(out)
		if gid != id || int(gseq) != k {
			return fmt.Sprintf("client-stream summary id=%s n=%d, want id=%s n=%d", gid, gseq, id, k)
		}
		return ""
	}},
	{"httpbody/unary-upload", func(e *c13env, id string, size int, lr *rand.Rand) string {
		data := prf(id, size)
		resp, bad := serveChecked(e, wire.NewRequest("POST", "/v1/uploadu/"+id, "", http.Header{"Content-Type": {"application/x-verif"}, "Accept": {"application/json"}}, slowBody(data, lr), int64(len(data))))
		if bad != "" {
			return bad
		}
		if size == 0 {
			return "" // empty upload: "no body" semantics, nothing to compare
		}
		if resp.Code != 200 {
			return fmt.Sprintf("status %d: %.200s", resp.Code, resp.Body)
		}
		want := fmt.Sprintf(`"tag":"%s"`, id)
		s := strings.ReplaceAll(string(resp.Body), " ", "")
		if !strings.Contains(s, want) || !strings.Contains(s, fmt.Sprintf(`"n":"%d"`, size)) {
			return fmt.Sprintf("upload summary %s does not describe %s/%d", resp.Body, id, size)
		}
		return ""
	}},
	{"httpbody/stream-upload", func(e *c13env, id string, size int, lr *rand.Rand) string {
		name := id
		if lr.Intn(2) == 0 {
			name = "r-" + id
		}
		data := prf(name, size)
		resp, bad := serveChecked(e, wire.NewRequest("POST", "/v1/upload/"+name, "", http.Header{"Content-Type": {"application/x-verif"}, "Accept": {"application/json"}}, slowBody(data, lr), -1))
		if bad != "" {
			return bad
		}
		if resp.Code != 200 {
			return fmt.Sprintf("status %d: %.200s", resp.Code, resp.Body)
		}
		s := strings.ReplaceAll(string(resp.Body), " ", "")
		if !strings.Contains(s, fmt.Sprintf(`"tag":"%s"`, name)) || (size > 0 && !strings.Contains(s, fmt.Sprintf(`"n":"%d"`, size))) {
			return fmt.Sprintf("upload summary %s does not describe %s/%d", resp.Body, name, size)
		}
		return ""
	}},
	{"httpbody/download", func(e *c13env, id string, size int, lr *rand.Rand) string {
		path := "/v1/downloadu/" + id
		switch lr.Intn(3) {
		case 1:
			path = "/v1/download/" + id
		case 2:
			id = "w-" + id
			path = "/v1/download/" + id
		}
		resp, bad := serveChecked(e, wire.BodyRequest("GET", path, fmt.Sprintf("n=%d", size), nil, nil))
		if bad != "" {
			return bad
		}
		if resp.Code != 200 {
			return fmt.Sprintf("status %d: %.200s", resp.Code, resp.Body)
		}
		body, bad := respBody(resp)
		if bad != "" {
			return bad
		}
		if !bytes.Equal(body, prf(id, size)) {
			return fmt.Sprintf("download of %s/%d returned %d bytes that are not its payload", id, size, len(body))
		}
		return ""
	}},
	{"httpbody/download-static", func(e *c13env, id string, size int, lr *rand.Rand) string {
		// a handful of assets the handler keeps in memory, downloaded over
		// and over (unary HttpBody and streamed chunks) between all the
		// other traffic
		k := lr.Intn(8)
		n := []int{100, 1000, 4096, 20000, 65536, 300, 64, 1500}[k]
		aid := fmt.Sprintf("static-%d", k)
		path := "/v1/downloadu/" + aid
		if lr.Intn(3) == 0 {
			path = "/v1/download/" + aid
		}
		resp, bad := serveChecked(e, wire.BodyRequest("GET", path, fmt.Sprintf("n=%d", n), nil, nil))
		if bad != "" {
			return bad
		}
		if resp.Code != 200 {
			return fmt.Sprintf("status %d: %.200s", resp.Code, resp.Body)
		}
		body, bad := respBody(resp)
		if bad != "" {
			return bad
		}
		if !bytes.Equal(body, prf(aid, n)) {
			return fmt.Sprintf("download of the static asset %s/%d returned %d bytes that are not its content", aid, n, len(body))
		}
		return ""
	}},
	{"httpbody/download-shared-reply-object", func(e *c13env, id string, size int, lr *rand.Rand) string {
		k := lr.Intn(4)
		n := []int{50, 700, 5000, 70000}[k]
		aid := fmt.Sprintf("static-nc-%d", k)
		var hdr http.Header
		switch lr.Intn(4) {
		case 0:
			hdr = http.Header{"Accept": {"application/json"}}
		case 1:
			hdr = http.Header{"Accept": {"application/protobuf"}}
		case 2:
			hdr = http.Header{"Accept": {"application/octet-stream, */*;q=0.1"}}
		}
		resp, bad := serveChecked(e, wire.BodyRequest("GET", "/v1/downloadu/"+aid, fmt.Sprintf("n=%d", n), hdr, nil))
		if bad != "" {
			return bad
		}
		if resp.Code != 200 {
			return fmt.Sprintf("status %d: %.200s", resp.Code, resp.Body)
		}
		body, bad := respBody(resp)
		if bad != "" {
			return bad
		}
		if !bytes.Equal(body, prf(aid, n)) {
			return fmt.Sprintf("download of the shared reply object %s/%d returned %d bytes that are not its content", aid, n, len(body))
		}
		return ""
	}},
	{"http/json-content-type-spellings", func(e *c13env, id string, size int, lr *rand.Rand) string {
		// the same media type spelled with parameters / other case: whether
		// the tree accepts the spelling is not this check's business, but an
		// accepted request must echo its own payload
		if size > 100000 {
			size = 100000
		}
		ct := []string{"application/json; charset=utf-8", "Application/JSON", "application/json;charset=UTF-8", "application/protobuf; proto=vf.Chunk", "APPLICATION/PROTOBUF"}[lr.Intn(5)]
		msg := mkChunk(id, 9, prf(id+"/9", size))
		var b []byte
		if strings.Contains(strings.ToLower(ct), "json") {
			b, _ = protojson.Marshal(msg)
		} else {
			b, _ = proto.Marshal(msg)
		}
		resp, bad := serveChecked(e, wire.NewRequest("POST", "/v1/echo", "", http.Header{"Content-Type": {ct}, "Accept": {"application/json"}}, slowBody(b, lr), int64(len(b))))
		if bad != "" {
			return bad
		}
		if resp.Code != 200 {
			return "" // spelling not accepted
		}
		return checkEchoJSON(resp.Body, id, 9, size)
	}},
	{"socket/grpc-unary", func(e *c13env, id string, size int, lr *rand.Rand) string {
		ctx, cancel := context.WithTimeout(context.Background(), 30*time.Second)
		defer cancel()
		out := vschema.NewMsg(vschema.Msg("vf.Chunk"))
		var opts []grpc.CallOption
		if lr.Intn(2) == 0 {
			opts = append(opts, grpc.UseCompressor(gzip.Name))
		}
		var hdr metadata.MD
		opts = append(opts, grpc.Header(&hdr))
		if err := e.cc.Invoke(ctx, e.std.Full("Echo"), mkChunk(id, 5, prf(id+"/5", size)), out, opts...); err != nil {
			if ctx.Err() != nil {
				return "WEDGED"
			}
			return "grpc-go error: " + err.Error()
		}
		if got := hdr.Get("x-vf-echo"); len(got) != 1 || got[0] != id {
			return fmt.Sprintf("response header x-vf-echo = %q, the handler set exactly [%q] for this call", got, id)
		}
		if got := hdr.Get("x-vf-server"); len(got) != 1 || got[0] != "verif" {
			return fmt.Sprintf("response header x-vf-server = %q, the interceptor set [\"verif\"]", got)
		}
		gid, gseq, gdata := chunkFields(out)
		if gid != id || gseq != 5 || !bytes.Equal(gdata, prf(id+"/5", size)) {
			return fmt.Sprintf("echo is not a function of the request: got id=%s seq=%d len=%d", gid, gseq, len(gdata))
		}
		return ""
	}},
	{"socket/grpc-bidi", func(e *c13env, id string, size int, lr *rand.Rand) string {
		ctx, cancel := context.WithTimeout(context.Background(), 30*time.Second)
		defer cancel()
		st, err := e.cc.NewStream(ctx, &grpc.StreamDesc{ClientStreams: true, ServerStreams: true}, e.std.Full("Bidi"))
		if err != nil {
			return "grpc-go error: " + err.Error()
		}
		k := 1 + lr.Intn(4)
		for i := 0; i < k; i++ {
			if err := st.SendMsg(mkChunk(id, int32(i), prf(fmt.Sprintf("%s/%d", id, i), size/k))); err != nil {
				return "grpc-go send error: " + err.Error()
			}
		}
		st.CloseSend()
		for i := 0; i < k; i++ {
			out := vschema.NewMsg(vschema.Msg("vf.Chunk"))
			if err := st.RecvMsg(out); err != nil {
				if ctx.Err() != nil {
					return "WEDGED"
				}
				return fmt.Sprintf("grpc-go recv %d/%d: %v", i, k, err)
			}
			gid, gseq, gdata := chunkFields(out)
			if gid != id || int(gseq) != i || !bytes.Equal(gdata, prf(fmt.Sprintf("%s/%d", id, i), size/k)) {
				return fmt.Sprintf("echo %d is not a function of the request: got id=%s seq=%d len=%d", i, gid, gseq, len(gdata))
			}
		}
		if err := st.RecvMsg(vschema.NewMsg(vschema.Msg("vf.Chunk"))); err != io.EOF {
			return fmt.Sprintf("stream did not end cleanly: %v", err)
		}
		return ""
	}},
}

func bidiOver(cc *grpc.ClientConn, full string, id string, size int, lr *rand.Rand, mode string) string {
	ctx, cancel := context.WithTimeout(context.Background(), 30*time.Second)
	defer cancel()
	st, err := cc.NewStream(ctx, &grpc.StreamDesc{ClientStreams: true, ServerStreams: true}, full)
	if err != nil {
		return "grpc-go error: " + err.Error()
	}
	k := 2 + lr.Intn(4)
	for i := 0; i < k; i++ {
		if err := st.SendMsg(mkChunk(id, int32(i), prf(fmt.Sprintf("%s/%d", id, i), size/k))); err != nil {
			if mode == "backend-fails" {
				break // the back-end is allowed to end the stream first
			}
			return "grpc-go send error: " + err.Error()
		}
		if mode == "client-aborts" && i == k/2 {
			cancel() // abort in the middle of the stream, no half-close
			err := st.RecvMsg(vschema.NewMsg(vschema.Msg("vf.Chunk")))
			if err == nil {
				return "a reply arrived on a stream the handler cannot have finished"
			}
			return ""
		}
	}
	st.CloseSend()
	if mode == "client-cancels-mid-download" {
		// read the first reply, then go away while the back-end still has
		// replies and its trailers to deliver
		err := st.RecvMsg(vschema.NewMsg(vschema.Msg("vf.Chunk")))
		timedOut := ctx.Err() != nil
		cancel()
		if timedOut {
			return "WEDGED"
		}
		if err != nil {
			return fmt.Sprintf("grpc-go recv 0/%d: %v", k, err)
		}
		for st.RecvMsg(vschema.NewMsg(vschema.Msg("vf.Chunk"))) == nil {
		}
		return ""
	}
	if mode == "reply-over-send-limit" {
		// the gateway's send limit (sendLimit) refuses replies the back-end
		// is entitled to send: the call must end with an error, not wedge;
		// replies within the limit must arrive intact
		n := 0
		for {
			out := vschema.NewMsg(vschema.Msg("vf.Chunk"))
			err := st.RecvMsg(out)
			if err == nil {
				gid, gseq, gdata := chunkFields(out)
				if gid != id || int(gseq) != n || !bytes.Equal(gdata, prf(fmt.Sprintf("%s/%d", id, n), size/k)) {
					return fmt.Sprintf("echo %d is not a function of the request: got id=%s seq=%d len=%d", n, gid, gseq, len(gdata))
				}
				n++
				continue
			}
			if ctx.Err() != nil {
				return "WEDGED"
			}
			over := size/k+len(id)+16 > sendLimit
			within := size/k+len(id)+32 <= sendLimit
			switch {
			case err == io.EOF && over:
				return fmt.Sprintf("replies of %d+ bytes passed a %d-byte send limit", size/k, sendLimit)
			case err == io.EOF && n != k:
				return fmt.Sprintf("stream ended cleanly after %d of %d replies", n, k)
			case err != io.EOF && within:
				return fmt.Sprintf("replies of about %d bytes within the %d-byte send limit ended in %v", size/k, sendLimit, err)
			}
			return ""
		}
	}
	if mode == "backend-fails" {
		for {
			err := st.RecvMsg(vschema.NewMsg(vschema.Msg("vf.Chunk")))
			if err == nil {
				continue
			}
			if ctx.Err() != nil {
				return "WEDGED"
			}
			if status.Code(err) != codes.Aborted || !strings.Contains(status.Convert(err).Message(), id) {
				return fmt.Sprintf("scripted back-end failure for %s surfaced as %v", id, err)
			}
			return ""
		}
	}
	for i := 0; i < k; i++ {
		out := vschema.NewMsg(vschema.Msg("vf.Chunk"))
		if err := st.RecvMsg(out); err != nil {
			if ctx.Err() != nil {
				return "WEDGED"
			}
			return fmt.Sprintf("grpc-go recv %d/%d: %v", i, k, err)
		}
		gid, gseq, gdata := chunkFields(out)
		if gid != id || int(gseq) != i || !bytes.Equal(gdata, prf(fmt.Sprintf("%s/%d", id, i), size/k)) {
			return fmt.Sprintf("echo %d is not a function of the request: got id=%s seq=%d len=%d", i, gid, gseq, len(gdata))
		}
	}
	if err := st.RecvMsg(vschema.NewMsg(vschema.Msg("vf.Chunk"))); err != io.EOF {
		return fmt.Sprintf("stream did not end cleanly: %v", err)
	}
	return ""
}

// duplexOver drives a full-duplex bidi call: a sender goroutine keeps sending
// while the replies are read, against a handler that echoes each message as
// soon as it arrives (c13impl.duplex).
func duplexOver(cc *grpc.ClientConn, full string, id string, size int, lr *rand.Rand, gz bool) string {
	id = "dup-" + id
	ctx, cancel := context.WithTimeout(context.Background(), 30*time.Second)
	defer cancel()
	var opts []grpc.CallOption
	if gz {
		opts = append(opts, grpc.UseCompressor("gzip"))
	}
	st, err := cc.NewStream(ctx, &grpc.StreamDesc{ClientStreams: true, ServerStreams: true}, full, opts...)
	if err != nil {
		return "grpc-go error: " + err.Error()
	}
	k := 6 + lr.Intn(12)
	if size > 200000 {
		size = 200000
	}
	// sizes vary per message, so that a shared scratch buffer is regrown
	// and overwritten with different lengths
	szOf := func(i int) int {
		switch i % 3 {
		case 0:
			return size / k
		case 1:
			return 5 + i
		}
		return size/k/2 + 1
	}
	sendErr := make(chan error, 1)
	go func() {
		for i := 0; i < k; i++ {
			if err := st.SendMsg(mkChunk(id, int32(i), prf(fmt.Sprintf("%s/%d", id, i), szOf(i)))); err != nil {
				sendErr <- err
				return
			}
		}
		sendErr <- st.CloseSend()
	}()
	for i := 0; i < k; i++ {
		out := vschema.NewMsg(vschema.Msg("vf.Chunk"))
		if err := st.RecvMsg(out); err != nil {
			if ctx.Err() != nil {
				return "WEDGED"
			}
			return fmt.Sprintf("grpc-go recv %d/%d: %v", i, k, err)
		}
		gid, gseq, gdata := chunkFields(out)
		if gid != id || int(gseq) != i || !bytes.Equal(gdata, prf(fmt.Sprintf("%s/%d", id, i), szOf(i))) {
			return fmt.Sprintf("duplex echo %d is not a function of the request: got id=%s seq=%d len=%d", i, gid, gseq, len(gdata))
		}
	}
	if err := st.RecvMsg(vschema.NewMsg(vschema.Msg("vf.Chunk"))); err != io.EOF {
		if ctx.Err() != nil {
			return "WEDGED"
		}
		return fmt.Sprintf("stream did not end cleanly: %v", err)
	}
	if err := <-sendErr; err != nil {
		return "grpc-go send error: " + err.Error()
	}
	return ""
}

// wsDuplex drives the WebSocket binding of Bidi (chat-style handler): a
// writer goroutine sends text frames while the echoes are read.
func wsDuplex(addr, prefix, id string, size int, lr *rand.Rand) string {
	id = "dup-" + id
	if size > 48000 {
		size = 48000
	}
	ctx, cancel := context.WithTimeout(context.Background(), 30*time.Second)
	defer cancel()
	conn, err := wire.WSDial(ctx, "ws://"+addr+prefix+"/ws/"+id, nil)
	if err != nil {
		return "websocket dial: " + err.Error()
	}
	defer conn.Close()
	conn.SetDeadline(time.Now().Add(30 * time.Second))
	k := 4 + lr.Intn(10)
	szOf := func(i int) int {
		if i%2 == 1 {
			return 3 + i
		}
		return size / k
	}
	sendErr := make(chan error, 1)
	go func() {
		for i := 0; i < k; i++ {
			b, _ := protojson.Marshal(mkChunk(id, int32(i), prf(fmt.Sprintf("%s/%d", id, i), szOf(i))))
			if err := wsutil.WriteClientText(conn, b); err != nil {
				sendErr <- err
				return
			}
		}
		sendErr <- nil
	}()
	for i := 0; i < k; i++ {
		msg, err := wsutil.ReadServerText(conn)
		if err != nil {
			if ne, ok := err.(interface{ Timeout() bool }); ok && ne.Timeout() {
				return "WEDGED"
			}
			return fmt.Sprintf("websocket read %d/%d: %v", i, k, err)
		}
		out := vschema.NewMsg(vschema.Msg("vf.Chunk"))
		if err := protojson.Unmarshal(msg, out); err != nil {
			return fmt.Sprintf("websocket echo %d is not a JSON chunk: %v (%.80q)", i, err, msg)
		}
		gid, gseq, gdata := chunkFields(out)
		if gid != id || int(gseq) != i || !bytes.Equal(gdata, prf(fmt.Sprintf("%s/%d", id, i), szOf(i))) {
			return fmt.Sprintf("websocket echo %d is not a function of the request: got id=%s seq=%d len=%d", i, gid, gseq, len(gdata))
		}
	}
	if err := <-sendErr; err != nil {
		return "websocket write: " + err.Error()
	}
	wsutil.WriteClientMessage(conn, ws.OpClose, ws.NewCloseFrameBody(ws.StatusNormalClosure, ""))
	return ""
}

// sendLimit is the MaxSendMessageSizeOption of the second proxying mux.
const sendLimit = 8192

var proxyLanes = []lane{
	{"proxy/grpc-bidi-client-cancels-mid-download", func(e *c13env, id string, size int, lr *rand.Rand) string {
		return bidiOver(e.pcc, e.pstd.Full("Bidi"), id, size, lr, "client-cancels-mid-download")
	}},
	{"proxy+send-limit/grpc-bidi-reply-over-send-limit", func(e *c13env, id string, size int, lr *rand.Rand) string {
		if lr.Intn(3) != 0 && size < 3*sendLimit {
			size = 6*sendLimit + size
		}
		return bidiOver(e.pccL, e.pstd.Full("Bidi"), id, size, lr, "reply-over-send-limit")
	}},
	{"proxy+send-limit/grpc-bidi-client-cancels-mid-download", func(e *c13env, id string, size int, lr *rand.Rand) string {
		if size > sendLimit {
			size = sendLimit // every message is size/k <= sendLimit/2
		}
		return bidiOver(e.pccL, e.pstd.Full("Bidi"), id, size, lr, "client-cancels-mid-download")
	}},
	{"proxy/ws-duplex", func(e *c13env, id string, size int, lr *rand.Rand) string {
		return wsDuplex(e.paddr, "/p1", id, size, lr)
	}},
	{"socket/ws-duplex", func(e *c13env, id string, size int, lr *rand.Rand) string {
		return wsDuplex(e.addr, "/v1", id, size, lr)
	}},
	{"proxy/grpc-bidi-duplex", func(e *c13env, id string, size int, lr *rand.Rand) string {
		return duplexOver(e.pcc, e.pstd.Full("Bidi"), id, size, lr, false)
	}},
	{"proxy/grpc-bidi-duplex-gzip", func(e *c13env, id string, size int, lr *rand.Rand) string {
		return duplexOver(e.pcc, e.pstd.Full("Bidi"), id, size, lr, true)
	}},
	{"socket/grpc-bidi-duplex", func(e *c13env, id string, size int, lr *rand.Rand) string {
		return duplexOver(e.cc, e.std.Full("Bidi"), id, size, lr, false)
	}},
	{"socket/grpc-bidi-duplex-gzip", func(e *c13env, id string, size int, lr *rand.Rand) string {
		return duplexOver(e.cc, e.std.Full("Bidi"), id, size, lr, true)
	}},
	{"proxy/grpc-unary", func(e *c13env, id string, size int, lr *rand.Rand) string {
		ctx, cancel := context.WithTimeout(context.Background(), 30*time.Second)
		defer cancel()
		out := vschema.NewMsg(vschema.Msg("vf.Chunk"))
		if err := e.pcc.Invoke(ctx, e.pstd.Full("Echo"), mkChunk(id, 6, prf(id+"/6", size)), out); err != nil {
			if ctx.Err() != nil {
				return "WEDGED"
			}
			return "grpc-go error: " + err.Error()
		}
		gid, gseq, gdata := chunkFields(out)
		if gid != id || gseq != 6 || !bytes.Equal(gdata, prf(id+"/6", size)) {
			return fmt.Sprintf("proxied echo is not a function of the request: got id=%s seq=%d len=%d", gid, gseq, len(gdata))
		}
		return ""
	}},
	{"proxy/http-json", func(e *c13env, id string, size int, lr *rand.Rand) string {
		if size > 100000 {
			size = 100000
		}
		b, _ := protojson.Marshal(mkChunk(id, 8, prf(id+"/8", size)))
		hdr := http.Header{"Content-Type": {"application/json"}}
		// headers an ordinary HTTP/1.1 client or an intermediary adds
		switch lr.Intn(4) {
		case 0:
			hdr["Connection"] = []string{"keep-alive"}
		case 1:
			hdr["Connection"] = []string{"keep-alive"}
			hdr["Keep-Alive"] = []string{"timeout=5, max=100"}
		case 2:
			hdr["Proxy-Connection"] = []string{"keep-alive"}
		}
		resp := wire.Serve(e.pmux, wire.NewRequest("POST", "/p1/echo", "", hdr, slowBody(b, lr), int64(len(b))))
		if resp.Wedged {
			return "WEDGED"
		}
		if resp.Panic != nil {
			return "PANIC " + resp.Panic.Key() + ": " + resp.Panic.Value
		}
		if resp.Code != 200 {
			return fmt.Sprintf("status %d: %.200s", resp.Code, resp.Body)
		}
		return checkEchoJSON(resp.Body, id, 8, size)
	}},
	{"proxy/grpc-bidi", func(e *c13env, id string, size int, lr *rand.Rand) string {
		return bidiOver(e.pcc, e.pstd.Full("Bidi"), id, size, lr, "")
	}},
	{"proxy/grpc-bidi-client-aborts", func(e *c13env, id string, size int, lr *rand.Rand) string {
		return bidiOver(e.pcc, e.pstd.Full("Bidi"), id, size, lr, "client-aborts")
	}},
	{"proxy/grpc-bidi-backend-fails", func(e *c13env, id string, size int, lr *rand.Rand) string {
		return bidiOver(e.pcc, e.pstd.Full("Bidi"), "fail-"+id, size, lr, "backend-fails")
	}},
	{"proxy/http-gzip-client-stream", func(e *c13env, id string, size int, lr *rand.Rand) string {
		// proxied client stream over HTTP with a gzip request body; every
		// other call is failed by the back-end after the second message while
		// the upload is still being delivered, so the forwarder's request pump
		// is still reading the (pooled) decompressor when the handler returns
		fail := lr.Intn(2) == 0
		cid := id
		if fail {
			cid = "fail-" + id
		}
		if size > 60000 {
			size = 60000
		}
		k := 3 + lr.Intn(4)
		var body []byte
		for i := 0; i < k; i++ {
			b, _ := protojson.Marshal(mkChunk(cid, int32(i), prf(fmt.Sprintf("%s/%d", cid, i), size/k)))
			body = append(body, b...)
		}
		z := wire.Gzip(body)
		resp := wire.Serve(e.pmux, wire.NewRequest("POST", "/p1/cs", "", http.Header{"Content-Type": {"application/json"}, "Content-Encoding": {"gzip"}}, slowBody(z, lr), -1))
		if resp.Wedged {
			return "WEDGED"
		}
		if resp.Panic != nil {
			return "PANIC " + resp.Panic.Key() + ": " + resp.Panic.Value
		}
		if fail {
			if resp.Code == 200 || !strings.Contains(string(resp.Body), "scripted failure "+cid) {
				return fmt.Sprintf("scripted back-end failure for %s answered %d %.160s", cid, resp.Code, resp.Body)
			}
			return ""
		}
		if resp.Code != 200 {
			return fmt.Sprintf("status %d: %.200s", resp.Code, resp.Body)
		}
		out := vschema.NewMsg(vschema.Msg("vf.Chunk"))
		if err := protojson.Unmarshal(resp.Body, out); err != nil {
			return "reply not JSON: " + err.Error()
		}
		gid, gseq, _ := chunkFields(out)
		if gid != cid || int(gseq) != k {
			return fmt.Sprintf("client-stream summary id=%s n=%d, want id=%s n=%d", gid, gseq, cid, k)
		}
		return ""
	}},
	{"socket/grpc-bidi-client-aborts", func(e *c13env, id string, size int, lr *rand.Rand) string {
		return bidiOver(e.cc, e.std.Full("Bidi"), id, size, lr, "client-aborts")
	}},
}

// ---- failed requests as neighbours
//
// The property quantifies over client failures too: a request whose body the
// client aborts, whose body exceeds the receive limit, is malformed or is a
// cut / damaged gzip stream ends on an error path of the library, and what
// that path leaves behind in the process-wide pools is used by the requests
// that follow. A fault cell is (protocol, fault kind); the failed request
// itself carries no verdict (only panic / wedge are looked at), the ordinary
// requests around and after it carry the usual ones.

// recvLimit is the MaxReceiveMessageSizeOption of env.lmux.
const recvLimit = 16384

// c13gate makes all requests of a burst be in the middle of their body at the
// same time: a gated body delivers its first read, then waits until every
// request of the burst has done so (or a grace period is over: the wait only
// shapes the schedule, it decides nothing).
type c13gate struct {
	want    int32
	arrived int32
	ch      chan struct{}
	once    sync.Once
	full    int32
}

var c13curGate atomic.Value // *c13gate (nil pointer = no gate)

func newGate(n int) *c13gate { return &c13gate{want: int32(n), ch: make(chan struct{})} }

func (g *c13gate) arrive() {
	if atomic.AddInt32(&g.arrived, 1) >= g.want {
		g.once.Do(func() { atomic.StoreInt32(&g.full, 1); close(g.ch) })
	}
}

func (g *c13gate) wait() {
	select {
	case <-g.ch:
	case <-time.After(300 * time.Millisecond):
		g.once.Do(func() { close(g.ch) })
	}
}

type gatedReader struct {
	io.Reader
	g     *c13gate
	reads int
}

func (r *gatedReader) Read(p []byte) (int, error) {
	r.reads++
	switch r.reads {
	case 1:
		n, err := r.Reader.Read(p)
		r.g.arrive()
		return n, err
	case 2:
		r.g.wait()
	}
	return r.Reader.Read(p)
}

type faultCell struct{ proto, kind string }

func (c faultCell) String() string { return c.proto + ":" + c.kind }

var faultProtos = []string{"http-unary/json", "http-unary/proto", "http-unary/httpbody", "http-stream/json", "http-stream/httpbody", "grpc/unary", "grpc/stream", "grpc-web/unary", "socket-http1/json"}
var faultKinds = []string{"aborted-mid-body", "over-receive-limit", "malformed", "cut-gzip"}

func faultCells() []faultCell {
	var out []faultCell
	for _, p := range faultProtos {
		for _, k := range faultKinds {
			if strings.HasSuffix(p, "httpbody") && k == "malformed" {
				continue // raw bytes cannot be malformed
			}
			if strings.HasPrefix(p, "socket-") && k != "aborted-mid-body" {
				continue // the socket lane exists for the real client disconnect
			}
			out = append(out, faultCell{p, k})
		}
	}
	return out
}

func damageGzip(z []byte, lr *rand.Rand) []byte {
	z = append([]byte(nil), z...)
	switch lr.Intn(3) {
	case 0:
		z[len(z)-5] ^= 0x5a // CRC32 / ISIZE trailer
	case 1:
		z = z[:len(z)-3-lr.Intn(5)]
	default:
		n := len(z)/2 - 8
		if n < 1 {
			n = 1
		}
		z = z[:len(z)/2+lr.Intn(n)] // cut inside the deflate stream
	}
	return z
}

func randCuts(n int, lr *rand.Rand) []int {
	var cuts []int
	for left := n; left > 0 && len(cuts) < 64; {
		k := 1 + lr.Intn(97)
		if k > left {
			k = left
		}
		cuts = append(cuts, k)
		left -= k
	}
	return cuts
}

// abortedBody delivers a proper prefix of b in small reads and then fails the
// way a connection that went away does.
func abortedBody(b []byte, lr *rand.Rand) io.Reader {
	cut := 1
	if len(b) > 2 {
		cut = 1 + lr.Intn(len(b)-1)
	}
	if cut > len(b) {
		cut = len(b)
	}
	return yReader{&wire.ScriptReader{Data: b[:cut], Cuts: randCuts(cut, lr), TruncErr: io.ErrUnexpectedEOF}}
}

// runFault issues one request of the cell's class. outcome is what was
// observed (no verdict is attached to it); bad is "", "WEDGED" or "PANIC ...".
func runFault(e *c13env, c faultCell, id string, size int, lr *rand.Rand) (outcome, bad string) {
	id = "fn-" + id
	if size < 8 {
		size = 8
	}
	if size > 20000 {
		size = 20000
	}
	over := c.kind == "over-receive-limit"
	var mux http.Handler = e.mux
	if over {
		mux = e.lmux
	}
	stream := strings.Contains(c.proto, "stream")
	k := 1
	if stream {
		k = 2 + lr.Intn(3)
	}
	msgSize := func(i int) int {
		n := size / k
		if over {
			if n > 2000 {
				n = 2000
			}
			if i == k-1 {
				n = recvLimit + 1 + lr.Intn(recvLimit)
			}
		}
		return n
	}
	codecOf := c.proto[strings.Index(c.proto, "/")+1:]
	encode := func(i int) []byte {
		msg := mkChunk(id, int32(i), prf(fmt.Sprintf("%s/%d", id, i), msgSize(i)))
		var b []byte
		if codecOf == "json" {
			b, _ = protojson.Marshal(msg)
		} else {
			b, _ = proto.Marshal(msg)
		}
		if c.kind == "malformed" && i == k-1 {
			if codecOf == "json" {
				b = b[:len(b)-1-lr.Intn(6)] // the text ends inside the object
			} else {
				b = append(b, 0x1a, 0x7f) // a bytes field longer than the message
			}
		}
		return b
	}

	finish := func(req *http.Request, grpcStatus bool) (string, string) {
		resp := wire.Serve(mux, req)
		if resp.Wedged {
			return "", "WEDGED"
		}
		if resp.Panic != nil {
			return "", "PANIC " + resp.Panic.Key() + ": " + resp.Panic.Value
		}
		if grpcStatus {
			if code, _, _, ok := resp.GRPCStatus(); ok && code == 0 {
				return "answered-ok", ""
			}
			return "rejected", ""
		}
		if resp.Code == 200 {
			return "answered-ok", ""
		}
		return "rejected", ""
	}

	switch {
	case strings.HasPrefix(c.proto, "socket-http1"):
		b := encode(0)
		conn, err := net.DialTimeout("tcp", e.addr, 5*time.Second)
		if err != nil {
			return "could-not-connect", ""
		}
		defer conn.Close()
		conn.SetDeadline(time.Now().Add(10 * time.Second))
		cut := 1 + lr.Intn(len(b)-1)
		head := fmt.Sprintf("POST /v1/echo HTTP/1.1\r\nHost: verif.test\r\nContent-Type: application/json\r\nContent-Length: %d\r\nConnection: close\r\n\r\n", len(b))
		if _, err := conn.Write(append([]byte(head), b[:cut]...)); err != nil {
			return "could-not-send", ""
		}
		// the client goes away in the middle of the body
		if tc, ok := conn.(*net.TCPConn); ok {
			tc.CloseWrite()
		}
		if _, err := io.Copy(io.Discard, conn); err != nil {
			return "no-reply-before-deadline", ""
		}
		return "connection-ended", ""

	case strings.HasPrefix(c.proto, "http-"):
		var body []byte
		path, ct := "/v1/echo", "application/json"
		if codecOf == "proto" {
			ct = "application/protobuf"
		}
		if stream {
			path = "/v1/cs"
		}
		if codecOf == "httpbody" {
			ct = "application/x-verif"
			n := size
			if over {
				n = recvLimit + 1 + lr.Intn(2*recvLimit)
			}
			body = prf(id, n)
			path = "/v1/uploadu/" + id
			if stream {
				path = "/v1/upload/" + id
			}
		} else {
			for i := 0; i < k; i++ {
				body = append(body, encode(i)...)
			}
		}
		hdr := http.Header{"Content-Type": {ct}, "Accept": {"application/json"}}
		cl := int64(len(body))
		var rd io.Reader
		switch c.kind {
		case "aborted-mid-body":
			rd = abortedBody(body, lr)
		case "cut-gzip":
			z := damageGzip(wire.Gzip(body), lr)
			hdr["Content-Encoding"] = []string{"gzip"}
			cl = int64(len(z))
			rd = slowBody(z, lr)
		default:
			rd = slowBody(body, lr)
		}
		if stream || lr.Intn(2) == 0 {
			cl = -1
		}
		return finish(wire.NewRequest("POST", path, "", hdr, rd, cl), false)

	default: // grpc, grpc-web
		var framed []byte
		hdr := http.Header{}
		if c.kind == "cut-gzip" {
			hdr["Grpc-Encoding"] = []string{"gzip"}
		}
		for i := 0; i < k; i++ {
			b := encode(i)
			switch {
			case c.kind == "cut-gzip" && i == k-1:
				framed = append(framed, wire.Frame(damageGzip(wire.Gzip(b), lr), true)...)
			case c.kind == "cut-gzip":
				framed = append(framed, wire.Frame(wire.Gzip(b), true)...)
			case over && i == k-1 && lr.Intn(2) == 0:
				// the frame only announces a size over the limit
				framed = append(framed, wire.FrameRaw(0, uint32(recvLimit+1+lr.Intn(1<<28)), b[:64])...)
			default:
				framed = append(framed, wire.Frame(b, false)...)
			}
		}
		method := "Echo"
		if stream {
			method = "Bidi"
		}
		var rd io.Reader
		if c.kind == "aborted-mid-body" {
			rd = abortedBody(framed, lr)
		} else {
			rd = slowBody(framed, lr)
		}
		if strings.HasPrefix(c.proto, "grpc-web") {
			req := wire.WebRequest(e.std.Full(method), hdr, framed, false, "")
			req.Body = io.NopCloser(rd)
			out, bad := finish(req, false)
			if out != "" {
				out = "completed"
			}
			return out, bad
		}
		return finish(wire.GRPCRequest(e.std.Full(method), hdr, rd), true)
	}
}

// gatedVictims are the ordinary lanes whose request body is always delivered
// through slowBody exactly once (so that a burst of them can be gated).
var gatedVictims = map[string]bool{"http/proto": true, "http/json+gzip": true, "grpc/identity": true, "grpc/gzip": true, "grpc/bidi-collect": true, "http/json-stream": true, "http/json-stream+gzip": true, "httpbody/unary-upload": true, "httpbody/stream-upload": true}

var victimSizes = []int{1, 5, 63, 64, 65, 127, 128, 129, 1000, 1024, 1025, 4096, 10000, 30000}

// failedNeighbourPhase runs every fault cell once per pass: a volley of failed
// requests of the cell's class interleaved with ordinary requests, followed
// by gated bursts of ordinary requests. Every verdict comes from the ordinary
// requests (client echo oracle, handler PRF oracle) and is keyed by the cell.
// The pools are process-wide and what a failed request leaves in them
// persists, so the phase stops at the first cell after which ordinary
// requests went wrong: that cell is the class the finding names.
func failedNeighbourPhase(r *mon.Run, env *c13env, m *c13mon, viol func(key, what string, c any), reqSeq *int64) {
	rng := r.Rand("c13-failed-neighbours")
	var gated, ordinary []lane
	for _, ln := range lanes {
		if ln.name == "grpc/gzip-fails-late" {
			continue
		}
		ordinary = append(ordinary, ln)
		if gatedVictims[ln.name] {
			gated = append(gated, ln)
		}
	}
	passes := r.Pick(1, 6)
	nFault, nBeside, nBurst, bursts := 8, 8, 20, 2
	defer m.cell.Store("")
	defer c13curGate.Store((*c13gate)(nil))
	for pass := 0; pass < passes; pass++ {
		cells := faultCells()
		rng.Shuffle(len(cells), func(i, j int) { cells[i], cells[j] = cells[j], cells[i] })
		for _, cell := range cells {
			before := r.Violations()
			m.cell.Store(cell.String())
			var wedged int32
			victim := func(ln lane, size int, lr *rand.Rand, stage string) {
				id := fmt.Sprintf("q%d", atomic.AddInt64(reqSeq, 1))
				m.enter()
				bad := ln.run(env, id, size, lr)
				m.leave()
				r.Eval(1)
				switch {
				case bad == "WEDGED":
					atomic.StoreInt32(&wedged, 1)
					r.Inconclusive("a request did not complete within the watchdog (" + ln.name + " " + stage + " failed requests of class " + cell.String() + ")")
				case strings.HasPrefix(bad, "PANIC "):
					viol("failed-neighbour:"+cell.String()+":"+strings.Fields(bad)[1], ln.name+" "+stage+" failed requests of class "+cell.String()+": "+bad, map[string]any{"cell": cell.String(), "lane": ln.name, "size": size})
				case bad != "":
					viol("failed-neighbour:"+cell.String()+":client-saw-wrong-reply:"+ln.name, fmt.Sprintf("ordinary request %s id=%s size=%d, issued %s failed requests of class %s: %s", ln.name, id, size, stage, cell, bad), map[string]any{"cell": cell.String(), "lane": ln.name, "size": size, "id": id, "stage": stage})
				default:
					r.Count("ordinary_requests_"+stage+"_failed_neighbours", 1)
					r.Distinct("failed-neighbour/" + cell.String() + "/" + stage + "/" + ln.name)
				}
			}
			// stage 1: failures interleaved with ordinary requests
			var wg sync.WaitGroup
			for i := 0; i < nFault+nBeside; i++ {
				wg.Add(1)
				seed := rng.Int63()
				go func(i int) {
					defer wg.Done()
					lr := rand.New(rand.NewSource(seed))
					if i%2 == 0 && i/2 < nBeside {
						victim(ordinary[lr.Intn(len(ordinary))], victimSizes[lr.Intn(len(victimSizes))], lr, "beside")
						return
					}
					size := c13sizes[lr.Intn(len(c13sizes))]
					id := fmt.Sprintf("q%d", atomic.AddInt64(reqSeq, 1))
					m.enter()
					outcome, bad := runFault(env, cell, id, size, lr)
					m.leave()
					r.Eval(1)
					switch {
					case bad == "WEDGED":
						atomic.StoreInt32(&wedged, 1)
						r.Inconclusive("a failed request did not complete within the watchdog (" + cell.String() + ")")
					case strings.HasPrefix(bad, "PANIC "):
						viol(strings.Fields(bad)[1], "failed request of class "+cell.String()+": "+bad, map[string]any{"cell": cell.String(), "size": size})
					default:
						r.Count("failed_requests_issued", 1)
						r.Count("failed_requests:"+cell.kind, 1)
						r.Count("failed_requests_outcome:"+outcome, 1)
						r.Distinct("failed-request/" + cell.String() + "/" + outcome)
					}
				}(i)
			}
			wg.Wait()
			// stage 2: bursts of ordinary requests that are all in the middle
			// of their body at the same time
			for b := 0; b < bursts && atomic.LoadInt32(&wedged) == 0; b++ {
				g := newGate(nBurst)
				c13curGate.Store(g)
				for i := 0; i < nBurst; i++ {
					wg.Add(1)
					seed := rng.Int63()
					go func() {
						defer wg.Done()
						lr := rand.New(rand.NewSource(seed))
						victim(gated[lr.Intn(len(gated))], victimSizes[lr.Intn(len(victimSizes))], lr, "after")
					}()
				}
				wg.Wait()
				c13curGate.Store((*c13gate)(nil))
				r.Count("gated_bursts_after_failed_requests", 1)
				if atomic.LoadInt32(&g.full) == 1 {
					r.Count("gated_bursts_with_every_request_mid_body_together", 1)
				}
			}
			r.Count("failed_neighbour_cells_run", 1)
			if atomic.LoadInt32(&wedged) != 0 {
				return
			}
			if r.Violations() > before {
				r.Count("failed_neighbour_cells_followed_by_wrong_ordinary_requests", 1)
				return
			}
		}
	}
}

// failedNeighbourLane is the same fault population inside the main mix.
var failedNeighbourLane = lane{"failed-request", func(e *c13env, id string, size int, lr *rand.Rand) string {
	cells := faultCells()
	_, bad := runFault(e, cells[lr.Intn(len(cells))], id, size, lr)
	return bad
}}

var c13sizes = []int{0, 1, 4, 5, 63, 64, 65, 127, 128, 129, 1000, 1023, 1024, 1025, 4096, 10000, 65535, 65536, 100000, 262144}

// RunC13 is the request-isolation check (built with -race).
func RunC13(r *mon.Run) {
	r.Rule = "32-128 concurrent clients, each issuing self-describing requests (payload = PRF(request id, length); sizes 0 B-256 KiB around the pooling thresholds) over HTTP JSON / protobuf / gzip request bodies, in-process gRPC identity / gzip, gRPC-web, collect-then-echo bidi streams, JSON client streams, HttpBody unary / streamed uploads (RecvMsg and AsHTTPBodyReader) and downloads (unary, chunked, AsHTTPBodyWriter), plus grpc-go unary / bidi over a real h2c socket, and the same handlers reached through RegisterConn to a real back-end (two back-ends per method; proxied unary, HTTP JSON, gzip-encoded HTTP client streams failed by the back-end while the upload is still running, bidi, bidi aborted by the client mid-stream, bidi failed by the back-end mid-stream, i.e. the proxy's pump goroutines with either side failing first); request bodies are delivered by slow fragmenting readers and the codecs / compressor are wrapped by yielding CodecOption / CompressorOption shims, i.e. goroutines are descheduled while pooled buffers are held. Oracles: handlers verify the PRF on every message (collecting handlers re-verify after the whole stream was received), clients verify that each reply is a function of their own request; the Go race detector watches the whole run. FAILED REQUESTS AS NEIGHBOURS: before the main mix, every cell of (http-unary json/proto/HttpBody, http-stream json/HttpBody, gRPC unary/stream, gRPC-web, a real HTTP/1 socket) x (body aborted by the client mid-body, body over the receive limit of a second mux sharing the pools, malformed body, cut/damaged gzip stream) is run as a volley of failed requests interleaved with ordinary requests and followed by gated bursts of ordinary requests (every request of a burst has delivered the first piece of its body before any delivers the second, i.e. all hold their pooled buffers together); the failed requests carry no verdict (panic / wedge only), the ordinary requests carry the echo / PRF oracles, keyed failed-neighbour:<protocol>:<fault kind>:<observable>:<lane>; the same fault population is also one lane of the main mix. distinct = (lane, size class) and (fault cell, stage, lane); peak in-flight requests and pooled-buffer reuse events are counted"
	r.Floor = 20
	std, err := svc.BuildStd("vf.std", "vf/std13.proto", "/v1")
	if err != nil {
		r.Inconclusive("harness: " + err.Error())
		return
	}
	m := &c13mon{r: r, bufSeen: map[uintptr]string{}}
	var vmu sync.Mutex
	viol := func(key, what string, c any) {
		vmu.Lock()
		defer vmu.Unlock()
		r.Violate(key, what, c)
	}
	impl := c13impl{m: m, viol: viol}
	// a unary and a stream interceptor add the same server-wide metadata
	// object to every call before the handler adds its own per-request
	// header: nothing of one call may end up in that object or in another
	// call's response
	serverMD := metadata.Pairs("x-vf-server", "verif", "x-vf-build-bin", "\x00\x01\x02")
	serverMDWant := serverMD.Copy()
	defer checkSharedReplies(viol)
	defer func() {
		if !reflect.DeepEqual(map[string][]string(serverMD), map[string][]string(serverMDWant)) {
			viol("interceptor-owned-metadata-modified", fmt.Sprintf("the metadata object the interceptors pass to SetHeader on every call was written to: now %d keys %v", len(serverMD), keysOf(serverMD)), nil)
		}
	}()
	mux, err := std.NewMux(impl,
		larking.UnaryServerInterceptorOption(func(ctx context.Context, req interface{}, info *grpc.UnaryServerInfo, handler grpc.UnaryHandler) (interface{}, error) {
			grpc.SetHeader(ctx, serverMD)
			return handler(ctx, req)
		}),
		larking.StreamServerInterceptorOption(func(srv interface{}, ss grpc.ServerStream, info *grpc.StreamServerInfo, handler grpc.StreamHandler) error {
			ss.SetHeader(serverMD)
			return handler(srv, ss)
		}),
		larking.CodecOption("application/json", yCodec{larking.CodecJSON{}, m}),
		larking.CodecOption("application/protobuf", yCodec{larking.CodecProto{}, m}),
		larking.CompressorOption("gzip", yComp{&larking.CompressorGzip{}}),
	)
	if err != nil {
		r.Inconclusive("harness: " + err.Error())
		return
	}
	srv, err := wire.StartLarking(mux, nil)
	if err != nil {
		r.Inconclusive("harness: " + err.Error())
		return
	}
	defer srv.Close()
	cc, err := wire.Dial(srv.Addr, grpc.WithDefaultCallOptions(grpc.MaxCallRecvMsgSize(1<<26), grpc.MaxCallSendMsgSize(1<<26)))
	if err != nil {
		r.Inconclusive("harness: " + err.Error())
		return
	}
	defer cc.Close()
	// the same handlers behind a mux with a small receive limit: bodies over
	// the limit are failed requests that cost little; the pools are shared
	lmux, err := std.NewMux(impl,
		larking.MaxReceiveMessageSizeOption(recvLimit),
		larking.CodecOption("application/json", yCodec{larking.CodecJSON{}, m}),
		larking.CodecOption("application/protobuf", yCodec{larking.CodecProto{}, m}),
		larking.CompressorOption("gzip", yComp{&larking.CompressorGzip{}}),
	)
	if err != nil {
		r.Inconclusive("harness: " + err.Error())
		return
	}
	env := &c13env{std: std, mux: mux, srv: srv, cc: cc, m: m, addr: srv.Addr, lmux: lmux}
	allLanes := append([]lane(nil), lanes...)
	allLanes = append(allLanes, failedNeighbourLane)
	if pstd, err := svc.BuildStd("vf.stdp", "vf/std13p.proto", "/p1"); err != nil {
		r.Inconclusive("harness: " + err.Error())
		return
	} else {
		be, err := backend.Start("p", true, backend.Svc{SD: pstd.SD, Impl: impl})
		if err != nil {
			r.Inconclusive("harness: backend: " + err.Error())
			return
		}
		defer be.Close()
		pmux, err := larking.NewMux(
			larking.CodecOption("application/json", yCodec{larking.CodecJSON{}, m}),
			larking.CodecOption("application/protobuf", yCodec{larking.CodecProto{}, m}),
		)
		if err != nil {
			r.Inconclusive("harness: " + err.Error())
			return
		}
		// two back-ends serve the same service: every proxied method has two
		// handlers, so the handler pick on the shared snapshot is exercised
		be2, err := backend.Start("p2", true, backend.Svc{SD: pstd.SD, Impl: impl})
		if err != nil {
			r.Inconclusive("harness: backend: " + err.Error())
			return
		}
		defer be2.Close()
		for _, b := range []*backend.Backend{be, be2} {
			rctx, rcancel := context.WithTimeout(context.Background(), 20*time.Second)
			err = pmux.RegisterConn(rctx, b.CC)
			rcancel()
			if err != nil {
				r.Inconclusive("harness: RegisterConn: " + err.Error())
				return
			}
		}
		psrv, err := wire.StartLarking(pmux, nil)
		if err != nil {
			r.Inconclusive("harness: " + err.Error())
			return
		}
		defer psrv.Close()
		pcc, err := wire.Dial(psrv.Addr, grpc.WithDefaultCallOptions(grpc.MaxCallRecvMsgSize(1<<26), grpc.MaxCallSendMsgSize(1<<26)))
		if err != nil {
			r.Inconclusive("harness: " + err.Error())
			return
		}
		defer pcc.Close()
		// the same back-ends behind a gateway with a small send limit: replies
		// the back-end may send are refused on their way to the client, so the
		// client side of a proxied stream fails while the back-end side is
		// still live
		pmuxL, err := larking.NewMux(larking.MaxSendMessageSizeOption(sendLimit))
		if err != nil {
			r.Inconclusive("harness: " + err.Error())
			return
		}
		for _, b := range []*backend.Backend{be, be2} {
			rctx, rcancel := context.WithTimeout(context.Background(), 20*time.Second)
			err = pmuxL.RegisterConn(rctx, b.CC)
			rcancel()
			if err != nil {
				r.Inconclusive("harness: RegisterConn: " + err.Error())
				return
			}
		}
		psrvL, err := wire.StartLarking(pmuxL, nil)
		if err != nil {
			r.Inconclusive("harness: " + err.Error())
			return
		}
		defer psrvL.Close()
		pccL, err := wire.Dial(psrvL.Addr, grpc.WithDefaultCallOptions(grpc.MaxCallRecvMsgSize(1<<26), grpc.MaxCallSendMsgSize(1<<26)))
		if err != nil {
			r.Inconclusive("harness: " + err.Error())
			return
		}
		defer pccL.Close()
		env.pccL = pccL
		env.pstd, env.pmux, env.pcc, env.paddr = pstd, pmux, pcc, psrv.Addr
		allLanes = append(allLanes, proxyLanes...)
		defer func() {
			if l := psrv.ErrLog(); strings.Contains(l, "panic serving") {
				viol("proxy-socket:panic-serving", "http server logged a panic: "+firstLines(l, 6), nil)
			}
		}()
	}

	rng := r.Rand("c13")
	total := r.Pick(16000, 400000)
	rounds := r.Pick(4, 40)
	per := total / rounds
	var reqSeq int64
	m.cell.Store("")
	c13curGate.Store((*c13gate)(nil))
	failedNeighbourPhase(r, env, m, viol, &reqSeq)
	for round := 0; round < rounds; round++ {
		clients := 32 << uint(rng.Intn(3)) // 32, 64, 128
		var wg sync.WaitGroup
		for c := 0; c < clients; c++ {
			wg.Add(1)
			seed := rng.Int63()
			go func(c int) {
				defer wg.Done()
				lr := rand.New(rand.NewSource(seed))
				for i := 0; i < per/clients; i++ {
					ln := allLanes[lr.Intn(len(allLanes))]
					size := c13sizes[lr.Intn(len(c13sizes))]
					if lr.Intn(4) == 0 {
						size = lr.Intn(3000)
					}
					if strings.HasPrefix(ln.name, "http/json") && size > 100000 {
						size = 100000
					}
					id := fmt.Sprintf("q%d", atomic.AddInt64(&reqSeq, 1))
					m.enter()
					bad := ln.run(env, id, size, lr)
					m.leave()
					r.Eval(1)
					if bad == "WEDGED" {
						r.Inconclusive("a request did not complete within the watchdog (" + ln.name + ")")
						return
					}
					if strings.HasPrefix(bad, "PANIC ") {
						viol(strings.Fields(bad)[1], ln.name+": "+bad, map[string]any{"lane": ln.name, "size": size})
						continue
					}
					if bad != "" {
						viol("client-saw-wrong-reply:"+ln.name, fmt.Sprintf("%s id=%s size=%d: %s", ln.name, id, size, bad), map[string]any{"lane": ln.name, "size": size, "id": id})
						continue
					}
					r.Distinct(ln.name + "/" + sizeClass(size))
				}
			}(c)
		}
		wg.Wait()
		if r.Violations() > 10 {
			break
		}
	}
	if l := srv.ErrLog(); strings.Contains(l, "panic serving") {
		viol("socket:panic-serving", "http server logged a panic: "+firstLines(l, 6), nil)
	}
	r.Count("peak_in_flight_requests", int(atomic.LoadInt64(&m.peak)))
	m.mu.Lock()
	r.Count("pooled_buffer_reuse_events_seen_by_codec_shim", int(m.reuse))
	m.mu.Unlock()
	raceReports(r)
	r.Sample(map[string]any{"lane": "http/json", "request": "POST /v1/echo {id:q17, seq:7, data:PRF(q17/7, 1024)} body delivered in 1-97 byte reads", "check": "handler: data==PRF(id/seq,len); client: echo==request"})
	r.Sample(map[string]any{"lane": "httpbody/stream-upload", "request": "POST /v1/upload/r-q99 raw PRF(r-q99, 65536) via AsHTTPBodyReader", "check": "handler: bytes==PRF(name,len); client: summary {tag,n}"})
	r.Assume("fault injection on proxied streams is limited to client aborts (context cancel without half-close) and scripted back-end failures after the second message")
	if atomic.LoadInt64(&m.peak) < 8 {
		r.Inconclusive("fewer than 8 requests were ever in flight together")
	}
}

func sizeClass(n int) string {
	switch {
	case n == 0:
		return "0"
	case n <= 5:
		return "1-5"
	case n <= 64:
		return "6-64"
	case n <= 1024:
		return "65-1024"
	case n <= 65536:
		return "1K-64K"
	}
	return ">64K"
}

var _ = base64.StdEncoding
