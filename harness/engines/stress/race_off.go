//go:build !race

package stress

const raceEnabled = false
