// Package codec is the C17 engine: it drives the exported stream codecs (and
// the HttpBody chunker through the verif hook) directly with scripted,
// fragmenting readers and checks every return value of ReadNext against the
// byte stream the harness itself produced.
package codec

import (
	"bytes"
	"encoding/json"
	"fmt"
	"io"
	"math/rand"
	"strings"

	"google.golang.org/protobuf/encoding/protowire"
	"larking.io/larking"

	"verif/internal/mon"
	"verif/internal/wire"
)

// Case is one fully materialised execution.
type Case struct {
	Codec       string   `json:"codec"` // proto | json | httpbody
	Msgs        [][]byte `json:"msgs"`  // expected messages (nil for raw streams)
	Stream      []byte   `json:"stream"`
	Carry       int      `json:"carry"`     // bytes of Stream handed over in the initial buffer
	CapExtra    int      `json:"cap_extra"` // extra capacity of every buffer handed to ReadNext
	Cuts        []int    `json:"cuts"`
	EOFWithData bool     `json:"eof_with_data"`
	Limit       int      `json:"limit"`
	// Expect: "ok" all messages then io.EOF; "toolarge" message index
	// TooLargeAt must be refused with an error; "badprefix" the first call
	// must fail (or at least never return an out-of-range n).
	Expect     string `json:"expect"`
	TooLargeAt int    `json:"too_large_at"`
	Class      string `json:"class"` // input class used in finding keys
	// Reuse: the buffer handed to the next ReadNext call is the SAME backing
	// array (unread remainder moved to its front, capacity as ReadNext left
	// it), the way a pooled buffer travels through a stream.
	Reuse bool `json:"reuse_buffer,omitempty"`
	// Relay: every returned message is written with WriteNext(dst[:n]) before
	// the look-ahead dst[n:] is used: writing must not touch it.
	Relay bool `json:"relay,omitempty"`
	// emptyReads marks a derived case (negative cuts = empty reads)
	emptyReads bool
}

type viol struct{ key, what string }

func codecOf(name string) larking.StreamCodec {
	switch name {
	case "proto":
		return larking.CodecProto{}
	case "json":
		return larking.CodecJSON{}
	case "httpbody":
		return larking.VerifHTTPBodyStreamCodec()
	}
	panic("unknown codec " + name)
}

// Exec runs one case and returns the violations it observed plus the number
// of ReadNext calls made.
func Exec(c *Case) (vs []viol, calls int, shape string) {
	sc := codecOf(c.Codec)
	rd := &wire.ScriptReader{Data: c.Stream[c.Carry:], Cuts: c.Cuts, EOFWithData: c.EOFWithData}
	buf := make([]byte, c.Carry, c.Carry+c.CapExtra)
	copy(buf, c.Stream[:c.Carry])

	add := func(k, w string) { vs = append(vs, viol{c.Codec + ":" + k + ":" + c.Class, w}) }

	var got [][]byte
	consumed := 0 // bytes of Stream accounted for by returned messages (incl. framing)
	var termErr error
	maxCalls := len(c.Msgs) + len(c.Stream) + 4
	for calls < maxCalls {
		calls++
		var (
			dst []byte
			n   int
			err error
		)
		pi := mon.Catch(func() { dst, n, err = sc.ReadNext(buf, rd, c.Limit) })
		if pi != nil {
			vs = append(vs, viol{pi.Key(), fmt.Sprintf("ReadNext panicked: %s", pi.Value)})
			return vs, calls, "panic"
		}
		if n < 0 || n > len(dst) {
			add("n-out-of-range", fmt.Sprintf("ReadNext returned n=%d with len(dst)=%d (err=%v)", n, len(dst), err))
			return vs, calls, "bad-n"
		}
		if c.Codec == "httpbody" {
			// Chunker convention (as consumed by the mux): a chunk may be
			// returned together with io.EOF, which ends the stream.
			if n > c.Limit {
				add("chunk-over-limit", fmt.Sprintf("chunk of %d bytes with limit %d", n, c.Limit))
			}
			if n > 0 || err == nil {
				got = append(got, append([]byte(nil), dst[:n]...))
				consumed += n
			}
			if err == nil && n == 0 && len(c.Stream) > 0 {
				add("empty-chunk", "empty chunk returned without error on a non-empty upload")
				return vs, calls, "empty-chunk"
			}
			if err != nil {
				termErr = err
				if rest := len(dst) - n; rest != 0 && err == io.EOF {
					add("bytes-lost", fmt.Sprintf("io.EOF returned while %d read bytes were not handed out as a chunk", rest))
				}
				break
			}
			// carry must be exactly the delivered-but-unreturned bytes
			delivered := c.Carry + rd.Delivered
			if !bytes.Equal(dst[n:], c.Stream[consumed:delivered]) {
				add("carry-mismatch", fmt.Sprintf("dst[n:] (%d bytes) is not the unread remainder (%d bytes)", len(dst)-n, delivered-consumed))
				return vs, calls, "carry"
			}
			buf = make([]byte, len(dst)-n, len(dst)-n+c.CapExtra)
			copy(buf, dst[n:])
			continue
		}
		if err != nil {
			termErr = err
			// After an error nothing more is read by a caller; remember what
			// was still buffered to detect dropped complete messages.
			if err == io.EOF {
				delivered := c.Carry + rd.Delivered
				if delivered == len(c.Stream) && len(got) < len(c.Msgs) && c.Expect == "ok" {
					cls := "lost-at-eof"
					if c.EOFWithData {
						cls = "lost-at-data-with-eof"
					}
					add(cls, fmt.Sprintf("io.EOF after %d of %d messages although all %d stream bytes had been delivered (%d still buffered)", len(got), len(c.Msgs), len(c.Stream), len(dst)))
				}
			}
			break
		}
		msg := append([]byte(nil), dst[:n]...)
		idx := len(got)
		got = append(got, msg)
		if c.Msgs != nil {
			if c.Codec == "proto" {
				// framing length taken from the stream itself (handles
				// non-minimal prefixes)
				if _, k := protowire.ConsumeVarint(c.Stream[min(consumed, len(c.Stream)):]); k > 0 {
					consumed += k
				}
			}
			consumed += n
		}
		delivered := c.Carry + rd.Delivered
		if c.Msgs != nil && consumed <= delivered && consumed <= len(c.Stream) {
			if !bytes.Equal(dst[n:], c.Stream[consumed:delivered]) {
				add("carry-mismatch", fmt.Sprintf("after message %d: dst[n:] has %d bytes, unread remainder has %d", idx, len(dst)-n, delivered-consumed))
				return vs, calls, "carry"
			}
		}
		if c.Expect == "toolarge" && idx == c.TooLargeAt {
			add("over-limit-returned", fmt.Sprintf("message %d of %d bytes returned (n=%d) with limit %d", idx, len(c.Msgs[idx]), n, c.Limit))
			return vs, calls, "toolarge-returned"
		}
		if c.Relay {
			var sink bytes.Buffer
			look := append([]byte(nil), dst[n:]...)
			if _, werr := codecOf(c.Codec).WriteNext(&sink, dst[:n]); werr != nil {
				add("relay-write-error", werr.Error())
				return vs, calls, "relay"
			}
			if !bytes.Equal(dst[n:], look) {
				add("writenext-modified-lookahead", fmt.Sprintf("after WriteNext(dst[:%d]) the %d look-ahead bytes behind the message differ from what ReadNext had returned", n, len(look)))
				return vs, calls, "relay"
			}
		}
		if c.Reuse {
			buf = append(dst[:0], dst[n:]...)
		} else {
			buf = make([]byte, len(dst)-n, len(dst)-n+c.CapExtra)
			copy(buf, dst[n:])
		}
	}
	if calls >= maxCalls {
		add("no-progress", fmt.Sprintf("%d ReadNext calls without reaching a terminal error", calls))
		return vs, calls, "spin"
	}

	switch c.Expect {
	case "ok":
		if c.Codec == "httpbody" {
			all := bytes.Join(got, nil)
			if !bytes.Equal(all, c.Stream) {
				add("bytes-lost", fmt.Sprintf("chunks carry %d bytes, upload has %d (limit %d)", len(all), len(c.Stream), c.Limit))
			}
			if termErr != io.EOF {
				add("bad-terminal", fmt.Sprintf("terminal error %v, want io.EOF", termErr))
			}
			return vs, calls, fmt.Sprintf("httpbody/chunks=%d/eofdata=%v", min(len(got), 5), c.EOFWithData)
		}
		nOK := 0
		for i := range got {
			if i >= len(c.Msgs) {
				add("phantom", fmt.Sprintf("message %d returned, only %d were written", i, len(c.Msgs)))
				break
			}
			want := c.Msgs[i]
			g := got[i]
			if c.Codec == "json" {
				g = bytes.TrimLeft(g, " \n\t\r")
			}
			if !bytes.Equal(g, want) {
				add("wrong-message", fmt.Sprintf("message %d: got %d bytes %q, want %d bytes %q", i, len(g), trunc(g), len(want), trunc(want)))
				break
			}
			nOK++
		}
		if len(got) < len(c.Msgs) && len(vs) == 0 {
			cls := "refused-or-short"
			if _, ok := termErr.(interface{ Error() string }); ok && termErr != io.EOF {
				cls = "refused-within-limit"
			}
			add(cls, fmt.Sprintf("only %d of %d messages returned, terminal error %v (limit %d)", len(got), len(c.Msgs), termErr, c.Limit))
		}
		if termErr != io.EOF && len(vs) == 0 {
			add("bad-terminal", fmt.Sprintf("terminal error %v, want io.EOF", termErr))
		}
		return vs, calls, fmt.Sprintf("%s/msgs=%d/carry=%v/eofdata=%v/cuts=%d", c.Codec, len(c.Msgs), c.Carry > 0, c.EOFWithData, min(len(c.Cuts), 6))
	case "toolarge":
		if termErr == nil || termErr == io.EOF {
			if len(got) <= c.TooLargeAt {
				add("over-limit-not-error", fmt.Sprintf("message %d over the limit %d ended with %v instead of an error", c.TooLargeAt, c.Limit, termErr))
			}
		}
		for i := 0; i < len(got) && i < c.TooLargeAt; i++ {
			g := got[i]
			if c.Codec == "json" {
				g = bytes.TrimLeft(g, " \n\t\r")
			}
			if !bytes.Equal(g, c.Msgs[i]) {
				add("wrong-message", fmt.Sprintf("message %d differs before the oversized one", i))
			}
		}
		if len(got) < c.TooLargeAt {
			add("refused-within-limit", fmt.Sprintf("messages before the oversized one were not all returned: %d of %d (err %v)", len(got), c.TooLargeAt, termErr))
		}
		return vs, calls, fmt.Sprintf("%s/toolarge@%d", c.Codec, c.TooLargeAt)
	case "badprefix":
		if len(got) > 0 {
			add("bad-prefix-accepted", fmt.Sprintf("a message of %d bytes was returned for an unrepresentable length prefix", len(got[0])))
		}
		return vs, calls, c.Codec + "/badprefix"
	}
	return vs, calls, "?"
}

func trunc(b []byte) []byte {
	if len(b) > 48 {
		return b[:48]
	}
	return b
}

func padVarint(v uint64, k int) []byte {
	// k-byte encoding of v (non-minimal when k is larger than needed).
	out := make([]byte, 0, k)
	for i := 0; i < k; i++ {
		b := byte(v & 0x7f)
		v >>= 7
		if i != k-1 {
			b |= 0x80
		}
		out = append(out, b)
	}
	return out
}

// writerCases checks WriteNext as a writer: sub-slices of one arena with live
// bytes behind every message.
func writerCases(g *gen) {
	for round := 0; round < g.r.Pick(60, 2000); round++ {
		k := 1 + g.rng.Intn(6)
		var arena []byte
		var bounds [][2]int
		for i := 0; i < k; i++ {
			n := []int{0, 1, 2, 5, 127, 128, 300, 16383, 16384}[g.rng.Intn(9)]
			start := len(arena)
			arena = append(arena, payload(g.rng, n)...)
			bounds = append(bounds, [2]int{start, len(arena)})
		}
		arena = append(arena, 0xAA, 0xBB, 0xCC, 0xDD, 0xEE, 0xFF, 0x11, 0x22) // canary tail
		arena = append(make([]byte, 0, len(arena)+64), arena...)              // and spare capacity
		pristine := append([]byte(nil), arena...)
		var out bytes.Buffer
		var want []byte
		g.r.Eval(1)
		for _, b := range bounds {
			m := arena[b[0]:b[1]]
			want = protowire.AppendVarint(want, uint64(len(m)))
			want = append(want, pristine[b[0]:b[1]]...)
			var werr error
			pi := mon.Catch(func() { _, werr = (larking.CodecProto{}).WriteNext(&out, m) })
			g.r.Count("writenext_calls", 1)
			c := map[string]any{"sizes": bounds, "class": "write-arena"}
			if pi != nil {
				g.r.Violate(pi.Key(), "WriteNext panicked: "+pi.Value, c)
				return
			}
			if werr != nil {
				g.r.Violate("proto:writenext-error:write-arena", werr.Error(), c)
				return
			}
			if !bytes.Equal(arena[:len(pristine)], pristine) {
				g.r.Violate("proto:writenext-modified-callers-memory:write-arena", fmt.Sprintf("after WriteNext of the %d-byte message at [%d:%d] the arena it is a sub-slice of has changed", len(m), b[0], b[1]), c)
				return
			}
		}
		if !bytes.Equal(out.Bytes(), want) {
			g.r.Violate("proto:writenext-wrong-framing:write-arena", fmt.Sprintf("WriteNext produced %d bytes, the reference framing has %d", out.Len(), len(want)), map[string]any{"sizes": bounds})
			return
		}
		g.r.Distinct(fmt.Sprintf("write-arena/k=%d", k))
	}
}

func protoStream(msgs [][]byte) []byte {
	var buf bytes.Buffer
	for _, m := range msgs {
		if _, err := (larking.CodecProto{}).WriteNext(&buf, m); err != nil {
			panic(err)
		}
	}
	return buf.Bytes()
}

func jsonStream(msgs [][]byte, sep string) []byte {
	var buf bytes.Buffer
	for i, m := range msgs {
		if i > 0 {
			buf.WriteString(sep)
		}
		if _, err := (larking.CodecJSON{}).WriteNext(&buf, m); err != nil {
			panic(err)
		}
	}
	return buf.Bytes()
}

func payload(rng *rand.Rand, n int) []byte {
	b := make([]byte, n)
	for i := range b {
		b[i] = byte(rng.Intn(256))
	}
	return b
}

var jsonAtoms = []string{
	`{}`, `{"a":1}`, `{"a":"}"}`, `{"a":"{"}`, `{"a":"\""}`, `{"a":"\\"}`, `{"a":{"b":{}}}`,
	`{"a":"x\\\"}{"}`, `{"k":[{"z":"}"},{}]}`, `{"a":"}"}`, `{"é":"ü{"}`,
}

func jsonObj(rng *rand.Rand, size int) []byte {
	// object of exactly size bytes (size >= 8): {"a":"xxxx"} with tricky filler
	if size < 8 {
		return []byte(`{}`)
	}
	fill := size - 8
	var sb strings.Builder
	sb.WriteString(`{"a":"`)
	alphabet := []string{"x", "{", "}", `\"`, `\\`, " "}
	for sb.Len()-6 < fill {
		a := alphabet[rng.Intn(len(alphabet))]
		if sb.Len()-6+len(a) > fill {
			a = "y"
		}
		sb.WriteString(a)
	}
	sb.WriteString(`"}`)
	return []byte(sb.String())
}

type gen struct {
	r     *mon.Run
	rng   *rand.Rand
	calls int64
	// emptySeq counts cases; every 7th gets an empty-reads twin
	emptySeq int64
}

func (g *gen) run(c *Case) {
	vs, calls, shape := Exec(c)
	g.calls += int64(calls)
	g.r.Eval(1)
	g.r.Count("readnext_calls", calls)
	if len(c.Cuts) > 1 || c.Carry > 0 {
		g.r.Distinct(shape + "/" + c.Class + "/" + c.Expect)
	}
	if c.EOFWithData {
		g.r.Count("cases_eof_with_data", 1)
	}
	if c.Carry > 0 {
		g.r.Count("cases_with_initial_carry", 1)
	}
	for _, v := range vs {
		g.r.Violate(v.key, v.what, c)
	}
	// the same schedule with empty reads ((0, nil): "nothing happened, call
	// again") before / between / after its fragments
	if !c.emptyReads && len(c.Cuts) > 0 && len(c.Cuts) <= 64 && g.emptySeq%7 == 0 {
		d := *c
		d.emptyReads = true
		d.Class = c.Class + "+empty-reads"
		d.Cuts = nil
		for i, k := range c.Cuts {
			for j := 0; j <= (i+int(g.emptySeq/7))%3; j++ {
				d.Cuts = append(d.Cuts, -1)
			}
			d.Cuts = append(d.Cuts, k)
		}
		d.Cuts = append(d.Cuts, -1)
		g.run(&d)
	}
	g.emptySeq++
	if g.r.SampleN() < 6 && g.rng.Intn(2000) == 0 {
		g.r.Sample(map[string]any{"codec": c.Codec, "stream_len": len(c.Stream), "msgs": len(c.Msgs), "cuts": c.Cuts, "carry": c.Carry, "limit": c.Limit, "eof_with_data": c.EOFWithData, "expect": c.Expect})
	}
}

// schedules enumerates read schedules for a stream: all partitions when it
// is short enough, otherwise single-byte reads, one read, and sampled cuts.
func (g *gen) schedules(n int, exhaustiveUpTo, samples int, f func(cuts []int)) {
	if n <= exhaustiveUpTo {
		wire.Partitions(n, f)
		return
	}
	ones := make([]int, n)
	for i := range ones {
		ones[i] = 1
	}
	f(ones)
	f([]int{n})
	f([]int{1, n - 1})
	f([]int{n - 1, 1})
	for s := 0; s < samples; s++ {
		var cuts []int
		left := n
		for left > 0 {
			var k int
			switch g.rng.Intn(4) {
			case 0:
				k = 1
			case 1:
				k = 1 + g.rng.Intn(3)
			case 2:
				k = 1 + g.rng.Intn(16)
			default:
				k = 1 + g.rng.Intn(left)
			}
			if k > left {
				k = left
			}
			cuts = append(cuts, k)
			left -= k
		}
		f(cuts)
	}
}

func (g *gen) sweep(codec string, msgs [][]byte, stream []byte, limit int, expect string, tooLargeAt int, class string, exhaustiveUpTo, samples int) {
	carries := []int{0}
	if len(stream) > 0 {
		if len(stream) <= 12 {
			for k := 1; k <= len(stream); k++ {
				carries = append(carries, k)
			}
		} else {
			carries = append(carries, 1, len(stream)/2, len(stream)-1, len(stream), g.rng.Intn(len(stream)))
		}
	}
	for _, carry := range carries {
		rest := len(stream) - carry
		capx := []int{0, 1, 64}
		if rest > exhaustiveUpTo {
			capx = []int{[]int{0, 1, 64, 4096}[g.rng.Intn(4)]}
		}
		for _, cx := range capx {
			g.schedules(rest, exhaustiveUpTo, samples, func(cuts []int) {
				for _, ewd := range []bool{false, true} {
					if rest == 0 && ewd {
						continue
					}
					g.run(&Case{Codec: codec, Msgs: msgs, Stream: stream, Carry: carry, CapExtra: cx, Cuts: append([]int(nil), cuts...), EOFWithData: ewd, Limit: limit, Expect: expect, TooLargeAt: tooLargeAt, Class: class})
				}
			})
		}
	}
}

// Run is the C17 check.
func Run(r *mon.Run) {
	r.Rule = "direct ReadNext/WriteNext executions of CodecProto, CodecJSON and the HttpBody chunker: message sequences over boundary sizes x every read partition of short streams (sampled for long) x both end-of-stream styles x every initial carry-over x limits around each size x 1..10-byte length prefixes; a case is counted non-trivial when the stream is fragmented into >1 reads or starts with carried-over bytes; distinct = (codec, #messages, carry?, eof style, #cuts capped) shape"
	r.Floor = 20
	g := &gen{r: r, rng: r.Rand("codec")}
	ex := r.Pick(9, 14)
	samples := r.Pick(6, 150)

	sizes := []int{0, 1, 2, 63, 64, 65, 127, 128, 129, 255, 256, 257, 300, 510, 511, 512, 513, 1023, 1024, 1025, 4095, 4096, 16383, 16384, 16385}
	// 1. short proto sequences, exhaustive partitions
	var seqs [][]int
	for _, a := range []int{0, 1, 2, 3} {
		seqs = append(seqs, []int{a})
		for _, b := range []int{0, 1, 2} {
			seqs = append(seqs, []int{a, b})
			if r.Thorough() {
				for _, c := range []int{0, 1} {
					seqs = append(seqs, []int{a, b, c})
				}
			}
		}
	}
	seqs = append(seqs, []int{}, []int{0, 0, 0}, []int{1, 1, 1, 1})
	for _, sq := range seqs {
		var msgs [][]byte
		for _, n := range sq {
			msgs = append(msgs, payload(g.rng, n))
		}
		msgs = nonNil(msgs)
		g.sweep("proto", msgs, protoStream(msgs), 4096, "ok", 0, "small", ex, samples)
	}
	// 2. boundary sizes, sampled schedules
	nseq := r.Pick(40, 2500)
	for i := 0; i < nseq; i++ {
		k := g.rng.Intn(5)
		var msgs [][]byte
		for j := 0; j < k; j++ {
			msgs = append(msgs, payload(g.rng, sizes[g.rng.Intn(len(sizes))]))
		}
		msgs = nonNil(msgs)
		g.sweep("proto", msgs, protoStream(msgs), 1<<20, "ok", 0, "boundary", ex, samples)
	}
	// 2b. every size up to 1100 (thorough: 2100) once, each followed by two
	// small messages so that a framing slip at one size is seen by the next
	// reads; one-read and byte-wise schedules only
	maxSize := r.Pick(1100, 2100)
	for n := 0; n <= maxSize; n++ {
		msgs := [][]byte{payload(g.rng, n), payload(g.rng, 3), payload(g.rng, 1)}
		st := protoStream(msgs)
		for _, cuts := range [][]int{{len(st)}, nil} {
			c := cuts
			if c == nil {
				c = []int{1 + g.rng.Intn(7), 1 + g.rng.Intn(200)}
			}
			for _, ewd := range []bool{false, true} {
				g.run(&Case{Codec: "proto", Msgs: msgs, Stream: st, CapExtra: []int{0, 64, 4096}[n%3], Cuts: c, EOFWithData: ewd, Limit: 1 << 20, Expect: "ok", Class: "size-sweep"})
			}
		}
	}
	// 2c. a buffer that travels through the stream (same backing array, the
	// capacity the previous message grew it to) and growth steps between
	// 1.0x and 2.5x of that capacity
	for _, s1 := range []int{60, 64, 200, 1000, 1024, 1500, 2000, 4096, 9000} {
		for _, f := range []int{100, 110, 124, 125, 126, 150, 167, 199, 200, 201, 250} {
			s2 := s1 * f / 100
			for _, s0 := range []int{0, 5} {
				msgs := [][]byte{payload(g.rng, s0), payload(g.rng, s1), payload(g.rng, s2), payload(g.rng, 3)}
				st := protoStream(msgs)
				for _, cuts := range [][]int{{len(st)}, {1 + g.rng.Intn(9), 1 + g.rng.Intn(4000)}, {4096}} {
					for _, relay := range []bool{false, true} {
						g.run(&Case{Codec: "proto", Msgs: msgs, Stream: st, Cuts: cuts, Limit: 1 << 20, Expect: "ok", Class: "reused-buffer", Reuse: true, Relay: relay})
					}
				}
			}
		}
	}
	// 2e. messages beyond 64 KiB (up to 1 MiB) between small ones, delivered
	// by readers that hand over as much as the caller's buffer takes (one
	// chunk), in 32 KiB / 64 KiB / 100000-byte pieces, in 4 KiB pieces and in
	// odd pieces: what follows a large message must not be lost in its read
	bigSizes := []int{65535, 65536, 65537, 70000, 131072, 200000}
	if r.Thorough() {
		bigSizes = append(bigSizes, 98304, 262144, 300001, 1<<20)
	}
	for bi, big := range bigSizes {
		for _, sq := range [][]int{{3, big, 5, 0, 17}, {big, 1, 2, 3}, {big, 300, big / 2, 300}, {5, big}, {big, big + 1, 7}} {
			var msgs [][]byte
			for _, n := range sq {
				msgs = append(msgs, payload(g.rng, n))
			}
			msgs = nonNil(msgs)
			st := protoStream(msgs)
			piece := func(n int) []int {
				var cs []int
				for left := len(st); left > 0; left -= n {
					cs = append(cs, n)
				}
				return cs
			}
			for ci, cuts := range [][]int{{len(st)}, piece(32768), piece(65536), piece(100000), piece(4096), piece(9973)} {
				for _, carryCap := range []int{0, 512, 65536} {
					if !r.Thorough() && (bi+ci+carryCap)%2 == 1 {
						continue
					}
					g.run(&Case{Codec: "proto", Msgs: msgs, Stream: st, CapExtra: carryCap, Cuts: cuts, EOFWithData: ci%2 == 1, Limit: 4 << 20, Expect: "ok", Class: "large-message-then-more"})
					if carryCap == 512 {
						g.run(&Case{Codec: "proto", Msgs: msgs, Stream: st, Cuts: cuts, Limit: 4 << 20, Expect: "ok", Class: "large-message-then-more", Reuse: true})
					}
				}
			}
		}
	}
	// 2d. WriteNext on messages that live in one arena (marshalled back to
	// back): the arena must be untouched and the output must be the
	// reference framing
	writerCases(g)
	// 3. limits around each size
	for _, n := range []int{1, 2, 127, 128, 129, 300} {
		for _, pre := range []int{0, 1, 2} {
			var msgs [][]byte
			for j := 0; j < pre; j++ {
				msgs = append(msgs, payload(g.rng, 1+g.rng.Intn(n)))
			}
			msgs = append(msgs, payload(g.rng, n))
			st := protoStream(msgs)
			g.sweep("proto", msgs, st, n, "ok", 0, "at-limit", 6, samples)
			g.sweep("proto", msgs, st, n+1, "ok", 0, "under-limit", 6, samples)
			if n > 1 {
				// every earlier message is <= n-1? make sure by regenerating
				for j := 0; j < pre; j++ {
					msgs[j] = payload(g.rng, 1+g.rng.Intn(n-1))
				}
				st = protoStream(msgs)
				g.sweep("proto", msgs, st, n-1, "toolarge", pre, "over-limit", 6, samples)
			}
		}
	}
	// 4. k-byte prefixes (non-minimal encodings), k = 1..10
	for k := 1; k <= 10; k++ {
		for _, sz := range []int{0, 1, 5, 100} {
			if k == 1 && sz > 127 {
				continue
			}
			var st []byte
			var msgs [][]byte
			for j := 0; j < 2; j++ {
				m := payload(g.rng, sz)
				msgs = append(msgs, m)
				st = append(st, padVarint(uint64(len(m)), k)...)
				st = append(st, m...)
			}
			g.sweep("proto", msgs, st, 4096, "ok", 0, "prefix-k-bytes", 8, samples)
		}
	}
	// 5. prefixes that do not fit the platform int / exceed the limit
	for _, v := range []uint64{1 << 63, 1<<63 + 1, 1<<64 - 1, 1<<64 - 4096, 1 << 62, 1 << 32, 1<<31 - 1, 1 << 31, 5000} {
		st := protowire.AppendVarint(nil, v)
		st = append(st, payload(g.rng, 6)...)
		cls := "prefix>=2^63"
		if v < 1<<63 {
			cls = "prefix-over-limit"
		}
		g.sweep("proto", nil, st, 4096, "badprefix", 0, cls, 12, 4)
	}
	// 11-byte varint, overflowing 10-byte varint
	for _, st := range [][]byte{
		{0x80, 0x80, 0x80, 0x80, 0x80, 0x80, 0x80, 0x80, 0x80, 0x80, 0x01, 1, 2, 3},
		{0xff, 0xff, 0xff, 0xff, 0xff, 0xff, 0xff, 0xff, 0xff, 0x7f, 1, 2, 3},
		{0xff, 0xff, 0xff, 0xff, 0xff, 0xff, 0xff, 0xff, 0xff, 0x02, 1, 2, 3},
	} {
		g.sweep("proto", nil, st, 4096, "badprefix", 0, "prefix-malformed", 14, 4)
	}

	// 6. JSON
	for i := 0; i < len(jsonAtoms); i++ {
		for j := -1; j < len(jsonAtoms); j++ {
			if !r.Thorough() && j >= 0 && (i+j)%3 != 0 {
				continue
			}
			msgs := [][]byte{[]byte(jsonAtoms[i])}
			if j >= 0 {
				msgs = append(msgs, []byte(jsonAtoms[j]))
			}
			for _, sep := range []string{"", "\n", " \n\t"} {
				st := jsonStream(msgs, sep)
				exj := ex
				if len(st) > 12 {
					exj = r.Pick(0, 12)
				}
				g.sweep("json", msgs, st, 4096, "ok", 0, "objects", exj, samples)
			}
		}
	}
	g.sweep("json", [][]byte{}, nil, 4096, "ok", 0, "empty", ex, 1)
	for _, n := range []int{9, 10, 16, 127, 128, 300} {
		m := jsonObj(g.rng, n)
		if len(m) != n {
			panic("jsonObj size")
		}
		first := jsonObj(g.rng, 8)
		g.sweep("json", [][]byte{m}, m, n, "ok", 0, "at-limit", 6, samples)
		g.sweep("json", [][]byte{first, m}, jsonStream([][]byte{first, m}, ""), n, "ok", 0, "at-limit", 6, samples)
		g.sweep("json", [][]byte{m}, m, n-1, "toolarge", 0, "over-limit", 6, samples)
		g.sweep("json", [][]byte{first, m}, jsonStream([][]byte{first, m}, ""), n-1, "toolarge", 1, "over-limit", 6, samples)
	}

	// 7. HttpBody chunker
	limits := []int{1, 7, 64, 100, 128, 1000}
	for _, L := range limits {
		lens := map[int]bool{0: true, 1: true, 2: true, 3: true}
		for k := 1; k <= 4; k++ {
			lens[k*L-1], lens[k*L], lens[k*L+1] = true, true, true
		}
		for n := range lens {
			if n < 0 || n > 5000 {
				continue
			}
			st := payload(g.rng, n)
			exh := 8
			if !r.Thorough() {
				exh = 6
			}
			g.sweep("httpbody", nil, st, L, "ok", 0, "upload", exh, r.Pick(4, 40))
		}
	}
	r.Set("exhaustive_partition_bound_bytes", ex)
	r.Assume("the scripted reader follows the io.Reader contract (never (0,nil) on a non-empty buffer; io.EOF repeated after the end)")
	r.Assume("limit > 0 as the mux always passes a positive limit; JSON at-limit cases have no leading whitespace")
}

func nonNil(m [][]byte) [][]byte {
	if m == nil {
		return [][]byte{}
	}
	return m
}

// Replay re-executes a stored case.
func Replay(r *mon.Run, raw json.RawMessage) {
	var c Case
	if err := json.Unmarshal(raw, &c); err != nil {
		r.Inconclusive("bad replay case: " + err.Error())
		return
	}
	vs, calls, shape := Exec(&c)
	r.Eval(1)
	r.Count("readnext_calls", calls)
	r.Distinct(shape)
	r.Distinct(shape + "#replay")
	for _, v := range vs {
		r.Violate(v.key, v.what, &c)
	}
}

func min(a, b int) int {
	if a < b {
		return a
	}
	return b
}
