package proxy

// Compression-fault lane of the C10 engine.
//
// Message compression on the front is per hop: larking inflates what the
// client sent and the back-end gets the plain message. The ordinary scripts
// only send well-formed compressed messages. This lane adds calls that FAIL
// inside the (de)compression path of the front - truncated, corrupt and
// over-limit compressed frames, sent by a raw HTTP/2 client to the back-end
// directly and through larking (gRPC and gRPC-web) - and interleaves them with
// ordinary compressed scripts of other "clients", which are executed both ways
// and compared like every other script. What a refused message leaves behind
// in the front (scratch buffers, pooled (de)compressors: process-wide state)
// must not reach the back-end or the client of any other call.

import (
	"bytes"
	"context"
	"fmt"
	"io"
	"math/rand"
	"net/http"
	"sort"
	"strconv"
	"strings"
	"sync"
	"time"

	"google.golang.org/protobuf/proto"

	"verif/internal/mon"
	"verif/internal/wire"
)

// ZCase is one compression-fault cell: a call whose message number After
// (counted from 0; the messages in front of it are well-formed and compressed)
// is a frame flagged "compressed" that cannot be inflated.
type ZCase struct {
	Front string `json:"front"` // grpc | web: the front that gets the broken frame
	Shape string `json:"shape"`
	Fault string `json:"fault"`
	After int    `json:"after"`
	Tail  int    `json:"tail"` // well-formed compressed messages behind the broken frame
	Mux   string `json:"mux"`  // default | small (receive limit of ChunkLimit bytes)
	Size  int    `json:"size"` // plain size of the data field of the broken message
	Salt  int    `json:"salt"`
}

func (c ZCase) String() string {
	return fmt.Sprintf("compression-fault %s/%s fault=%s after=%d tail=%d mux=%s size=%d salt=%d", c.Front, c.Shape, c.Fault, c.After, c.Tail, c.Mux, c.Size, c.Salt)
}

// zFaults are the classes of broken compressed frames.
//
//	truncated-trailer  the gzip stream lacks 1-7 of its last 8 bytes (all data inflates, then the stream ends early)
//	truncated-stream   cut inside the deflate data (some data inflates)
//	bad-checksum       a bit of the CRC-32 is flipped (all data inflates, then the check fails)
//	bad-length         a bit of the ISIZE field is flipped
//	corrupt-stream     a byte inside the deflate data is inverted
//	trailing-garbage   a complete gzip stream followed by bytes that are not a gzip header
//	not-gzip           the plain message with the compressed flag (fails before any data)
//	empty              a zero-length payload with the compressed flag
//	over-limit         a well-formed stream that inflates beyond the 4 MiB receive limit of both servers
//	over-front-limit   a well-formed stream that inflates beyond the receive limit of the (small) front only
var zFaults = []string{"truncated-trailer", "truncated-stream", "bad-checksum", "bad-length", "corrupt-stream", "trailing-garbage", "not-gzip", "empty", "over-limit"}

const zOverLimit = 4<<20 + 4096

// breakGzip builds the payload of the broken frame from the plain message.
func breakGzip(fault string, plain []byte, salt int) []byte {
	z := wire.Gzip(plain)
	body := len(z) - 18 // 10 byte header, 8 byte trailer
	switch fault {
	case "truncated-trailer":
		return z[:len(z)-(1+salt%7)]
	case "truncated-stream":
		if body < 2 {
			return z[:10]
		}
		num := []int{1, 3, 9}[salt%3]
		den := []int{2, 4, 10}[salt%3]
		return z[:10+body*num/den]
	case "bad-checksum":
		z[len(z)-8+salt%4] ^= 1 << uint(salt%8)
		return z
	case "bad-length":
		z[len(z)-4+salt%4] ^= 1 << uint(salt%8)
		return z
	case "corrupt-stream":
		if body > 0 {
			z[10+body/2] ^= 0xff
		}
		return z
	case "trailing-garbage":
		return append(z, []byte("\x00\x01not a gzip member")...)
	case "not-gzip":
		return plain
	case "empty":
		return nil
	}
	return z // over-limit, over-front-limit: well-formed, too large once inflated
}

// residue is the message inside the broken frame: every field of vf.Chunk is
// set (and unknown ones), so that whatever part of it surfaces in a message of
// another call shows in that message's summary.
func (c ZCase) residue() chunk {
	size := c.Size
	if c.Fault == "over-limit" {
		size = zOverLimit
	}
	var data []byte
	if size > 1<<20 {
		data = bytes.Repeat([]byte("compression-fault-residue/"), size/26+1)[:size]
	} else {
		data = sizedPayload(size, 200+c.Salt)
	}
	return chunk{ID: "residue-of-a-refused-message", Seq: int32(7000 + c.Salt), Text: "residue", Tag: "residue", Script: "residue", Data: data,
		Unknown: unknownFields("all", 900+c.Salt)}
}

var zPlan = map[string][]string{"unary": {}, "ss": {"s", "s"}, "cs": {"e"}, "bidi": {"s", "p"}}

// body builds the request body of the fault call for a call id: After
// well-formed compressed messages (the first one carries the back-end plan),
// the broken frame, Tail more well-formed messages; good lists the summaries
// of the well-formed ones in front of the broken frame.
func (c ZCase) body(callID string, broken []byte) (body []byte, good []string, err error) {
	bs := &Script{Front: c.Front, Shape: c.Shape, NMsg: c.After + 1 + c.Tail, Server: zPlan[c.Shape], BigReq: -1, BigRep: -1}
	reqs := bs.requests(callID)
	for i := 0; i < c.After; i++ {
		b, err := proto.Marshal(reqs[i].msg())
		if err != nil {
			return nil, nil, err
		}
		body = append(body, wire.Frame(wire.Gzip(b), true)...)
		good = append(good, reqs[i].sum(callID))
	}
	body = append(body, wire.Frame(broken, true)...)
	for i := c.After + 1; i < len(reqs); i++ {
		b, err := proto.Marshal(reqs[i].msg())
		if err != nil {
			return nil, nil, err
		}
		body = append(body, wire.Frame(wire.Gzip(b), true)...)
	}
	return body, good, nil
}

// zOut is what the raw client saw of a fault call.
type zOut struct {
	Outcome string `json:"outcome"` // refused | accepted | unobserved
	Status  string `json:"status"`  // grpc-status, "http-<code>", "reset"
	Msg     string `json:"msg,omitempty"`
	Replies int    `json:"replies"`
	Err     string `json:"err,omitempty"`
	Back    BackT  `json:"backend"`
}

// rawCall sends the body as one gRPC (h2c, prior knowledge) or gRPC-web call.
func (e *Env) rawCall(base string, web bool, shape, callID string, body []byte) zOut {
	ctx, cancel := context.WithTimeout(context.Background(), CallTimeout)
	defer cancel()
	var o zOut
	req, err := http.NewRequestWithContext(ctx, "POST", base+"/vf.px.Std/"+methodOf[shape], bytes.NewReader(body))
	if err != nil {
		o.Outcome, o.Err = "unobserved", err.Error()
		return o
	}
	if web {
		req.Header.Set("Content-Type", "application/grpc-web+proto")
		req.Header.Set("X-Grpc-Web", "1")
	} else {
		req.Header.Set("Content-Type", "application/grpc")
		req.Header.Set("Te", "trailers")
	}
	req.Header.Set("Grpc-Encoding", "gzip")
	req.Header.Set("Grpc-Accept-Encoding", "gzip")
	req.Header.Set("Grpc-Timeout", fmt.Sprintf("%dS", int(CallTimeout.Seconds())))
	req.Header.Set("X-Vf-Id", callID)
	resp, err := e.H2.Do(req)
	if err != nil {
		o.Outcome, o.Err = "unobserved", err.Error()
		if ctx.Err() == nil && strings.Contains(err.Error(), "stream error") {
			o.Outcome, o.Status = "refused", "reset"
		}
		return o
	}
	defer resp.Body.Close()
	raw, rerr := io.ReadAll(resp.Body)
	if rerr != nil {
		o.Err = rerr.Error()
		if ctx.Err() != nil {
			o.Outcome = "unobserved"
			return o
		}
		o.Outcome, o.Status = "refused", "reset"
		return o
	}
	gs, gm := "", ""
	if web {
		wr := wire.DecodeWeb(raw, false)
		o.Replies = len(wr.Msgs)
		if wr.HasTrail {
			for k, v := range wr.Trailer {
				if len(v) == 0 {
					continue
				}
				switch strings.ToLower(k) {
				case "grpc-status":
					gs = v[0]
				case "grpc-message":
					gm = v[0]
				}
			}
		}
	} else {
		frames, _ := wire.ParseFrames(raw)
		o.Replies = len(frames)
		gs, gm = resp.Trailer.Get("Grpc-Status"), resp.Trailer.Get("Grpc-Message")
	}
	if gs == "" {
		gs, gm = resp.Header.Get("Grpc-Status"), resp.Header.Get("Grpc-Message")
	}
	o.Msg = trunc(wire.DecodeGrpcMessage(gm), 200)
	switch {
	case gs != "":
		o.Status = gs
		if n, err := strconv.Atoi(gs); err == nil && n == 0 {
			o.Outcome = "accepted"
		} else {
			o.Outcome = "refused"
		}
	case resp.StatusCode != 200:
		o.Outcome, o.Status = "refused", fmt.Sprintf("http-%d", resp.StatusCode)
	default:
		o.Outcome, o.Err = "unobserved", "HTTP 200 without a grpc-status"
	}
	return o
}

// ZResult is one executed fault cell.
type ZResult struct {
	Case   ZCase    `json:"compression_fault"`
	Good   []string `json:"well_formed_messages"`
	Direct zOut     `json:"direct"`
	Proxy  zOut     `json:"proxied"`
	Incon  string   `json:"inconclusive,omitempty"`
	Viol   [][2]string
}

func isPrefix(p, l []string) bool {
	if len(p) > len(l) {
		return false
	}
	for i := range p {
		if p[i] != l[i] {
			return false
		}
	}
	return true
}

func recvOf(b BackT) []string {
	var out []string
	for _, i := range b.Inv {
		out = append(out, i.Recv...)
	}
	return out
}

// execFault sends the fault call to the back-end directly and through the
// front. Verdicts (only what equivalence demands whatever status a server
// chooses for a frame it cannot inflate): a call that the back-end's own
// server refuses must not succeed through larking, and the back-end must not
// be handed, through larking, anything but the well-formed messages that
// preceded the broken frame.
func (e *Env) execFault(c ZCase) *ZResult {
	res := &ZResult{Case: c}
	r := c.residue()
	plain, err := proto.Marshal(r.msg())
	if err != nil {
		res.Incon = "marshal: " + err.Error()
		return res
	}
	broken := breakGzip(c.Fault, plain, c.Salt)

	one := func(kind, base string, web bool) (zOut, []string) {
		id := e.callID(kind)
		rec := e.Reg.New(id)
		body, good, err := c.body(id, broken)
		if err != nil {
			e.Reg.Forget(id)
			return zOut{Outcome: "unobserved", Err: err.Error()}, nil
		}
		o := e.rawCall(base, web, c.Shape, id, body)
		o.Back = collect(rec, 3*time.Second)
		e.Reg.Forget(id)
		return o, good
	}
	var dgood, pgood []string
	if c.Fault == "over-front-limit" {
		// well-formed for the back-end's own server (which would execute it as
		// a call): only larking's front is asked; workload, no verdict
		res.Direct = zOut{Outcome: "not-run"}
	} else {
		res.Direct, dgood = one("zd", "http://"+e.Back.Addr, false)
	}
	front := e.Front.URL
	if c.Mux == "small" {
		front = e.SmallFront.URL
	}
	res.Proxy, pgood = one("zp", front, c.Front == "web")
	res.Good = pgood

	if res.Direct.Outcome == "unobserved" || res.Proxy.Outcome == "unobserved" {
		res.Incon = fmt.Sprintf("outcome of the fault call not observed (direct: %s %s; through larking: %s %s)", res.Direct.Outcome, res.Direct.Err, res.Proxy.Outcome, res.Proxy.Err)
		return res
	}
	for _, inv := range append(append([]InvT{}, res.Direct.Back.Inv...), res.Proxy.Back.Inv...) {
		if !inv.Finished {
			res.Incon = "back-end handler of the fault call still running after the call returned"
			return res
		}
	}
	if res.Direct.Outcome == "refused" && !isPrefix(recvOf(res.Direct.Back), dgood) {
		res.Incon = fmt.Sprintf("direct execution: the back-end's own server delivered %v (well-formed messages sent: %v): not a fault for the reference", recvOf(res.Direct.Back), dgood)
		return res
	}
	cls := fmt.Sprintf("%s,%s", c.Fault, map[bool]string{true: "first-message", false: "later-message"}[c.After == 0])
	if c.Mux == "small" {
		cls += ",front=small"
	}
	if res.Direct.Outcome == "refused" {
		if res.Proxy.Outcome == "accepted" {
			res.Viol = append(res.Viol, [2]string{"compression-fault-accepted:" + cls,
				fmt.Sprintf("a call with a compressed frame that cannot be inflated ends OK through larking (%d replies); the back-end's own server refuses it with grpc-status %s (%q)",
					res.Proxy.Replies, res.Direct.Status, res.Direct.Msg)})
		}
		if got := recvOf(res.Proxy.Back); !isPrefix(got, pgood) {
			res.Viol = append(res.Viol, [2]string{"compression-fault-delivered:" + cls,
				fmt.Sprintf("the back-end received %v through larking; the client sent the well-formed messages %v and then a frame that cannot be inflated (directly the back-end received %v)",
					got, pgood, recvOf(res.Direct.Back))})
		}
	}
	return res
}

// zSizeClass names the size of the broken message.
func (c ZCase) sizeClass() string {
	switch {
	case c.Fault == "over-limit":
		return "over-limit"
	case c.Size < 512:
		return "small"
	case c.Size < 16<<10:
		return "medium"
	}
	return "large"
}

// zCases is the PRNG-determined list of fault cells: every fault class on
// every shape of both fronts as the first message, on the client-streaming
// shapes also after 1-2 well-formed messages; sizes drawn from three classes.
func zCases(rng *rand.Rand, thorough bool) []ZCase {
	var out []ZCase
	sizes := []int{60, 3000, 40000}
	per := 1
	if thorough {
		per = 3
	}
	for k := 0; k < per; k++ {
		for _, front := range []string{"grpc", "web"} {
			for _, shape := range []string{"unary", "ss", "cs", "bidi"} {
				for _, f := range zFaults {
					if f == "over-limit" {
						// megabytes through gzip: a unary and a streaming call, on
						// one front each (quick) / on both fronts (thorough, once)
						ok := (shape == "unary" && front == "grpc") || (shape == "bidi" && front == "web")
						if thorough {
							ok = k == 0 && (shape == "unary" || shape == "bidi")
						}
						if !ok {
							continue
						}
					}
					afters := []int{0}
					if shape == "cs" || shape == "bidi" {
						afters = []int{0, 1 + rng.Intn(2)}
					}
					for _, a := range afters {
						tail := 0
						if shape == "cs" || shape == "bidi" {
							tail = rng.Intn(2) // the broken frame is the last one, or a well-formed message follows
						}
						out = append(out, ZCase{Front: front, Shape: shape, Fault: f, After: a, Tail: tail, Mux: "default", Size: sizes[rng.Intn(len(sizes))], Salt: rng.Intn(1000)})
					}
				}
				// beyond the limit of the front only (workload: the reference accepts it)
				out = append(out, ZCase{Front: front, Shape: shape, Fault: "over-front-limit", Mux: "small", Size: []int{150, 3000}[rng.Intn(2)], Salt: rng.Intn(1000)})
			}
		}
	}
	rng.Shuffle(len(out), func(i, j int) { out[i], out[j] = out[j], out[i] })
	return out
}

// zNeighbours draws the ordinary compressed scripts of a round: any plan
// structure with 1-3 messages on the gRPC and gRPC-web fronts, with drawn
// attributes, compression forced on.
func zNeighbours(rng *rand.Rand, pool []structure, n int) []*Script {
	var out []*Script
	for len(out) < n {
		st := pool[rng.Intn(len(pool))]
		s := materialise(rng, st)
		s.Gzip, s.Enc = true, ""
		if s.Front != "web" {
			s.MixFlags = false
		}
		s.Fam = "after-compression-fault:" + s.Fam
		out = append(out, s)
	}
	return out
}

type zRound struct {
	c  ZCase
	nb []*Script
}

// runZFaultCases executes the rounds: fault call (direct, through larking),
// then the round's ordinary compressed scripts, each executed both ways and
// compared by the ordinary oracle. Eight rounds run at the same time, so that
// fault calls also overlap with ordinary calls.
func runZFaultCases(r *mon.Run, e *Env) {
	rng := r.Rand("c10-compression-faults")
	cases := zCases(rng, r.Thorough())
	var pool []structure
	for _, st := range cat3(structures("grpc"), structures("web"), nil) {
		if st.NMsg >= 1 && st.NMsg <= 3 {
			pool = append(pool, st)
		}
	}
	rounds := make([]zRound, len(cases))
	for i, c := range cases {
		rounds[i] = zRound{c, zNeighbours(rng, pool, 3)}
	}
	r.Set("compression_fault_cells_planned", len(rounds))

	var mu sync.Mutex
	pairs := map[string]int{}
	ch := make(chan zRound)
	var wg sync.WaitGroup
	for w := 0; w < 8; w++ {
		wg.Add(1)
		go func() {
			defer wg.Done()
			for rd := range ch {
				zr := e.execFault(rd.c)
				if zr.Incon != "" {
					zr = e.execFault(rd.c) // once more before it counts as not observed
				}
				reportFault(r, zr, pairs, &mu)
				for _, s := range rd.nb {
					res := e.Exec(s)
					if res.Incon != "" || isHang(res) {
						// rests on the clock: executed again, the second result counts
						r.Count("scripts_re_executed", 1)
						res = e.Exec(s)
					}
					c := rd.c
					res.AfterFault = &c
					if res.Incon == "" {
						r.Count("compressed_calls_after_fault_compared", 1)
					}
					report(r, res)
				}
			}
		}()
	}
	for _, rd := range rounds {
		ch <- rd
	}
	close(ch)
	wg.Wait()

	var ks []string
	for k := range pairs {
		ks = append(ks, k)
	}
	sort.Strings(ks)
	m := map[string]int{}
	for _, k := range ks {
		m[k] = pairs[k]
	}
	r.Set("compression_fault_status_direct_vs_proxied", m)
}

func reportFault(r *mon.Run, zr *ZResult, pairs map[string]int, mu *sync.Mutex) {
	c := zr.Case
	r.Eval(2)
	if zr.Incon != "" {
		r.Count("inconclusive_scripts", 1)
		r.Inconclusive(c.String() + ": " + zr.Incon)
		return
	}
	r.Count("compression_fault_calls", 1)
	out := zr.Direct.Outcome + "-directly/" + zr.Proxy.Outcome + "-through-larking"
	switch {
	case zr.Direct.Outcome == "refused" && zr.Proxy.Outcome == "refused":
		r.Count("compression_faults_refused_both_ways", 1)
	case zr.Direct.Outcome == "not-run" && zr.Proxy.Outcome == "refused":
		r.Count("compression_faults_refused_by_front_only", 1)
	case zr.Direct.Outcome == "accepted":
		r.Count("compression_faults_accepted_by_reference", 1)
	}
	r.Count("well_formed_messages_before_fault_checked", len(recvOf(zr.Proxy.Back)))
	r.Distinct(fmt.Sprintf("compression-fault/%s/%s/%s/after=%d/tail=%d/size=%s/mux=%s/%s", c.Front, c.Shape, c.Fault, c.After, c.Tail, c.sizeClass(), c.Mux, out))
	if mu != nil {
		mu.Lock()
		pairs[fmt.Sprintf("%s:%s->%s", c.Fault, zr.Direct.Status, zr.Proxy.Status)]++
		mu.Unlock()
	}
	for _, v := range zr.Viol {
		r.Violate(fmt.Sprintf("%s/%s:%s", c.Front, c.Shape, v[0]), v[1]+" ["+c.String()+"]", zr)
	}
}

// replayFault re-executes a violation of this lane: the fault cell (alone,
// then after a fault call of every class), or
// - for an ordinary script that differed after a fault - rounds of (fault
// call through both paths, script) until the script differs.
func replayFault(r *mon.Run, e *Env, c ZCase, s *Script) {
	if s == nil {
		// repeated: what an earlier fault call left behind may be what makes
		// a later one differ
		zr := e.execFault(c)
		for i := 0; i < 6 && len(zr.Viol) == 0; i++ {
			for _, f := range zFaults {
				if f == "over-limit" && c.Fault != f {
					continue
				}
				pre := c
				pre.Fault = f
				e.execFault(pre)
				if zr = e.execFault(c); len(zr.Viol) > 0 {
					break
				}
			}
		}
		reportFault(r, zr, nil, nil)
		return
	}
	var res *Result
	for i := 0; i < 60; i++ {
		reportFault(r, e.execFault(c), nil, nil)
		res = e.Exec(s)
		if len(res.Diffs) > 0 {
			break
		}
	}
	res.AfterFault = &c
	report(r, res)
}
