package proxy

// Back-end availability lane of the C10 engine.
//
// Every other lane calls a back-end that is up. "Calling that back-end
// directly" is also defined when the back-end is NOT reachable at call time:
// the process was stopped after RegisterConn, it went away gracefully, its
// address accepts connections and drops them, something that is not a gRPC
// server answers there - and when it has come back. This lane gives each such
// outage its own back-end, Mux and front:
//
//	up    ordinary scripts, executed both ways and compared as usual
//	down  the back-end is made unavailable; for every front x shape x client
//	      deadline class a call is made on the back-end's own (direct)
//	      connection and then through larking
//	back  a server is started on the same address again; once both channels
//	      (the harness's and the one handed to RegisterConn) are READY,
//	      ordinary scripts are executed both ways and compared as usual
//
// Oracle of a "down" cell: the direct call, made with default call options,
// returned promptly with a definite status (in practice UNAVAILABLE). The call
// through larking must end with the same status code (HTTP: the documented
// status of that code and the google.rpc.Status body), must not deliver a
// reply, and must end at all. Only the code is compared: the text of the
// status is written by the client channel of each hop from its last connection
// error. A proxied call that is still pending when the watchdog fires although
// the direct call returned within milliseconds is a hang; like every verdict
// of this lane that could rest on the clock it is reported only if the same
// cell shows it again when it is re-executed.

import (
	"context"
	"fmt"
	"math/rand"
	"net"
	"net/http"
	"runtime"
	"sort"
	"strings"
	"sync"
	"sync/atomic"
	"time"

	"google.golang.org/grpc"
	"google.golang.org/grpc/codes"
	"google.golang.org/grpc/connectivity"
	"google.golang.org/grpc/reflection"
	rpb "google.golang.org/grpc/reflection/grpc_reflection_v1alpha"
	"google.golang.org/protobuf/reflect/protoreflect"
	"google.golang.org/protobuf/reflect/protoregistry"
	"larking.io/larking"

	"verif/engines/proxy/be"
	"verif/internal/mon"
	"verif/internal/vschema"
	"verif/internal/wire"
)

// availWatchdog bounds one call of a "down" cell; availShort is the client
// deadline of the deadline class "short" (announced to the server as
// grpc-timeout by grpc-go and by the gRPC-web client).
const (
	availWatchdog = 12 * time.Second
	availShort    = 4 * time.Second
	// a direct call that took longer than this did not "return promptly": the
	// cell decides nothing
	availPrompt = 2 * time.Second
)

// downKinds are the ways the back-end is unavailable.
//
//	stopped        grpc.Server.Stop: connections cut, nothing listens (connection refused)
//	graceful-stop  grpc.Server.GracefulStop: GOAWAY, then nothing listens
//	accept-close   the address accepts connections and closes them at once
//	not-grpc       the address is served by something that answers HTTP/1.1 400 and closes
var downKinds = []string{"stopped", "graceful-stop", "accept-close", "not-grpc"}

// ACell is one call against an unavailable back-end.
type ACell struct {
	Down     string `json:"down"`
	Front    string `json:"front"`
	Shape    string `json:"shape"`
	Deadline string `json:"deadline"` // short | none | long
	NMsg     int    `json:"nmsg"`
	InProc   bool   `json:"in_process,omitempty"`
	Gzip     bool   `json:"gzip,omitempty"`
	MDClass  string `json:"md_class"`
	MD       []KV   `json:"md,omitempty"`
	// First: the first call on both channels after the back-end went away
	// (the channels still believe they are connected).
	First bool `json:"first_after_loss,omitempty"`
}

func (c ACell) String() string {
	return fmt.Sprintf("backend-unavailable down=%s %s/%s deadline=%s n=%d in-process=%v gzip=%v md=%s first-after-loss=%v",
		c.Down, c.Front, c.Shape, c.Deadline, c.NMsg, c.InProc, c.Gzip, c.MDClass, c.First)
}

func (c ACell) class() string {
	cl := "down=" + c.Down + ",deadline=" + c.Deadline
	if c.InProc {
		cl += ",in-process"
	}
	return cl
}

// script is the call script of the cell (the back-end plan is never executed
// while the back-end is down).
func (c ACell) script() *Script {
	s := &Script{Front: c.Front, Shape: c.Shape, NMsg: c.NMsg, BigReq: -1, BigRep: -1, Fam: "backend-unavailable",
		Deadline: c.Deadline, InProc: c.InProc, Gzip: c.Gzip, MDClass: c.MDClass, MD: c.MD}
	switch c.Shape {
	case "unary":
		s.Server = []string{}
	case "ss":
		s.Server = []string{"s", "s"}
	case "cs":
		s.Server = []string{"e"}
		s.Client = cat(rep("s", c.NMsg), []string{"c"})
	case "bidi":
		s.Server = []string{"s", "p"}
		s.Client = cat(rep("s", c.NMsg), []string{"c"})
	}
	return s
}

// AResult is one executed cell.
type AResult struct {
	Cell    ACell   `json:"availability_cell"`
	Direct  ClientT `json:"direct_client"`
	Proxy   ClientT `json:"proxied_client"`
	DirectT string  `json:"direct_time"`
	ProxyT  string  `json:"proxied_time"`
	ProxyB  BackT   `json:"proxied_backend"`
	Diffs   []Diff  `json:"diffs,omitempty"`
	Incon   string  `json:"inconclusive,omitempty"`
	Dump    string  `json:"larking_goroutines,omitempty"`
}

// aEnv is one outage: an Env of its own (back-end, Mux with the back-end
// registered through RegisterConn, front) whose back-end can be taken away
// and brought back on the same address.
type aEnv struct {
	*Env
	kind string
	sd   protoreflect.ServiceDescriptor
	impl *Scripted
	fake net.Listener
	stop chan struct{}
	wg   sync.WaitGroup
}

func newAEnv(kind string) (*aEnv, error) {
	sd, err := pxService()
	if err != nil {
		return nil, err
	}
	e := &Env{Reg: NewRegistry(), Uploads: &uploadStore{}}
	a := &aEnv{Env: e, kind: kind, sd: sd, stop: make(chan struct{})}
	a.impl = &Scripted{Reg: e.Reg, Tag: "be", Uploads: e.Uploads}
	if e.Back, err = be.Start("be", true, be.Svc{SD: sd, Impl: a.impl}); err != nil {
		return nil, err
	}
	if e.Mux, err = larking.NewMux(); err != nil {
		a.Close()
		return nil, err
	}
	ctx, cancel := context.WithTimeout(context.Background(), 20*time.Second)
	defer cancel()
	var rerr error
	if pi := mon.Catch(func() { rerr = e.Mux.RegisterConn(ctx, e.Back.CC) }); pi != nil || rerr != nil {
		a.Close()
		return nil, fmt.Errorf("RegisterConn: %v %v", pi, rerr)
	}
	if e.Front, err = wire.StartLarking(e.Mux, nil); err != nil {
		a.Close()
		return nil, err
	}
	if e.CC, err = wire.Dial(e.Front.Addr); err != nil {
		a.Close()
		return nil, err
	}
	e.HC = &http.Client{Transport: &http.Transport{DisableCompression: true, MaxIdleConnsPerHost: 16}}
	e.H2 = wire.H2CClient()
	e.IP = &http.Client{Transport: inproc{e.Mux}}
	return a, nil
}

func (a *aEnv) Close() {
	a.dropFake()
	if a.HC != nil {
		a.HC.CloseIdleConnections()
	}
	if a.H2 != nil {
		a.H2.CloseIdleConnections()
	}
	a.Env.Close()
}

func (a *aEnv) dropFake() {
	if a.fake != nil {
		close(a.stop)
		a.fake.Close()
		a.wg.Wait()
		a.fake = nil
	}
}

// takeDown makes the back-end unavailable in the way of the env's kind.
func (a *aEnv) takeDown() error {
	switch a.kind {
	case "graceful-stop":
		done := make(chan struct{})
		go func() { a.Back.GS.GracefulStop(); close(done) }()
		select {
		case <-done:
		case <-time.After(10 * time.Second):
			a.Back.GS.Stop()
		}
	default:
		a.Back.GS.Stop()
	}
	if a.kind == "stopped" || a.kind == "graceful-stop" {
		return nil
	}
	// something else answers on the address now
	var lis net.Listener
	var err error
	for i := 0; i < 50; i++ {
		if lis, err = net.Listen("tcp", a.Back.Addr); err == nil {
			break
		}
		time.Sleep(20 * time.Millisecond)
	}
	if err != nil {
		return fmt.Errorf("cannot listen on the back-end's address again: %w", err)
	}
	a.fake = lis
	kind := a.kind
	a.wg.Add(1)
	go func() {
		defer a.wg.Done()
		for {
			c, err := lis.Accept()
			if err != nil {
				return
			}
			if kind == "not-grpc" {
				c.SetDeadline(time.Now().Add(2 * time.Second))
				c.Write([]byte("HTTP/1.1 400 Bad Request\r\nContent-Type: text/plain\r\nConnection: close\r\nContent-Length: 12\r\n\r\nnot a proxy\n"))
			}
			c.Close()
		}
	}()
	return nil
}

// bringBack serves the same implementation on the same address again and
// waits until both channels are READY (calls made before that would depend on
// where each channel is in its reconnect back-off, which is not larking's).
func (a *aEnv) bringBack() error {
	a.dropFake()
	var lis net.Listener
	var err error
	for i := 0; i < 50; i++ {
		if lis, err = net.Listen("tcp", a.Back.Addr); err == nil {
			break
		}
		time.Sleep(20 * time.Millisecond)
	}
	if err != nil {
		return fmt.Errorf("cannot listen on the back-end's address again: %w", err)
	}
	gs := grpc.NewServer()
	gs.RegisterService(vschema.ServiceDesc(a.sd, a.impl), struct{}{})
	rs := reflection.NewServer(reflection.ServerOptions{
		Services:           gs,
		DescriptorResolver: be.Resolver{Files: []protoreflect.FileDescriptor{a.sd.ParentFile()}},
		ExtensionResolver:  protoregistry.GlobalTypes,
	})
	rpb.RegisterServerReflectionServer(gs, rs)
	a.Back.GS = gs
	go gs.Serve(lis)
	ctx, cancel := context.WithTimeout(context.Background(), 20*time.Second)
	defer cancel()
	for _, cc := range []*grpc.ClientConn{a.Back.Direct, a.Back.CC} {
		cc.ResetConnectBackoff()
		cc.Connect()
		for {
			st := cc.GetState()
			if st == connectivity.Ready {
				break
			}
			if st == connectivity.Idle {
				cc.Connect()
			}
			if !cc.WaitForStateChange(ctx, st) {
				return fmt.Errorf("a channel to the restarted back-end did not become READY within 20 s (state %s)", st)
			}
			cc.ResetConnectBackoff()
		}
	}
	return nil
}

// execCell makes the call of the cell on the direct connection and through
// the front and compares how the two ended.
func (a *aEnv) execCell(c ACell, wantDump bool) *AResult {
	res := &AResult{Cell: c}
	s := c.script()

	ctxOf := func(raw bool) (context.Context, context.CancelFunc, *atomic.Bool) {
		fired := &atomic.Bool{}
		outer, cancel := context.WithCancel(context.Background())
		t := time.AfterFunc(availWatchdog, func() { fired.Store(true); cancel() })
		stop := func() { t.Stop(); cancel() }
		switch {
		case c.Deadline == "long":
			ctx, c2 := context.WithTimeout(outer, 5*time.Minute)
			return ctx, func() { c2(); stop() }, fired
		case c.Deadline == "short" && !raw:
			// grpc-go: the deadline of the context is the announced timeout
			ctx, c2 := context.WithTimeout(outer, availShort)
			return ctx, func() { c2(); stop() }, fired
		}
		// none; short on a raw front: announced in the grpc-timeout header, the
		// client itself keeps listening for the status the server ends with
		return outer, stop, fired
	}

	// direct
	did := a.callID("ad")
	drec := a.Reg.New(did)
	dctx, dcancel, dfired := ctxOf(false)
	t0 := time.Now()
	res.Direct = runGRPC(dctx, a.Back.Direct, s, did)
	dt := time.Since(t0)
	dcancel()
	res.DirectT = dt.Round(time.Microsecond).String()
	db := collect(drec, time.Second)
	a.Reg.Forget(did)
	switch {
	case dfired.Load() || res.Direct.TransportErr != "" || dt > availPrompt:
		res.Incon = fmt.Sprintf("direct call did not return promptly with a status (%s, %+v): nothing to compare", res.DirectT, res.Direct)
	case res.Direct.Code == int32(codes.OK) || db.Calls != 0 || len(res.Direct.Responses) > 0:
		res.Incon = fmt.Sprintf("direct call reached a back-end (%+v, handler invocations %d): the back-end is not unavailable", res.Direct, db.Calls)
	case res.Direct.Code == int32(codes.DeadlineExceeded) || res.Direct.Code == int32(codes.Canceled):
		res.Incon = fmt.Sprintf("direct call ended with a status of the client's own clock (%+v)", res.Direct)
	}
	if res.Incon != "" {
		return res
	}

	// through larking
	pid := a.callID("ap")
	prec := a.Reg.New(pid)
	raw := c.Front != "grpc"
	pctx, pcancel, pfired := ctxOf(raw)
	finished := make(chan struct{})
	var dump string
	var wg sync.WaitGroup
	if wantDump {
		wg.Add(1)
		go func() {
			defer wg.Done()
			select {
			case <-finished:
			case <-time.After(availWatchdog - 1500*time.Millisecond):
				buf := make([]byte, 4<<20)
				n := runtime.Stack(buf, true)
				dump = larkingGoroutines(string(buf[:n]))
			}
		}()
	}
	t1 := time.Now()
	switch c.Front {
	case "http":
		hc := a.HC
		if c.Shape == "bidi" {
			hc = a.H2
		}
		if c.InProc {
			hc = a.IP
		}
		res.Proxy = runHTTP(pctx, hc, a.Front.URL, s, pid)
	case "web":
		res.Proxy = runWeb(pctx, a.H2, a.Front.URL, s, pid)
	default:
		res.Proxy = runGRPC(pctx, a.CC, s, pid)
	}
	pt := time.Since(t1)
	close(finished)
	wg.Wait()
	pcancel()
	res.ProxyT = pt.Round(time.Microsecond).String()
	res.ProxyB = collect(prec, time.Second)
	a.Reg.Forget(pid)
	res.Dump = dump

	add := func(obs, f string, args ...any) {
		res.Diffs = append(res.Diffs, Diff{obs, c.class(), fmt.Sprintf(f, args...)})
	}
	dc, pc := res.Direct, res.Proxy
	dcode := codes.Code(dc.Code)
	switch {
	case pfired.Load():
		add("hang", "call through larking still pending after %s (watchdog); the direct call on the back-end's own connection ended with %s after %s (%q)",
			availWatchdog, dcode, res.DirectT, dc.Msg)
		return res
	case pc.TransportErr != "":
		add("transport-error", "front client failed without a status: %s (direct call: %s after %s)", pc.TransportErr, dcode, res.DirectT)
		return res
	}
	if res.ProxyB.Calls != 0 || len(pc.Responses) != 0 {
		add("responses", "%d replies and %d handler invocations through larking for a call that ends with %s directly without reaching a handler (proxied status %s %q)",
			len(pc.Responses), res.ProxyB.Calls, dcode, codes.Code(pc.Code), pc.Msg)
	}
	switch c.Front {
	case "http":
		if pc.BodyErr != "" {
			add("http-body", "%s (HTTP %d)", pc.BodyErr, pc.HTTPStatus)
			return res
		}
		ok := false
		for _, w := range expectedHTTP(dc.Code) {
			ok = ok || w == pc.HTTPStatus
		}
		if !ok {
			add("http-status", "HTTP %d (status body code=%d msg=%q) for a call that ends with %s directly (documented mapping: %v)", pc.HTTPStatus, pc.Code, pc.Msg, dcode, expectedHTTP(dc.Code))
		}
		if pc.HTTPStatus != 200 && pc.Code != dc.Code {
			add("status-code", "google.rpc.Status body code %s (%q) after %s, directly %s (%q) after %s", codes.Code(pc.Code), pc.Msg, res.ProxyT, dcode, dc.Msg, res.DirectT)
		}
	default:
		if pc.BodyErr != "" {
			add("web-body", "%s", pc.BodyErr)
			return res
		}
		if pc.Code != dc.Code {
			add("status-code", "final status code %s (%q) after %s, directly %s (%q) after %s", codes.Code(pc.Code), pc.Msg, res.ProxyT, dcode, dc.Msg, res.DirectT)
		}
	}
	return res
}

func aKey(c ACell, d Diff) string {
	return fmt.Sprintf("%s/%s:backend-unavailable:%s:%s", c.Front, c.Shape, d.Obs, d.Class)
}

func firstKey(res *AResult) string {
	if len(res.Diffs) == 0 {
		return ""
	}
	return aKey(res.Cell, res.Diffs[0])
}

// aCells enumerates the cells of one outage: every shape on every front with
// every deadline class the front can express (the HTTP front has none: no
// deadline), HTTP/1 shapes also in-process; message count, metadata and
// compression are drawn.
func aCells(rng *rand.Rand, down string) []ACell {
	var out []ACell
	for _, front := range []string{"grpc", "web", "http"} {
		for _, shape := range []string{"unary", "ss", "cs", "bidi"} {
			dls := []string{"short", "none", "long"}
			if front == "http" {
				dls = []string{"none"}
			}
			for _, dl := range dls {
				inps := []bool{false}
				if front == "http" && shape != "bidi" {
					inps = []bool{false, true}
				}
				for _, inp := range inps {
					c := ACell{Down: down, Front: front, Shape: shape, Deadline: dl, NMsg: 1, InProc: inp}
					if shape == "cs" || shape == "bidi" {
						c.NMsg = 1 + rng.Intn(3)
					}
					c.MDClass = mdClasses[rng.Intn(len(mdClasses))]
					c.MD = drawMD(rng, c.MDClass)
					c.Gzip = rng.Intn(4) == 0
					out = append(out, c)
				}
			}
		}
	}
	rng.Shuffle(len(out), func(i, j int) { out[i], out[j] = out[j], out[i] })
	out[0].First = true
	return out
}

type aRound struct {
	kind   string
	cells  []ACell
	before []*Script
	after  []*Script
}

// aNeighbours draws ordinary scripts (1-3 messages, any plan structure, drawn
// attributes) for the "up" and "back" phases.
func aNeighbours(rng *rand.Rand, pool []structure, n int, fam string) []*Script {
	var out []*Script
	for len(out) < n {
		s := materialise(rng, pool[rng.Intn(len(pool))])
		s.Fam = fam + ":" + s.Fam
		out = append(out, s)
	}
	return out
}

type aStats struct {
	mu    sync.Mutex
	pairs map[string]int
}

// runAvailCases executes the outages of the tier, four at a time.
func runAvailCases(r *mon.Run) {
	rng := r.Rand("c10-backend-availability")
	var pool []structure
	for _, st := range cat3(structures("grpc"), structures("web"), structures("http")) {
		if st.NMsg >= 1 && st.NMsg <= 3 {
			pool = append(pool, st)
		}
	}
	per := r.Pick(1, 3)
	var rounds []aRound
	ncells := 0
	for k := 0; k < per; k++ {
		for _, kind := range downKinds {
			rd := aRound{kind: kind, cells: aCells(rng, kind),
				before: aNeighbours(rng, pool, 3, "before-backend-loss"), after: aNeighbours(rng, pool, r.Pick(6, 12), "after-backend-return")}
			ncells += len(rd.cells)
			rounds = append(rounds, rd)
		}
	}
	r.Set("backend_unavailable_cells_planned", ncells)
	st := &aStats{pairs: map[string]int{}}
	ch := make(chan aRound)
	var wg sync.WaitGroup
	for w := 0; w < 4; w++ {
		wg.Add(1)
		go func() {
			defer wg.Done()
			for rd := range ch {
				runOutage(r, rd, st)
			}
		}()
	}
	for _, rd := range rounds {
		ch <- rd
	}
	close(ch)
	wg.Wait()

	var ks []string
	for k := range st.pairs {
		ks = append(ks, k)
	}
	sort.Strings(ks)
	m := map[string]int{}
	for _, k := range ks {
		m[k] = st.pairs[k]
	}
	r.Set("backend_unavailable_code_direct_vs_proxied", m)
}

// execOrdinary runs ordinary scripts of an outage's env through the ordinary
// oracle; results that rest on the clock are executed once more.
func execOrdinary(r *mon.Run, a *aEnv, list []*Script, counter string) {
	for _, s := range list {
		res := a.Exec(s)
		if res.Incon != "" || isHang(res) {
			r.Count("scripts_re_executed", 1)
			res = a.Exec(s)
		}
		if res.Incon == "" {
			r.Count(counter, 1)
		}
		report(r, res)
	}
}

func runOutage(r *mon.Run, rd aRound, st *aStats) {
	a, err := newAEnv(rd.kind)
	if err != nil {
		r.Inconclusive("backend-unavailable lane: cannot start back-end / front: " + err.Error())
		return
	}
	defer a.Close()
	defer func() {
		if log := a.Front.ErrLog(); strings.Contains(log, "panic serving") {
			key, first := panicKey(log)
			r.Violate(key, "larking front panicked while proxying to a back-end that went away: "+first, map[string]any{"server_log": trunc(log, 4000), "down": rd.kind})
		}
	}()

	// up
	execOrdinary(r, a, rd.before, "calls_before_backend_loss_compared")

	// down
	if err := a.takeDown(); err != nil {
		r.Count("backend_outages_not_set_up", 1)
		r.Inconclusive("backend-unavailable lane (" + rd.kind + "): " + err.Error())
		return
	}
	r.Count("backend_outages", 1)
	results := make([]*AResult, len(rd.cells))
	results[0] = a.execCell(rd.cells[0], false) // first call after the loss, alone
	par := func(idx []int, dumpFirst bool, f func(i int, res *AResult)) {
		sem := make(chan struct{}, 12)
		var wg sync.WaitGroup
		for n, i := range idx {
			wg.Add(1)
			sem <- struct{}{}
			go func(n, i int) {
				defer wg.Done()
				defer func() { <-sem }()
				f(i, a.execCell(rd.cells[i], dumpFirst && n == 0))
			}(n, i)
		}
		wg.Wait()
	}
	var rest []int
	for i := 1; i < len(rd.cells); i++ {
		rest = append(rest, i)
	}
	par(rest, false, func(i int, res *AResult) { results[i] = res })

	// Cells that differ or were not observed are executed again (the back-end
	// is still down, the process is idle apart from these calls); a difference
	// counts if the re-execution shows the same one.
	var again []int
	for i, res := range results {
		if res.Incon != "" || len(res.Diffs) > 0 {
			again = append(again, i)
		}
	}
	if len(again) > 0 {
		r.Count("backend_unavailable_cells_re_executed", len(again))
		var mu sync.Mutex
		par(again, true, func(i int, res *AResult) {
			mu.Lock()
			defer mu.Unlock()
			old := results[i]
			switch {
			case old.Incon != "":
				results[i] = res
				if len(res.Diffs) > 0 {
					// seen once only: not confirmed
					res.Incon = "difference seen in one of two executions only: " + res.Diffs[0].Detail
					res.Diffs = nil
				}
			case firstKey(res) == firstKey(old):
				if res.Dump != "" {
					old.Dump = res.Dump
				}
			default:
				old.Incon = "not reproduced when the cell was executed again: " + old.Diffs[0].Detail
				old.Diffs = nil
			}
		})
	}
	dump := ""
	for _, res := range results {
		if res.Dump != "" {
			dump = res.Dump
		}
	}
	for _, res := range results {
		if len(res.Diffs) > 0 && res.Diffs[0].Obs == "hang" && res.Dump == "" {
			res.Dump = dump
		}
		reportCell(r, res, st)
	}

	// back
	if err := a.bringBack(); err != nil {
		r.Count("backend_returns_not_observed", 1)
		r.Inconclusive("backend-unavailable lane (" + rd.kind + "): " + err.Error())
		return
	}
	r.Count("backend_returns", 1)
	execOrdinary(r, a, rd.after, "calls_after_backend_return_compared")
}

func reportCell(r *mon.Run, res *AResult, st *aStats) {
	c := res.Cell
	r.Eval(2)
	if res.Incon != "" {
		r.Count("inconclusive_scripts", 1)
		r.Inconclusive(c.String() + ": " + res.Incon)
		return
	}
	r.Count("backend_unavailable_calls_compared", 1)
	if c.First {
		r.Count("backend_unavailable_first_call_after_loss", 1)
	}
	if c.Deadline != "none" {
		r.Count("backend_unavailable_calls_with_client_deadline", 1)
	}
	if c.Front == "http" {
		r.Count("backend_unavailable_http_status_checked", 1)
	}
	if res.Proxy.Msg == res.Direct.Msg {
		r.Count("backend_unavailable_status_text_equal", 1) // observed, not demanded
	}
	pout := codes.Code(res.Proxy.Code).String()
	if len(res.Diffs) > 0 && (res.Diffs[0].Obs == "hang" || res.Diffs[0].Obs == "transport-error") {
		pout = res.Diffs[0].Obs
	}
	if st != nil {
		st.mu.Lock()
		st.pairs[fmt.Sprintf("%s:%s->%s", c.Down, codes.Code(res.Direct.Code), pout)]++
		st.mu.Unlock()
	}
	r.Distinct(fmt.Sprintf("backend-unavailable/%s/%s/down=%s/deadline=%s/n=%d/inproc=%v/first=%v/direct=%s",
		c.Front, c.Shape, c.Down, c.Deadline, c.NMsg, c.InProc, c.First, codes.Code(res.Direct.Code)))
	for _, d := range res.Diffs {
		r.Violate(aKey(c, d), fmt.Sprintf("%s [%s]", d.Detail, c), res)
	}
}

// replayCell re-executes a violation of this lane: a fresh outage of the
// cell's kind, the cell up to three times.
func replayCell(r *mon.Run, c ACell) {
	a, err := newAEnv(c.Down)
	if err != nil {
		r.Inconclusive("cannot start back-end / front: " + err.Error())
		return
	}
	defer a.Close()
	if res := a.Exec(&Script{Front: "grpc", Shape: "unary", NMsg: 1, Server: []string{}, Fam: "unary", BigReq: -1, BigRep: -1, MDClass: "none"}); res.Incon != "" {
		r.Inconclusive("replay: the back-end does not answer before the outage: " + res.Incon)
		return
	}
	if err := a.takeDown(); err != nil {
		r.Inconclusive("replay: " + err.Error())
		return
	}
	var res *AResult
	for i := 0; i < 3; i++ {
		res = a.execCell(c, true)
		if len(res.Diffs) > 0 {
			break
		}
	}
	reportCell(r, res, nil)
	fmt.Printf("replayed: %s %+v\n", c, res.Diffs)
}
