package proxy

import (
	"context"
	"encoding/hex"
	"encoding/json"
	"fmt"
	"hash/fnv"
	"io"
	"sort"
	"strings"
	"sync"
	"time"

	"google.golang.org/genproto/googleapis/rpc/errdetails"
	spb "google.golang.org/genproto/googleapis/rpc/status"
	"google.golang.org/grpc"
	"google.golang.org/grpc/codes"
	"google.golang.org/grpc/metadata"
	"google.golang.org/grpc/status"
	"google.golang.org/protobuf/encoding/protowire"
	"google.golang.org/protobuf/proto"
	"google.golang.org/protobuf/reflect/protoreflect"
	"google.golang.org/protobuf/types/known/anypb"
	"google.golang.org/protobuf/types/known/durationpb"
	"google.golang.org/protobuf/types/known/wrapperspb"

	"verif/internal/vschema"
)

const bigSize = 100 << 10

// ---------------------------------------------------------------- chunks

var chunkMD = vschema.Msg("vf.Chunk")

func cf(name string) protoreflect.FieldDescriptor {
	return chunkMD.Fields().ByName(protoreflect.Name(name))
}

type chunk struct {
	ID, Text, Script, Tag string
	Seq                   int32
	Data                  []byte
	Unknown               []byte // unknown-field set (wire format)
}

func (c chunk) msg() proto.Message {
	m := vschema.NewMsg(chunkMD)
	r := m.ProtoReflect()
	if c.ID != "" {
		r.Set(cf("id"), protoreflect.ValueOfString(c.ID))
	}
	if c.Seq != 0 {
		r.Set(cf("seq"), protoreflect.ValueOfInt32(c.Seq))
	}
	if len(c.Data) > 0 {
		r.Set(cf("data"), protoreflect.ValueOfBytes(c.Data))
	}
	if c.Text != "" {
		r.Set(cf("text"), protoreflect.ValueOfString(c.Text))
	}
	if c.Script != "" {
		r.Set(cf("script"), protoreflect.ValueOfString(c.Script))
	}
	if c.Tag != "" {
		r.Set(cf("tag"), protoreflect.ValueOfString(c.Tag))
	}
	if len(c.Unknown) > 0 {
		r.SetUnknown(protoreflect.RawFields(c.Unknown))
	}
	return m
}

// unknownFields builds an unknown-field set of a kind: fields vf.Chunk does
// not declare (a client or back-end built from a newer revision).
func unknownFields(kind string, salt int) []byte {
	var b []byte
	add := func(k string) {
		switch k {
		case "varint":
			b = protowire.AppendTag(b, 100, protowire.VarintType)
			b = protowire.AppendVarint(b, uint64(salt)*1000003+7)
		case "bytes":
			b = protowire.AppendTag(b, 101, protowire.BytesType)
			b = protowire.AppendBytes(b, []byte(fmt.Sprintf("unknown-%d\x00\xff", salt)))
		case "fixed32":
			b = protowire.AppendTag(b, 102, protowire.Fixed32Type)
			b = protowire.AppendFixed32(b, uint32(salt)+0xfffffff0)
		case "fixed64":
			b = protowire.AppendTag(b, 103, protowire.Fixed64Type)
			b = protowire.AppendFixed64(b, uint64(salt)<<40+5)
		case "nested": // a length-delimited field holding a message with fields of its own
			var in []byte
			in = protowire.AppendTag(in, 1, protowire.VarintType)
			in = protowire.AppendVarint(in, uint64(salt))
			in = protowire.AppendTag(in, 2, protowire.BytesType)
			in = protowire.AppendBytes(in, []byte("inner"))
			b = protowire.AppendTag(b, 104, protowire.BytesType)
			b = protowire.AppendBytes(b, in)
		case "high-number":
			b = protowire.AppendTag(b, 536870911, protowire.VarintType)
			b = protowire.AppendVarint(b, 1)
		}
	}
	if kind == "all" {
		for _, k := range []string{"varint", "bytes", "fixed32", "fixed64", "nested", "high-number"} {
			add(k)
		}
	} else {
		add(kind)
	}
	return b
}

var unknownKinds = []string{"varint", "bytes", "fixed32", "fixed64", "nested", "high-number", "all"}

// readChunk extracts the fields of a received message by field number, so it
// works whatever descriptor instance the message was built from.
func readChunk(m proto.Message) chunk {
	var c chunk
	c.Unknown = append([]byte(nil), m.ProtoReflect().GetUnknown()...)
	m.ProtoReflect().Range(func(fd protoreflect.FieldDescriptor, v protoreflect.Value) bool {
		switch fd.Number() {
		case 1:
			c.ID = v.String()
		case 2:
			c.Seq = int32(v.Int())
		case 3:
			c.Data = append([]byte(nil), v.Bytes()...)
		case 4:
			c.Text = v.String()
		case 5:
			c.Script = v.String()
		case 6:
			c.Tag = v.String()
		}
		return true
	})
	return c
}

// sum renders a chunk as a canonical one-line summary; the call id is
// replaced by "$" so that two executions of a script are comparable.
func (c chunk) sum(callID string) string {
	id := c.ID
	if id == callID {
		id = "$"
	}
	h := fnv.New32a()
	h.Write(c.Data)
	sc := ""
	if c.Script != "" {
		hs := fnv.New32a()
		hs.Write([]byte(c.Script))
		sc = fmt.Sprintf(" script#%08x", hs.Sum32())
	}
	if len(c.Unknown) > 0 {
		sc += fmt.Sprintf(" unknown-fields=%x", c.Unknown)
	}
	return fmt.Sprintf("{id=%s seq=%d text=%q tag=%q data=%d#%08x%s}", id, c.Seq, c.Text, c.Tag, len(c.Data), h.Sum32(), sc)
}

func bigPayload(salt int) []byte {
	b := make([]byte, bigSize)
	for i := range b {
		b[i] = byte(i*7 + salt)
	}
	return b
}

// ------------------------------------------------------------ recorders

// Inv is the transcript of one invocation of a back-end handler. All fields
// are guarded by mu (handlers and the executor run on different goroutines).
type Inv struct {
	mu       sync.Mutex
	Method   string
	MD       map[string][]string
	Recv     []string
	EOFAfter int // number of messages received before the half-close was seen, -1 never seen
	RecvErr  string
	Sent     int
	SendErr  string
	Deadline string // bucket of ctx.Deadline() at handler entry: none | <1min | >=1min
	State    string // what the handler is doing right now
	Finished bool
	done     chan struct{}
}

func (i *Inv) set(f func()) {
	i.mu.Lock()
	f()
	i.mu.Unlock()
}

// InvT is an immutable copy of an invocation transcript.
type InvT struct {
	Method   string              `json:"method"`
	MD       map[string][]string `json:"md"`
	Recv     []string            `json:"recv"`
	EOFAfter int                 `json:"eof_after"`
	RecvErr  string              `json:"recv_err,omitempty"`
	Deadline string              `json:"deadline,omitempty"`
	Sent     int                 `json:"sent"`
	SendErr  string              `json:"send_err,omitempty"`
	State    string              `json:"state"`
	Finished bool                `json:"finished"`
}

func (i *Inv) snapshot() InvT {
	i.mu.Lock()
	defer i.mu.Unlock()
	md := map[string][]string{}
	for k, v := range i.MD {
		md[k] = append([]string(nil), v...)
	}
	return InvT{Method: i.Method, MD: md, Recv: append([]string(nil), i.Recv...), EOFAfter: i.EOFAfter, RecvErr: i.RecvErr, Deadline: i.Deadline,
		Sent: i.Sent, SendErr: i.SendErr, State: i.State, Finished: i.Finished}
}

// Rec collects the invocations that belong to one call id.
type Rec struct {
	mu   sync.Mutex
	id   string
	invs []*Inv
}

func (r *Rec) list() []*Inv {
	r.mu.Lock()
	defer r.mu.Unlock()
	return append([]*Inv(nil), r.invs...)
}

// Registry maps call ids to recorders.
type Registry struct {
	mu      sync.Mutex
	recs    map[string]*Rec
	orphans []*Inv
}

func NewRegistry() *Registry { return &Registry{recs: map[string]*Rec{}} }

func (g *Registry) New(id string) *Rec {
	g.mu.Lock()
	defer g.mu.Unlock()
	r := &Rec{id: id}
	g.recs[id] = r
	return r
}

func (g *Registry) Forget(id string) {
	g.mu.Lock()
	delete(g.recs, id)
	g.mu.Unlock()
}

func (g *Registry) attach(id string, inv *Inv) bool {
	g.mu.Lock()
	r := g.recs[id]
	g.mu.Unlock()
	if r == nil {
		return false
	}
	r.mu.Lock()
	r.invs = append(r.invs, inv)
	r.mu.Unlock()
	return true
}

func (g *Registry) orphan(inv *Inv) {
	g.mu.Lock()
	if len(g.orphans) < 64 {
		g.orphans = append(g.orphans, inv)
	}
	g.mu.Unlock()
}

// TakeOrphans returns invocations that could not be attributed to a call.
func (g *Registry) TakeOrphans() []InvT {
	g.mu.Lock()
	o := g.orphans
	g.orphans = nil
	g.mu.Unlock()
	var out []InvT
	for _, i := range o {
		out = append(out, i.snapshot())
	}
	return out
}

// probeKeys are the request metadata keys outside the x-vf- namespace that
// scripts send on purpose: keys that merely look reserved. They are recorded
// like custom keys; what grpc-go itself withholds is withheld from the direct
// call too.
var probeKeys = map[string]bool{
	"grpc-trace-bin": true, "grpc-tags-bin": true, "grpc-previous-rpc-attempts": true, "grpc-foo": true, "grpc-foo-bin": true,
	"content-typex": true, "grpc-statusx": true, "grpc-messagex": true, "grpc-encodingx": true, "grpc-timeout-x": true, "te-x": true, "user-agent-x": true,
	"grpc-upper-case": true,
}

// customMD extracts the custom metadata (keys x-vf-*); "-bin" values are
// rendered in hex. Transport-level keys are excluded by construction.
func customMD(ctx context.Context) (map[string][]string, string, string) {
	out := map[string][]string{}
	id, plan := "", ""
	md, _ := metadata.FromIncomingContext(ctx)
	for k, vs := range md {
		switch k {
		case "connection", "keep-alive", "proxy-connection", "transfer-encoding", "upgrade":
			// fields of the client's HTTP/1 connection are not metadata of
			// the call: a direct call never carries them, so seeing one is a
			// difference
			out["(hop-by-hop) "+k] = append([]string(nil), vs...)
			continue
		}
		if !strings.HasPrefix(k, "x-vf-") && !probeKeys[k] {
			continue
		}
		if k == "x-vf-plan-bin" {
			// the back-end plan of a plan-in-metadata script: same bytes in
			// both executions, acted upon rather than compared
			if len(vs) > 0 {
				plan = vs[0]
			}
			continue
		}
		if k == "x-vf-id" {
			if len(vs) > 0 {
				id = vs[0]
			}
			if len(vs) == 1 {
				continue // the call id differs between the two executions by design
			}
		}
		var vv []string
		for _, v := range vs {
			if strings.HasSuffix(k, "-bin") {
				v = "hex:" + hex.EncodeToString([]byte(v))
			}
			vv = append(vv, v)
		}
		out[k] = vv
	}
	return out, id, plan
}

// ------------------------------------------------------- scripted service

// Scripted implements the back-end service: behaviour is taken from the
// script carried by the first request message.
type Scripted struct {
	Reg     *Registry
	Tag     string
	Uploads *uploadStore
}

func finalErr(p *planWire) error {
	if p.Code == 0 {
		return nil
	}
	st := &spb.Status{Code: p.Code, Message: p.Msg}
	add := func(m proto.Message) {
		a, err := anypb.New(m)
		if err != nil {
			panic(err)
		}
		st.Details = append(st.Details, a)
	}
	switch p.Det {
	case 1:
		add(&errdetails.ErrorInfo{Reason: "VF_REASON", Domain: "verif.test", Metadata: map[string]string{"k": "v"}})
	case 2:
		add(wrapperspb.String("detail one — ü"))
		add(durationpb.New(90 * time.Second))
	}
	return status.FromProto(st).Err()
}

func parsePlan(s string) *planWire {
	p := &planWire{BigRep: -1}
	if s == "" {
		return p
	}
	if err := json.Unmarshal([]byte(s), p); err != nil {
		return &planWire{BigRep: -1, Code: int32(codes.DataLoss), Msg: "harness: unparsable script: " + err.Error()}
	}
	return p
}

func inList(l []int, k int) bool {
	for _, x := range l {
		if x == k {
			return true
		}
	}
	return false
}

func (c chunk) zero() bool {
	return len(c.Unknown) == 0 && c.ID == "" && c.Seq == 0 && len(c.Data) == 0 && c.Text == "" && c.Script == "" && c.Tag == ""
}

func (b *Scripted) reply(id string, k int, p *planWire) proto.Message {
	if inList(p.Empty, k) {
		return chunk{}.msg() // encodes to zero bytes
	}
	if inList(p.Tiny, k) {
		return chunk{Seq: int32(k + 1)}.msg() // two bytes
	}
	c := chunk{ID: id, Seq: int32(k), Tag: b.Tag, Text: fmt.Sprintf("reply-%d", k)}
	if p.Unk != "" {
		c.Unknown = unknownFields(p.Unk, 500+k)
	}
	if p.BigRep == k {
		c.Data = bigPayload(k)
	} else {
		c.Data = []byte{byte(k), 0, 0xff}
	}
	return c.msg()
}

// deadlineBucket classifies the deadline the handler's context carries.
// The buckets are far apart (scripts use no deadline, about ten seconds, or
// five minutes), so the classification does not depend on timing.
func deadlineBucket(ctx context.Context) string {
	dl, ok := ctx.Deadline()
	switch {
	case !ok:
		return "none"
	case time.Until(dl) < time.Minute:
		return "<1min"
	}
	return ">=1min"
}

func (b *Scripted) begin(ctx context.Context, md protoreflect.MethodDescriptor) (*Inv, string, bool, string) {
	cmd, id, plan := customMD(ctx)
	inv := &Inv{Method: vschema.FullMethod(md), MD: cmd, EOFAfter: -1, State: "start", done: make(chan struct{}), Deadline: deadlineBucket(ctx)}
	attached := false
	if id != "" {
		attached = b.Reg.attach(id, inv)
	}
	return inv, id, attached, plan
}

func (b *Scripted) Unary(ctx context.Context, md protoreflect.MethodDescriptor, in proto.Message) (proto.Message, error) {
	if md.Name() == "UploadU" {
		return b.uploadUnary(ctx, md, in)
	}
	if md.Input().FullName() != chunkMD.FullName() {
		return nil, status.Error(codes.Unimplemented, "proxy engine: method not scripted")
	}
	inv, id, attached, metaPlan := b.begin(ctx, md)
	defer func() {
		inv.set(func() { inv.Finished, inv.State = true, "done" })
		close(inv.done)
	}()
	c := readChunk(in)
	if !attached {
		if !b.Reg.attach(c.ID, inv) {
			b.Reg.orphan(inv)
		}
		id = c.ID
	}
	planSrc := c.Script
	if metaPlan != "" {
		planSrc = metaPlan // plan-in-metadata script: the request may be empty
	}
	inv.set(func() {
		inv.Recv = append(inv.Recv, c.sum(id))
		inv.EOFAfter = 1 // a unary handler runs after the complete request has arrived
	})
	p := parsePlan(planSrc)
	if err := finalErr(p); err != nil {
		return nil, err
	}
	inv.set(func() { inv.Sent++ })
	return b.reply(id, 0, p), nil
}

func errClass(err error) string {
	if err == nil {
		return ""
	}
	if st, ok := status.FromError(err); ok {
		return st.Code().String()
	}
	return "non-status:" + err.Error()
}

func (b *Scripted) Stream(md protoreflect.MethodDescriptor, ss grpc.ServerStream) error {
	switch md.Name() {
	case "Upload":
		return b.upload(md, ss)
	case "Download":
		return b.download(md, ss)
	}
	if md.Input().FullName() != chunkMD.FullName() {
		return status.Error(codes.Unimplemented, "proxy engine: method not scripted")
	}
	inv, id, attached, metaPlan := b.begin(ss.Context(), md)
	defer func() {
		inv.set(func() { inv.Finished, inv.State = true, "done" })
		close(inv.done)
	}()
	single := !md.IsStreamingServer() // one reply at most

	eofSeen := false
	nrecv := 0
	// recv reads one message; ok=false when the stream ended or failed.
	recv := func(state string) (chunk, bool) {
		inv.set(func() { inv.State = state })
		m := vschema.NewMsg(md.Input())
		err := ss.RecvMsg(m)
		if err == io.EOF {
			eofSeen = true
			inv.set(func() { inv.EOFAfter = nrecv })
			return chunk{}, false
		}
		if err != nil {
			inv.set(func() { inv.RecvErr = errClass(err) })
			return chunk{}, false
		}
		c := readChunk(m)
		nrecv++
		if !attached {
			if attached = b.Reg.attach(c.ID, inv); attached {
				id = c.ID
			}
		}
		inv.set(func() { inv.Recv = append(inv.Recv, c.sum(id)) })
		return c, true
	}
	nsent := 0
	send := func(m proto.Message) bool {
		inv.set(func() { inv.State = "sending" })
		if err := ss.SendMsg(m); err != nil {
			inv.set(func() { inv.SendErr = errClass(err) })
			return false
		}
		nsent++
		inv.set(func() { inv.Sent = nsent })
		return true
	}

	if metaPlan != "" {
		// plan-in-metadata script: nothing is read unless the plan says so
		if !attached {
			b.Reg.orphan(inv)
		}
		p := parsePlan(metaPlan)
		if err := b.runSteps(p, id, single, recv, send, &eofSeen, &nsent); err != nil {
			return err
		}
		if err := finalErr(p); err != nil {
			return err
		}
		if single {
			if !send(b.reply(id, 0, p)) {
				return status.Error(codes.Aborted, "send failed")
			}
		}
		return nil
	}

	first, ok := recv("awaiting-first-message")
	if !ok {
		if !attached {
			b.Reg.orphan(inv)
		}
		if eofSeen {
			// a stream without any message carries no script: default
			// behaviour is an OK call with the single default reply for
			// client-streaming methods and no reply for bidi.
			if single {
				send(b.reply(id, 0, &planWire{BigRep: -1}))
			}
			return nil
		}
		return status.Error(codes.Aborted, "first recv failed")
	}
	if !attached {
		b.Reg.orphan(inv)
	}
	p := parsePlan(first.Script)
	if err := b.runSteps(p, first.ID, single, recv, send, &eofSeen, &nsent); err != nil {
		return err
	}
	if err := finalErr(p); err != nil {
		return err
	}
	if single {
		if !send(b.reply(first.ID, 0, p)) {
			return status.Error(codes.Aborted, "send failed")
		}
	}
	return nil
}

// runSteps executes the steps of a plan.
func (b *Scripted) runSteps(p *planWire, id string, single bool, recv func(string) (chunk, bool), send func(proto.Message) bool, eofSeen *bool, nsent *int) error {
	for _, step := range p.Steps {
		switch step {
		case "r":
			if *eofSeen {
				continue
			}
			if _, ok := recv("awaiting-message"); !ok && !*eofSeen {
				return status.Error(codes.Aborted, "recv failed")
			}
		case "e":
			for !*eofSeen {
				if _, ok := recv("awaiting-half-close"); !ok && !*eofSeen {
					return status.Error(codes.Aborted, "recv failed")
				}
			}
		case "s":
			if !send(b.reply(id, *nsent, p)) {
				return status.Error(codes.Aborted, "send failed")
			}
		case "p":
			for !*eofSeen {
				c, ok := recv("awaiting-message-or-half-close")
				if !ok {
					if !*eofSeen {
						return status.Error(codes.Aborted, "recv failed")
					}
					break
				}
				echo := chunk{ID: c.ID, Seq: c.Seq, Tag: b.Tag, Text: "echo:" + c.Text, Data: c.Data, Unknown: c.Unknown}
				if c.zero() {
					echo = chunk{} // an empty message is answered by an empty one
				}
				if !send(echo.msg()) {
					return status.Error(codes.Aborted, "send failed")
				}
			}
		}
	}
	return nil
}

// Transcript of the back-end side of one call.
type BackT struct {
	Calls int    `json:"calls"`
	Inv   []InvT `json:"invocations"`
}

// collect waits (bounded) for the invocations of a call to finish and
// returns their transcripts.
func collect(rec *Rec, wait time.Duration) BackT {
	deadline := time.Now().Add(wait)
	for _, inv := range rec.list() {
		select {
		case <-inv.done:
		case <-time.After(time.Until(deadline)):
		}
	}
	var bt BackT
	for _, inv := range rec.list() {
		bt.Inv = append(bt.Inv, inv.snapshot())
	}
	bt.Calls = len(bt.Inv)
	return bt
}

func mdString(md map[string][]string) string {
	var ks []string
	for k := range md {
		ks = append(ks, k)
	}
	sort.Strings(ks)
	var sb strings.Builder
	for _, k := range ks {
		fmt.Fprintf(&sb, "%s=%q;", k, md[k])
	}
	return sb.String()
}
