package proxy

import (
	"context"
	"encoding/json"
	"fmt"
	"net/http"
	"os"
	"path/filepath"
	"reflect"
	"regexp"
	"runtime"
	"sort"
	"strings"
	"sync"
	"sync/atomic"
	"time"

	"google.golang.org/grpc"
	"google.golang.org/grpc/codes"
	"larking.io/larking"

	"verif/engines/proxy/be"
	"verif/internal/mon"
	"verif/internal/vschema"
	"verif/internal/wire"
)

// CallTimeout is the per-call watchdog. Direct calls complete in
// milliseconds; a proxied call that is still pending when the deadline fires
// although the direct execution of the same script completed is reported as
// a hang together with what the back-end recorder saw.
var CallTimeout = 10 * time.Second

// timeoutOf is the watchdog of one script: full-duplex scripts move megabytes
// through gzip in both directions (slow under the race detector and 48
// workers) and get a wider one.
func timeoutOf(s *Script) time.Duration {
	if s.Duplex {
		return 4 * CallTimeout
	}
	return CallTimeout
}

// callCtx is the context of one execution: the script's deadline, and the
// watchdog. Scripts without a deadline (or with a long one) are watched by
// cancellation, which is not announced to the server.
func callCtx(s *Script, watchdog time.Duration) (context.Context, context.CancelFunc) {
	switch s.Deadline {
	case "none":
		ctx, cancel := context.WithCancel(context.Background())
		t := time.AfterFunc(watchdog, cancel)
		return ctx, func() { t.Stop(); cancel() }
	case "long":
		ctx, cancel := context.WithTimeout(context.Background(), 5*time.Minute)
		t := time.AfterFunc(watchdog, cancel)
		return ctx, func() { t.Stop(); cancel() }
	}
	return context.WithTimeout(context.Background(), watchdog)
}

// Env is the running infrastructure: scripted back-end, larking front.
type Env struct {
	Reg   *Registry
	Back  *be.Backend
	Mux   *larking.Mux
	Front *wire.Server
	CC    *grpc.ClientConn // grpc-go client of the front
	HC    *http.Client     // HTTP/1.1
	H2    *http.Client     // prior-knowledge h2c, used for bidi (HTTP/1 is half-duplex)
	IP    *http.Client     // in-process: requests handed to Mux.ServeHTTP
	// Local serves the same scripted implementation registered directly on a
	// second Mux: the reference for what a WebSocket client observes.
	LocalMux   *larking.Mux
	LocalFront *wire.Server
	// Small is a second Mux with the back-end registered through
	// RegisterConn and MaxReceiveMessageSize = ChunkLimit: HttpBody uploads
	// are cut into messages of that size.
	SmallMux   *larking.Mux
	SmallFront *wire.Server
	Uploads    *uploadStore
	seq        atomic.Int64
	// WantDump: capture larking's goroutines shortly before a proxied call
	// hits the deadline (set while hangs are re-executed and in replays).
	WantDump atomic.Bool
}

func (e *Env) Close() {
	if e.CC != nil {
		e.CC.Close()
	}
	if e.Front != nil {
		e.Front.Close()
	}
	if e.LocalFront != nil {
		e.LocalFront.Close()
	}
	if e.SmallFront != nil {
		e.SmallFront.Close()
	}
	if e.Back != nil {
		e.Back.Close()
	}
}

// NewEnv starts the back-end, registers it on a fresh Mux through
// RegisterConn (descriptor discovery by reflection) and serves the Mux.
func NewEnv() (*Env, error) {
	sd, err := pxService()
	if err != nil {
		return nil, err
	}
	e := &Env{Reg: NewRegistry(), Uploads: &uploadStore{}}
	impl := &Scripted{Reg: e.Reg, Tag: "be", Uploads: e.Uploads}
	if e.Back, err = be.Start("be", true, be.Svc{SD: sd, Impl: impl}); err != nil {
		return nil, err
	}
	if e.Mux, err = larking.NewMux(); err != nil {
		e.Close()
		return nil, err
	}
	ctx, cancel := context.WithTimeout(context.Background(), 20*time.Second)
	defer cancel()
	var rerr error
	if pi := mon.Catch(func() { rerr = e.Mux.RegisterConn(ctx, e.Back.CC) }); pi != nil {
		e.Close()
		return nil, fmt.Errorf("RegisterConn panicked: %s", pi.Value)
	}
	if rerr != nil {
		e.Close()
		return nil, fmt.Errorf("RegisterConn: %w", rerr)
	}
	if e.Front, err = wire.StartLarking(e.Mux, nil); err != nil {
		e.Close()
		return nil, err
	}
	if e.CC, err = wire.Dial(e.Front.Addr); err != nil {
		e.Close()
		return nil, err
	}
	e.HC = &http.Client{Transport: &http.Transport{DisableCompression: true, MaxIdleConnsPerHost: 64, MaxConnsPerHost: 0}}
	e.H2 = wire.H2CClient()
	e.IP = &http.Client{Transport: inproc{e.Mux}}

	if e.SmallMux, err = larking.NewMux(larking.MaxReceiveMessageSizeOption(ChunkLimit)); err != nil {
		e.Close()
		return nil, err
	}
	if pi := mon.Catch(func() { rerr = e.SmallMux.RegisterConn(ctx, e.Back.CC) }); pi != nil || rerr != nil {
		e.Close()
		return nil, fmt.Errorf("RegisterConn (small mux): %v %v", pi, rerr)
	}
	if e.SmallFront, err = wire.StartLarking(e.SmallMux, nil); err != nil {
		e.Close()
		return nil, err
	}

	reg, err := vschema.Registry(sd.ParentFile())
	if err != nil {
		e.Close()
		return nil, err
	}
	if e.LocalMux, err = larking.NewMux(larking.FilesOption(reg)); err != nil {
		e.Close()
		return nil, err
	}
	if err := larking.VerifRegisterService(e.LocalMux, vschema.ServiceDesc(sd, impl), struct{}{}); err != nil {
		e.Close()
		return nil, fmt.Errorf("local registration: %w", err)
	}
	if e.LocalFront, err = wire.StartLarking(e.LocalMux, nil); err != nil {
		e.Close()
		return nil, err
	}
	return e, nil
}

// Diff is one observable that differs between the two executions.
type Diff struct {
	Obs    string `json:"observable"`
	Class  string `json:"class"`
	Detail string `json:"detail"`
}

// Result of executing one script both ways.
type Result struct {
	Script  *Script `json:"script"`
	DirectB BackT   `json:"direct_backend"`
	DirectC ClientT `json:"direct_client"`
	ProxyB  BackT   `json:"proxied_backend"`
	ProxyC  ClientT `json:"proxied_client"`
	// WebSocket scripts: the same client against the locally registered
	// implementation
	LocalB *BackT   `json:"local_backend,omitempty"`
	LocalC *ClientT `json:"local_client,omitempty"`
	// compression-fault lane: the fault call that preceded this script
	AfterFault *ZCase `json:"after_compression_fault,omitempty"`
	Diffs      []Diff `json:"diffs,omitempty"`
	Incon      string `json:"inconclusive,omitempty"`
	Dump       string `json:"larking_goroutines,omitempty"`
	DirectT    string `json:"direct_time"`
	ProxyT     string `json:"proxied_time"`
}

var reGoroutine = regexp.MustCompile(`(?m)^goroutine \d+ \[`)

// larkingGoroutines extracts the goroutines with a larking frame from a dump.
func larkingGoroutines(dump string) string {
	idx := reGoroutine.FindAllStringIndex(dump, -1)
	var out []string
	for i, m := range idx {
		end := len(dump)
		if i+1 < len(idx) {
			end = idx[i+1][0]
		}
		g := dump[m[0]:end]
		if strings.Contains(g, "larking.io/larking.") {
			if len(g) > 1500 {
				g = g[:1500] + "...\n"
			}
			out = append(out, g)
		}
		if len(out) >= 4 {
			break
		}
	}
	return strings.Join(out, "")
}

func (e *Env) callID(kind string) string {
	return fmt.Sprintf("c%d%s", e.seq.Add(1), kind)
}

// Exec runs the script directly and through the front and compares.
func (e *Env) Exec(s *Script) *Result {
	res := &Result{Script: s}

	// direct execution
	did := e.callID("d")
	drec := e.Reg.New(did)
	callTimeout := timeoutOf(s)
	dctx, dcancel := callCtx(s, callTimeout)
	t0 := time.Now()
	res.DirectC = runGRPC(dctx, e.Back.Direct, s, did)
	dcancel()
	res.DirectT = time.Since(t0).Round(time.Microsecond).String()
	res.DirectB = collect(drec, 3*time.Second)
	e.Reg.Forget(did)
	if res.DirectC.TimedOut || res.DirectC.TransportErr != "" || time.Since(t0) > callTimeout/2 {
		res.Incon = fmt.Sprintf("direct execution did not complete normally (%+v): harness/script problem, nothing to compare", res.DirectC)
		return res
	}
	for _, inv := range res.DirectB.Inv {
		if !inv.Finished {
			res.Incon = "direct execution: back-end handler still running after the call returned"
			return res
		}
	}
	if res.DirectB.Calls != 1 {
		res.Incon = fmt.Sprintf("direct execution reached the back-end %d times", res.DirectB.Calls)
		return res
	}

	if s.Front == "ws" {
		// reference for what a WebSocket client observes: the same script
		// against the locally registered implementation
		lid := e.callID("l")
		lrec := e.Reg.New(lid)
		lctx, lcancel := context.WithTimeout(context.Background(), callTimeout)
		lc := runWS(lctx, e.LocalFront.Addr, s, lid)
		lcancel()
		lb := collect(lrec, 3*time.Second)
		e.Reg.Forget(lid)
		res.LocalB, res.LocalC = &lb, &lc
		if lc.TimedOut || lc.TransportErr != "" {
			res.Incon = fmt.Sprintf("local WebSocket execution did not complete normally (%+v): nothing to compare the close with", lc)
			return res
		}
	}

	// proxied execution
	pid := e.callID("p")
	prec := e.Reg.New(pid)
	pctx, pcancel := callCtx(s, callTimeout)
	finished := make(chan struct{})
	var dump string
	var hungState BackT
	var wg sync.WaitGroup
	wg.Add(1)
	go func() {
		// Shortly before the deadline: record what the back-end handler is
		// doing (the cancellation that follows the deadline changes it) and,
		// a few times per run, where larking's goroutines are.
		defer wg.Done()
		select {
		case <-finished:
		case <-time.After(callTimeout - 1500*time.Millisecond):
			hungState = collect(prec, 0)
			if e.WantDump.Load() {
				buf := make([]byte, 4<<20)
				n := runtime.Stack(buf, true)
				dump = larkingGoroutines(string(buf[:n]))
			}
		}
	}()
	t1 := time.Now()
	if s.Front == "http" {
		// HTTP/1 is half-duplex (the server may not answer before it has
		// read the whole request): bidi scripts, whose back-end may reply
		// while messages are outstanding, go over h2c.
		hc := e.HC
		if s.Shape == "bidi" || streamed(s) {
			hc = e.H2
		}
		if s.InProc {
			hc = e.IP
		}
		res.ProxyC = runHTTP(pctx, hc, e.Front.URL, s, pid)
	} else if s.Front == "ws" {
		res.ProxyC = runWS(pctx, e.Front.Addr, s, pid)
	} else if s.Front == "web" {
		res.ProxyC = runWeb(pctx, e.H2, e.Front.URL, s, pid)
	} else {
		res.ProxyC = runGRPC(pctx, e.CC, s, pid)
	}
	elapsed := time.Since(t1)
	close(finished)
	wg.Wait()
	pcancel()
	res.ProxyT = elapsed.Round(time.Microsecond).String()
	res.ProxyB = collect(prec, 3*time.Second)
	e.Reg.Forget(pid)
	res.Dump = dump
	// The deadline travels to larking (grpc-timeout), whose own timer may
	// fire a moment before the client's: a call that used up the whole
	// budget timed out, whoever noticed first.
	if elapsed >= callTimeout-time.Second {
		res.ProxyC.TimedOut = true
	}

	if res.ProxyC.TimedOut {
		res.ProxyB = hungState
		state := "never-invoked"
		if len(hungState.Inv) > 0 {
			state = hungState.Inv[0].State
		}
		res.Diffs = append(res.Diffs, Diff{"hang", "backend-" + state,
			fmt.Sprintf("proxied call still pending at the %s deadline (direct call took %s); back-end recorder: %s", callTimeout, res.DirectT, invSummary(hungState))})
		return res
	}
	if res.ProxyC.TransportErr != "" {
		res.Diffs = append(res.Diffs, Diff{"transport-error", s.Fam, "front client failed without a status: " + res.ProxyC.TransportErr})
		return res
	}
	res.Diffs = compare(s, res)
	return res
}

func invSummary(b BackT) string {
	if len(b.Inv) == 0 {
		return "handler never invoked"
	}
	var parts []string
	for _, i := range b.Inv {
		parts = append(parts, fmt.Sprintf("state=%s received=%d half-close-seen=%v sent=%d recv-err=%q", i.State, len(i.Recv), i.EOFAfter >= 0, i.Sent, i.RecvErr))
	}
	return strings.Join(parts, " | ")
}

// expectedHTTP is the documented google.rpc.Code -> HTTP status mapping
// (google/rpc/code.proto); CANCELLED may be 499 or 408.
func expectedHTTP(code int32) []int {
	switch codes.Code(code) {
	case codes.OK:
		return []int{200}
	case codes.Canceled:
		return []int{499, 408}
	case codes.Unknown, codes.Internal, codes.DataLoss:
		return []int{500}
	case codes.InvalidArgument, codes.FailedPrecondition, codes.OutOfRange:
		return []int{400}
	case codes.DeadlineExceeded:
		return []int{504}
	case codes.NotFound:
		return []int{404}
	case codes.AlreadyExists, codes.Aborted:
		return []int{409}
	case codes.PermissionDenied:
		return []int{403}
	case codes.Unauthenticated:
		return []int{401}
	case codes.ResourceExhausted:
		return []int{429}
	case codes.Unimplemented:
		return []int{501}
	case codes.Unavailable:
		return []int{503}
	}
	return nil
}

func msgClass(s *Script) string { return "msg=" + s.Final.MsgC }
func detClass(s *Script) string { return fmt.Sprintf("details=%d", s.Final.Det) }

func nClass(s *Script) string {
	c := s.Fam
	if s.Hop != "" {
		c += ",hop=" + s.Hop
	}
	if s.InProc {
		c += ",in-process"
	}
	if s.NMsg == 0 {
		c += ",n=0"
	}
	if s.Gzip {
		c += ",gzip"
	}
	if s.Enc != "" {
		c += ",enc=" + s.Enc
	}
	for _, t := range s.Texts {
		if t != "" {
			c += ",text=" + textClass(t)
		}
	}
	if s.Unk != "" {
		c += ",unknown-fields=" + s.Unk
	}
	if s.ProtoBody {
		c += ",protobuf-body"
	}
	return c
}

// compare lists the observables on which the proxied execution differs from
// the direct one.
func compare(s *Script, r *Result) []Diff {
	var ds []Diff
	add := func(obs, class, f string, a ...any) { ds = append(ds, Diff{obs, class, fmt.Sprintf(f, a...)}) }
	d, p := r.DirectB, r.ProxyB
	if p.Calls != d.Calls {
		add("backend-calls", nClass(s), "back-end handler invoked %d times through larking, %d times directly (proxied client saw: responses %v, status %s %q)",
			p.Calls, d.Calls, r.ProxyC.Responses, codes.Code(r.ProxyC.Code), r.ProxyC.Msg)
		if p.Calls == 0 {
			return ds // the call never reached the back-end: everything else follows from that
		}
	}
	if p.Calls >= 1 && d.Calls == 1 {
		di, pi := d.Inv[0], p.Inv[0]
		if di.Method != pi.Method {
			add("backend-method", nClass(s), "method %s vs %s", pi.Method, di.Method)
		}
		if !reflect.DeepEqual(di.MD, pi.MD) {
			add("backend-metadata", "md="+s.MDClass+map[bool]string{true: ",bin-padded"}[s.BinPad], "custom request metadata at the back-end: proxied %s direct %s", mdString(pi.MD), mdString(di.MD))
		}
		if !reflect.DeepEqual(di.Recv, pi.Recv) {
			add("backend-messages", nClass(s), "request messages at the back-end: proxied %v direct %v", pi.Recv, di.Recv)
		}
		if (s.Front == "grpc" || s.Front == "web") && di.Deadline != pi.Deadline {
			add("backend-deadline", "deadline="+map[string]string{"": "default"}[s.Deadline]+s.Deadline, "deadline of the back-end handler's context: %s through larking, %s directly", pi.Deadline, di.Deadline)
		}
		if di.EOFAfter != pi.EOFAfter {
			add("backend-half-close", nClass(s), "client half-close seen by the back-end after %d messages through larking, after %d directly (-1 = never; recv error %q)", pi.EOFAfter, di.EOFAfter, pi.RecvErr)
		}
	}
	dc, pc := r.DirectC, r.ProxyC
	if !reflect.DeepEqual(dc.Responses, pc.Responses) {
		if len(dc.Responses)+len(pc.Responses) > 12 {
			i := 0
			for i < len(dc.Responses) && i < len(pc.Responses) && dc.Responses[i] == pc.Responses[i] {
				i++
			}
			at := func(l []string) string {
				if i < len(l) {
					return l[i]
				}
				return "(none)"
			}
			add("responses", nClass(s), "response messages: %d through larking, %d directly; first difference at #%d: proxied %s direct %s (proxied status %s %q)",
				len(pc.Responses), len(dc.Responses), i, at(pc.Responses), at(dc.Responses), codes.Code(pc.Code), pc.Msg)
		} else {
			add("responses", nClass(s), "response messages: proxied %v direct %v", pc.Responses, dc.Responses)
		}
	}
	if s.Front == "ws" {
		// The close frame is compared with what the locally registered
		// implementation makes a WebSocket client see for the same script.
		if pc.BodyErr != "" {
			add("ws-frame", nClass(s), "%s", pc.BodyErr)
		}
		lc := r.LocalC
		if lc != nil && (pc.WSCode != lc.WSCode || pc.WSReason != lc.WSReason || (pc.WSEnd == "") != (lc.WSEnd == "")) {
			add("ws-close", nClass(s), "close through the proxy: code %d reason %q %s; same script on a locally registered handler: code %d reason %q %s (back-end status %s %q)",
				pc.WSCode, pc.WSReason, pc.WSEnd, lc.WSCode, lc.WSReason, lc.WSEnd, codes.Code(dc.Code), dc.Msg)
		}
		return ds
	}
	if s.Front == "http" {
		if pc.BodyErr != "" {
			add("http-body", nClass(s), "%s", pc.BodyErr)
			return ds
		}
		switch {
		case dc.Code == 0:
			if pc.HTTPStatus != 200 {
				add("http-status", nClass(s), "HTTP %d for a call that ends OK directly (status body code=%d msg=%q)", pc.HTTPStatus, pc.Code, pc.Msg)
			} else if pc.Extra != 0 {
				add("http-body", nClass(s), "%d extra JSON values after the %d replies of an OK call", pc.Extra, len(pc.Responses))
			}
		case len(dc.Responses) == 0:
			okStatus := false
			for _, w := range expectedHTTP(dc.Code) {
				okStatus = okStatus || w == pc.HTTPStatus
			}
			if !okStatus {
				add("http-status", fmt.Sprintf("code=%d", dc.Code), "HTTP %d for back-end code %d (documented mapping: %v)", pc.HTTPStatus, dc.Code, expectedHTTP(dc.Code))
			}
			if pc.HTTPStatus != 200 {
				if pc.Code != dc.Code {
					add("status-code", nClass(s), "google.rpc.Status body code %d, back-end failed with %d", pc.Code, dc.Code)
				}
				if pc.Msg != dc.Msg {
					add("status-message", msgClass(s), "status message %q, directly %q", pc.Msg, dc.Msg)
				}
				if !reflect.DeepEqual(pc.Details, dc.Details) {
					add("status-details", detClass(s), "status details %v, directly %v", pc.Details, dc.Details)
				}
			}
		default:
			// Failure after the first reply: HTTP cannot change the status
			// line any more; larking ends the stream with the
			// google.rpc.Status of the failure after the replies. A failing
			// call must not look like a successful one, and the status it
			// ends with must be the back-end's.
			switch {
			case pc.Extra == 0:
				add("http-stream-end", nClass(s), "the stream of a call that fails directly with %s (%q) after %d replies ends like a successful one: HTTP %d, %d replies, nothing after them",
					codes.Code(dc.Code), dc.Msg, len(dc.Responses), pc.HTTPStatus, len(pc.Responses))
			case pc.Extra > 1:
				add("http-stream-end", nClass(s), "%d values after the %d replies of a failing call (one status expected)", pc.Extra, len(pc.Responses))
			default:
				if pc.Code != dc.Code {
					add("status-code", nClass(s), "google.rpc.Status after the replies has code %d, back-end failed with %d", pc.Code, dc.Code)
				}
				if pc.Msg != dc.Msg {
					add("status-message", msgClass(s), "status message after the replies %q, directly %q", pc.Msg, dc.Msg)
				}
				if !reflect.DeepEqual(pc.Details, dc.Details) {
					add("status-details", detClass(s), "status details after the replies %v, directly %v", pc.Details, dc.Details)
				}
			}
		}
		return ds
	}
	if pc.BodyErr != "" {
		add("web-body", nClass(s), "%s", pc.BodyErr)
		return ds
	}
	if pc.Code != dc.Code {
		add("status-code", nClass(s), "final status code %s (%q), directly %s (%q)", codes.Code(pc.Code), pc.Msg, codes.Code(dc.Code), dc.Msg)
	} else {
		if pc.Msg != dc.Msg {
			add("status-message", msgClass(s), "status message %q, directly %q", pc.Msg, dc.Msg)
		}
		if !reflect.DeepEqual(pc.Details, dc.Details) {
			add("status-details", detClass(s), "status details %v, directly %v", pc.Details, dc.Details)
		}
	}
	return ds
}

func shapeKey(s *Script, r *Result) string {
	out := "ok"
	if r.DirectC.Code != 0 {
		out = "fail"
		if len(r.DirectC.Responses) > 0 {
			out = "fail-after-replies"
		}
	}
	hc := "-"
	if len(r.DirectB.Inv) == 1 {
		hc = fmt.Sprint(r.DirectB.Inv[0].EOFAfter >= 0)
	}
	return fmt.Sprintf("%s/%s/%s/n=%d/%s/halfclose-seen=%s/md=%s/gzip=%v/hop=%s/inproc=%v", s.Front, s.Shape, s.Fam, s.NMsg, out, hc, s.MDClass, s.Gzip, s.Hop, s.InProc)
}

func report(r *mon.Run, res *Result) {
	s := res.Script
	r.Eval(2)
	if res.Incon != "" {
		r.Count("inconclusive_scripts", 1)
		r.Inconclusive(fmt.Sprintf("%s: %s", s, res.Incon))
		return
	}
	r.Distinct(shapeKey(s, res))
	r.Count("scripts", 1)
	r.Count("backend_messages_compared", len(res.DirectB.Inv[0].Recv))
	r.Count("responses_compared", len(res.DirectC.Responses))
	if res.DirectC.Code != 0 {
		r.Count("failing_calls", 1)
	}
	if res.DirectB.Inv[0].EOFAfter >= 0 {
		r.Count("half_close_observed_by_backend", 1)
	}
	r.Count("custom_metadata_keys_compared", len(res.DirectB.Inv[0].MD))
	for _, d := range res.Diffs {
		r.Violate(diffKey(s, d), fmt.Sprintf("%s [script %s]", d.Detail, s), res)
	}
	if len(res.Diffs) == 0 && r.SampleN() < 6 {
		r.Sample(map[string]any{"script": s.String(), "direct_client": res.DirectC, "proxied_client": res.ProxyC, "backend": res.ProxyB})
	}
}

func setup(r *mon.Run) {
	r.Rule = "Call scripts = plan structure (shape x message count 0-5 x back-end plan: read r messages / wait for half-close / j replies / ping-pong / " +
		"reply-then-wait, OK or failure at that point x client schedule: close after sending, never close, close after reading, lock-step) x drawn attributes " +
		"(status code 1-16 (+42 on gRPC), message class, 0-2 details, custom metadata class incl. -bin and multi-valued keys, 100 KiB payloads) on a gRPC and an HTTP front. " +
		"Think-time scripts (client-streaming / bidi, gRPC front and streamed h2c body): the plan travels in the metadata so the back-end can fail / finish / reply before reading anything, " +
		"after r messages or after the half-close, while the client pauses 20/100/300 ms after opening the stream, between sends and before the half-close (workload only, never a verdict). " +
		"HTTP/1 scripts also carry connection header classes (Connection: keep-alive / close / names another field, Keep-Alive, Proxy-Connection) over a real connection and in-process: " +
		"the back-end must see none of them and the call must end as the direct one. WebSocket front (JSON text frames, server-ended plans, all three streaming shapes): messages and replies " +
		"compared with the direct call, the close code and reason with the same script on a locally registered handler. " +
		"Message size classes: empty (zero bytes on the wire) and tiny messages at every position (only / first / middle / last) in both directions, crossed with compression " +
		"(gRPC-web also with mixed per-message flags on a gzip stream). " +
		"google.api.HttpBody transfers through a second proxied Mux with a 100-byte chunk limit (and the default one): uploads of 1-450 bytes with Content-Length, chunked and h2c framing, " +
		"downloads over sizes x message sizes; oracle = byte conservation at the back-end / client; media types with a registered codec (octet-stream, protobuf, json), foreign ones and none, on a streaming and a unary HttpBody-bound method; " +
		"back-ends that fail the upload (after the half-close / before the response) x request media types without a codec x Accept absent / */* / json: the HTTP client gets the back-end's code, message and details. " +
		"Hostile string values in message fields (trailing backslashes, escaped quotes, braces / brackets in strings, backslash spelled \\u005c) in the first / middle / last message of client-streaming and bidi calls on the JSON fronts. " +
		"Unknown fields (varint, bytes, fixed32/64, a nested message, the highest field number) on every request message and reply of the binary fronts; " +
		"the deadline the back-end handler's context carries (none / <1 min / >=1 min buckets; scripts use none, ten seconds, five minutes) on the gRPC and gRPC-web fronts. " +
		"\"-bin\" metadata of every length 0-9, single and multi-valued, in both base64 spellings (unpadded / padded) on the raw fronts. " +
		"Compression values: absent, gzip, identity announced explicitly (gRPC, gRPC-web). " +
		"Compression faults: calls whose message k (first, or after 1-2 well-formed compressed messages) is a frame flagged compressed that cannot be inflated " +
		"(gzip stream cut inside its trailer / inside the deflate data, flipped CRC / ISIZE bit, inverted data byte, bytes after the stream, plain bytes, zero length, a stream that inflates beyond the 4 MiB receive limit " +
		"or beyond the limit of the small front only; broken messages of 60 B / 3 KB / 40 KB with every field set), sent by a raw h2c client to the back-end and through larking (gRPC and gRPC-web, every shape): " +
		"a call the back-end's own server refuses must not end OK through larking and the back-end gets nothing but the well-formed messages; each fault call is followed by three ordinary compressed scripts " +
		"(any plan structure with 1-3 messages, drawn attributes) executed both ways and compared as usual, eight such rounds at a time (scratch buffers and (de)compressors of the front are process-wide). " +
		"Back-end availability: outages, each with a back-end, Mux (RegisterConn) and front of its own: after ordinary scripts the back-end is taken away " +
		"(server stopped / stopped gracefully / its address accepts connections and drops them / is answered by something that is not a gRPC server); then for every front (gRPC, gRPC-web, HTTP incl. in-process) x shape x " +
		"client deadline class (4 s / none / 5 min; drawn message count, metadata, compression) a call is made on the back-end's own connection with default call options and through larking: " +
		"the proxied call must end, without a reply, with the status code of the direct call (HTTP: its documented status and google.rpc.Status body); the first call after the loss runs alone; " +
		"differences count when a re-execution of the cell shows them again; then a server is started on the same address, both channels are waited READY and ordinary scripts are executed both ways and compared as usual. " +
		"Each script runs twice (direct / through larking); distinct = front x shape x plan family x message count x outcome x half-close-seen x metadata class."
	r.Floor = 40
	r.Assume("grpc-go client/server (direct run) define the reference behaviour of a call script")
	r.Assume("google.rpc.Code -> HTTP status table of google/rpc/code.proto (CANCELLED: 499 or 408) for HTTP fronts; a failure after the first reply ends the HTTP stream with the google.rpc.Status of the failure after the replies (what the unchanged tree sends)")
	r.Assume("response headers/trailers and transport-level metadata are not compared (not part of the statement)")
	r.Assume("WebSocket: a client close frame is an abort on this transport (locally registered handlers receive an error, not io.EOF), so only server-ended plans are used; the close frame is compared with a locally registered handler's")
}

func finish(r *mon.Run, e *Env) {
	if log := e.Front.ErrLog(); strings.Contains(log, "panic serving") {
		key, first := panicKey(log)
		r.Violate(key, "larking front panicked while proxying: "+first, map[string]any{"server_log": trunc(log, 4000)})
	}
	if o := e.Reg.TakeOrphans(); len(o) > 0 {
		r.Count("unattributed_backend_invocations", len(o))
	}
	scanRaceLog(r)
}

func trunc(s string, n int) string {
	if len(s) > n {
		return s[:n] + "..."
	}
	return s
}

var reLarkFrame = regexp.MustCompile(`larking\.io/larking\.([A-Za-z0-9_.()*]+)`)

func panicKey(log string) (string, string) {
	i := strings.Index(log, "panic serving")
	rest := log[i:]
	line := rest
	if j := strings.IndexByte(rest, '\n'); j >= 0 {
		line = rest[:j]
	}
	msg := line
	if k := strings.Index(line, ": "); k >= 0 {
		msg = line[k+2:]
	}
	frame := "unknown"
	if m := reLarkFrame.FindStringSubmatch(rest); m != nil {
		frame = "larking." + m[1]
	}
	return "panic@" + frame + ":" + mon.NormMsg(msg), line
}

// isHang reports whether the only finding of a result is one that depends on
// the environment (deadline reached, connection broken without a status):
// such findings are confirmed by re-execution before they are reported.
func isHang(res *Result) bool {
	return len(res.Diffs) == 1 && (res.Diffs[0].Obs == "hang" || res.Diffs[0].Obs == "transport-error")
}

func diffKey(s *Script, d Diff) string {
	return fmt.Sprintf("%s/%s:%s:%s", s.Front, s.Shape, d.Obs, d.Class)
}

func execAll(e *Env, cases []*Script, workers int, sink func(*Result)) {
	ch := make(chan *Script)
	var wg sync.WaitGroup
	for w := 0; w < workers; w++ {
		wg.Add(1)
		go func() {
			defer wg.Done()
			for s := range ch {
				sink(e.Exec(s))
			}
		}()
	}
	for _, s := range cases {
		ch <- s
	}
	close(ch)
	wg.Wait()
}

// RunC10 executes the tier's case list.
//
// Phase 1 runs all scripts on 48 workers. Results that rest on the clock —
// a proxied call pending at the deadline, a direct call that was slow — are
// not trusted as they are: in phase 2 they are executed again on an almost
// idle process. A hang is reported only for finding keys for which a
// re-execution hangs again (then all instances of the key count); an
// inconclusive script is recorded only if it is inconclusive twice.
func RunC10(r *mon.Run) {
	setup(r)
	e, err := NewEnv()
	if err != nil {
		r.Inconclusive("cannot start back-end / front: " + err.Error())
		return
	}
	defer e.Close()
	cases := Cases(r.Rand("c10-scripts"), r.Thorough())
	r.Set("scripts_planned", len(cases))

	var mu sync.Mutex
	hangs := map[string][]*Result{} // by finding key
	var hangKeys []string
	var incon []*Result
	// Full-duplex scripts are CPU-heavy (megabytes through gzip in both
	// directions, under the race detector): they run after the others on few
	// workers so that their duration says something about the call and not
	// about the load.
	var light, heavy []*Script
	for _, s := range cases {
		if s.Duplex {
			heavy = append(heavy, s)
		} else {
			light = append(light, s)
		}
	}
	sink := func(res *Result) {
		switch {
		case res.Incon != "":
			mu.Lock()
			incon = append(incon, res)
			mu.Unlock()
		case isHang(res):
			k := diffKey(res.Script, res.Diffs[0])
			mu.Lock()
			if _, ok := hangs[k]; !ok {
				hangKeys = append(hangKeys, k)
			}
			hangs[k] = append(hangs[k], res)
			mu.Unlock()
		default:
			report(r, res)
		}
	}
	execAll(e, light, 48, sink)
	execAll(e, heavy, 12, sink)

	// phase 2a: scripts that were inconclusive once
	if len(incon) > 200 {
		for _, res := range incon[200:] {
			report(r, res)
		}
		incon = incon[:200]
	}
	var again []*Script
	for _, res := range incon {
		again = append(again, res.Script)
	}
	r.Count("scripts_re_executed", len(again))
	execAll(e, again, 4, func(res *Result) {
		if isHang(res) {
			k := diffKey(res.Script, res.Diffs[0])
			mu.Lock()
			if _, ok := hangs[k]; !ok {
				hangKeys = append(hangKeys, k)
			}
			hangs[k] = append(hangs[k], res)
			mu.Unlock()
			return
		}
		report(r, res)
	})

	// phase 2b: confirm every hang key on (up to) three of its scripts
	sort.Strings(hangKeys)
	confirmed := map[string]bool{}
	dumpOf := map[string]string{}
	e.WantDump.Store(true)
	var cw sync.WaitGroup
	for _, k := range hangKeys {
		cw.Add(1)
		go func(k string) {
			defer cw.Done()
			list := hangs[k]
			for i := 0; i < len(list) && i < 3; i++ {
				res := e.Exec(list[i].Script)
				r.Count("hangs_re_executed", 1)
				if isHang(res) && diffKey(res.Script, res.Diffs[0]) == k {
					mu.Lock()
					confirmed[k] = true
					dumpOf[k] = res.Dump
					mu.Unlock()
					return
				}
			}
		}(k)
	}
	cw.Wait()
	for _, k := range hangKeys {
		for _, res := range hangs[k] {
			if confirmed[k] {
				if res.Dump == "" {
					res.Dump = dumpOf[k]
				}
				report(r, res)
				continue
			}
			res.Incon = "not reproduced when the script was executed again: " + res.Diffs[0].Detail
			res.Diffs = nil
			report(r, res)
		}
	}
	runBodyCases(r, e)
	runZFaultCases(r, e)
	runAvailCases(r)
	finish(r, e)
}

// Replay re-runs one script (the case of a violation is a Result).
func Replay(r *mon.Run, raw json.RawMessage) {
	setup(r)
	var doc struct {
		Script *Script   `json:"script"`
		Body   *BodyCase `json:"body_case"`
		Fault  *ZCase    `json:"compression_fault"`
		After  *ZCase    `json:"after_compression_fault"`
		Avail  *ACell    `json:"availability_cell"`
	}
	if err := json.Unmarshal(raw, &doc); err == nil && doc.Avail != nil {
		replayCell(r, *doc.Avail)
		scanRaceLog(r)
		return
	}
	if err := json.Unmarshal(raw, &doc); err == nil && doc.Body != nil {
		e, err := NewEnv()
		if err != nil {
			r.Inconclusive("cannot start back-end / front: " + err.Error())
			return
		}
		defer e.Close()
		reportBody(r, e, *doc.Body, "replay1")
		finish(r, e)
		return
	}
	if err := json.Unmarshal(raw, &doc); err == nil && (doc.Fault != nil || (doc.After != nil && doc.Script != nil)) {
		e, err := NewEnv()
		if err != nil {
			r.Inconclusive("cannot start back-end / front: " + err.Error())
			return
		}
		defer e.Close()
		if doc.Fault != nil {
			replayFault(r, e, *doc.Fault, nil)
		} else {
			replayFault(r, e, *doc.After, doc.Script)
		}
		finish(r, e)
		return
	}
	if err := json.Unmarshal(raw, &doc); err != nil || doc.Script == nil {
		var s Script
		if err2 := json.Unmarshal(raw, &s); err2 != nil || s.Shape == "" {
			r.Inconclusive(fmt.Sprintf("replay: no script in case (%v)", err))
			return
		}
		doc.Script = &s
	}
	e, err := NewEnv()
	if err != nil {
		r.Inconclusive("cannot start back-end / front: " + err.Error())
		return
	}
	defer e.Close()
	e.WantDump.Store(true)
	res := e.Exec(doc.Script)
	report(r, res)
	b, _ := json.MarshalIndent(res, "", " ")
	fmt.Printf("replayed: %s\n", trunc(string(b), 6000))
	finish(r, e)
}

// ------------------------------------------------------------ race log

// scanRaceLog turns race-detector reports (GORACE log_path, exported by
// bin/check as VERIF_RACE_LOG) into findings: a report with a larking frame
// in one of the two access stacks is a violation keyed by the frame pair; a
// report without any is a harness problem and makes the run inconclusive.
func scanRaceLog(r *mon.Run) {
	base := os.Getenv("VERIF_RACE_LOG")
	if base == "" {
		return
	}
	files, _ := filepath.Glob(base + ".*")
	nrep := 0
	for _, f := range files {
		if !strings.HasSuffix(f, fmt.Sprintf(".%d", os.Getpid())) {
			continue
		}
		b, err := os.ReadFile(f)
		if err != nil {
			continue
		}
		for _, blk := range strings.Split(string(b), "==================") {
			if !strings.Contains(blk, "WARNING: DATA RACE") {
				continue
			}
			nrep++
			// the two access stacks come before the first "Goroutine ... created at"
			acc := blk
			if i := strings.Index(blk, "\nGoroutine "); i >= 0 {
				acc = blk[:i]
			}
			parts := strings.SplitN(acc, "\nPrevious ", 2)
			var frames []string
			for _, p := range parts {
				if m := reLarkFrame.FindStringSubmatch(p); m != nil {
					frames = append(frames, "larking."+m[1])
				} else {
					frames = append(frames, "-")
				}
			}
			sort.Strings(frames)
			if strings.Join(frames, "") == strings.Repeat("-", len(frames)) {
				r.Inconclusive("race report without a larking frame in either access stack (harness or dependency): " + trunc(strings.TrimSpace(acc), 600))
				continue
			}
			r.Violate("race:"+strings.Join(frames, "|"), "data race reported by the race detector while proxying: "+trunc(strings.TrimSpace(acc), 1200),
				map[string]any{"report": trunc(blk, 8000)})
		}
	}
	r.Count("race_reports", nrep)
}
