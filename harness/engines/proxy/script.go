// Package proxy is the C10 engine: proxying through RegisterConn must be
// observationally transparent. Every call script is executed twice against
// the same scripted back-end — once directly with grpc-go, once through a
// larking front (gRPC or HTTP client) — and the pair (back-end transcript,
// client transcript) of the two executions is compared.
package proxy

import (
	"encoding/json"
	"fmt"
	"math/rand"
	"strings"
)

// St is the status the back-end finishes a call with.
type St struct {
	Code int32  `json:"code"`
	Msg  string `json:"msg,omitempty"`
	Det  int    `json:"det,omitempty"` // 0 none, 1 one detail (ErrorInfo), 2 two details (StringValue, Duration)
	MsgC string `json:"msg_class,omitempty"`
}

// KV is one custom metadata pair; V holds raw bytes for "-bin" keys.
type KV struct {
	K string `json:"k"`
	V []byte `json:"v"`
}

// Script is one replayable call script.
//
// Server is the back-end plan executed after the first request message has
// been read (the plan travels in that message): "r" read one more message,
// "e" read until the client's half-close, "s" send the next reply, "p"
// ping-pong (read a message, answer it, until half-close). Then the call ends
// with Final (for unary / client-streaming methods an OK Final sends the single
// reply).
//
// Client is the grpc-go client plan: "s" send next message, "r" receive one
// reply, "c" half-close; afterwards the client drains the stream until the
// final status. HTTP clients always send the whole body first.
type Script struct {
	Front   string   `json:"front"` // grpc | http
	Shape   string   `json:"shape"` // unary | ss | cs | bidi
	NMsg    int      `json:"nmsg"`
	Server  []string `json:"server"`
	Final   St       `json:"final"`
	Client  []string `json:"client,omitempty"`
	MD      []KV     `json:"md,omitempty"`
	MDClass string   `json:"md_class,omitempty"`
	BigReq  int      `json:"big_req"`   // index of the request message carrying a 100 KiB payload, -1 none
	BigRep  int      `json:"big_reply"` // index of the reply carrying a 100 KiB payload, -1 none
	HTTPGet bool     `json:"http_get,omitempty"`
	// MetaPlan: the back-end plan travels in the request metadata
	// (x-vf-plan-bin) instead of the first message, so the back-end can act
	// before it has read anything; every read is an explicit "r" step then.
	// Client plans of such scripts contain think time: "w<ms>" pauses.
	// Gzip: the front client compresses what it sends (gRPC / gRPC-web:
	// grpc-encoding gzip per message, HTTP: Content-Encoding gzip for the
	// request stream, gzip accepted for the response). Duplex: the client
	// sends and receives concurrently (one sender, one receiver goroutine).
	// MsgSize > 0 gives every request message a payload of that many bytes.
	Gzip bool `json:"gzip,omitempty"`
	// Enc: a message encoding announced without compressing: "identity"
	// (legal; grpc.UseCompressor(encoding.Identity) / raw grpc-encoding
	// header). gRPC and gRPC-web fronts.
	Enc     string `json:"enc,omitempty"`
	Duplex  bool   `json:"duplex,omitempty"`
	MsgSize int    `json:"msg_size,omitempty"`

	// ReqSize gives size classes to request messages by position ("" normal,
	// "empty": encodes to zero bytes, "tiny": two bytes); RepEmpty / RepTiny
	// list the replies (by index) that are empty / tiny. MixFlags (gRPC-web
	// with gzip): every second non-empty message is sent with flag 0
	// (uncompressed), which is legal on a compressed stream; empty messages
	// always are, as grpc-go sends them.
	ReqSize  []string `json:"req_size,omitempty"`
	RepEmpty []int    `json:"rep_empty,omitempty"`
	RepTiny  []int    `json:"rep_tiny,omitempty"`
	MixFlags bool     `json:"mix_flags,omitempty"`

	// Texts gives request messages (by position) a hostile string as their
	// text field; JSONEsc makes the JSON fronts spell every backslash of the
	// encoded message as \u005c (the same value, another escape).
	Texts   []string `json:"texts,omitempty"`
	JSONEsc bool     `json:"json_u005c,omitempty"`

	// Unk: kind of unknown fields (numbers vf.Chunk does not declare) that
	// every request message and every reply carries; binary fronts only.
	// Deadline: "" about ten seconds (the watchdog), "none" no deadline,
	// "long" five minutes; the watchdog then works by cancellation.
	Unk string `json:"unknown_fields,omitempty"`
	// ProtoBody: HTTP front with application/protobuf bodies (unary and
	// client-streaming methods), which can carry unknown fields too.
	ProtoBody bool   `json:"proto_body,omitempty"`
	Deadline  string `json:"deadline,omitempty"`

	// BinPad: the raw fronts (HTTP, gRPC-web, WebSocket) spell "-bin"
	// metadata values as padded standard base64 instead of unpadded (both
	// are legal; grpc-go itself never pads).
	BinPad bool `json:"bin_padded,omitempty"`

	// Hop: class of HTTP/1 connection header fields added to the request
	// (HTTP front); InProc: the request is handed to the Mux in-process.
	Hop    string `json:"hop,omitempty"`
	InProc bool   `json:"in_process,omitempty"`

	MetaPlan bool   `json:"meta_plan,omitempty"`
	Pause    string `json:"pause,omitempty"` // pause class: where the client thinks (open|between|close|all) and how long
	Fam      string `json:"fam"`             // plan family (structural class used in finding keys)
}

func (s *Script) String() string {
	meta := ""
	if s.Gzip {
		meta += " gzip"
	}
	if s.Enc != "" {
		meta += " grpc-encoding=" + s.Enc
	}
	if s.Duplex {
		meta += fmt.Sprintf(" duplex size=%d", s.MsgSize)
	}
	meta += s.sizes()
	for i, t := range s.Texts {
		if t != "" {
			meta += fmt.Sprintf(" text%d=%q", i, t)
		}
	}
	if s.JSONEsc {
		meta += " backslash-as-u005c"
	}
	if s.BinPad {
		meta += " bin-padded"
	}
	if s.Unk != "" {
		meta += " unknown-fields=" + s.Unk
	}
	if s.ProtoBody {
		meta += " application/protobuf"
	}
	if s.Deadline != "" {
		meta += " deadline=" + s.Deadline
	}
	if s.Hop != "" {
		meta += " hop=" + s.Hop
	}
	if s.InProc {
		meta += " in-process"
	}
	if s.MetaPlan {
		meta += " plan-in-metadata pause=" + s.Pause
	}
	return fmt.Sprintf("%s/%s n=%d fam=%s server=%s final=%d client=%s md=%s%s", s.Front, s.Shape, s.NMsg, s.Fam,
		strings.Join(s.Server, ""), s.Final.Code, clientString(s.Client), s.MDClass, meta)
}

func clientString(plan []string) string {
	if len(plan) > 12 {
		return fmt.Sprintf("%s,...(%d ops)", strings.Join(plan[:6], ","), len(plan))
	}
	return strings.Join(plan, ",")
}

// wire form of the plan inside Chunk.script
type planWire struct {
	Steps  []string `json:"steps"`
	Code   int32    `json:"code"`
	Msg    string   `json:"msg"`
	Det    int      `json:"det"`
	BigRep int      `json:"big"`
	Unk    string   `json:"uk,omitempty"`
	Empty  []int    `json:"er,omitempty"`
	Tiny   []int    `json:"tr,omitempty"`
}

func (s *Script) planJSON() string {
	b, _ := json.Marshal(planWire{Steps: s.Server, Code: s.Final.Code, Msg: s.Final.Msg, Det: s.Final.Det, BigRep: s.BigRep, Empty: s.RepEmpty, Tiny: s.RepTiny, Unk: s.Unk})
	return string(b)
}

// sizes renders the size classes for String().
func (s *Script) sizes() string {
	var parts []string
	for i, c := range s.ReqSize {
		if c != "" {
			parts = append(parts, fmt.Sprintf("req%d=%s", i, c))
		}
	}
	for _, i := range s.RepEmpty {
		parts = append(parts, fmt.Sprintf("rep%d=empty", i))
	}
	for _, i := range s.RepTiny {
		parts = append(parts, fmt.Sprintf("rep%d=tiny", i))
	}
	if s.MixFlags {
		parts = append(parts, "mixed-flags")
	}
	if len(parts) == 0 {
		return ""
	}
	return " sizes[" + strings.Join(parts, ",") + "]"
}

// nReplies is the number of replies the plan sends on its own ("s" steps, or
// the single reply of unary / client-streaming methods).
func (s *Script) nReplies() int {
	if s.Shape == "unary" || s.Shape == "cs" {
		return 1
	}
	n := 0
	for _, x := range s.Server {
		if x == "s" {
			n++
		}
	}
	return n
}

// drawSizes gives empty / tiny classes to some positions. The first request
// message can only be one when the plan travels in the metadata.
func drawSizes(rng *rand.Rand, s *Script) {
	if s.Duplex || s.HTTPGet {
		return
	}
	pickc := func() string {
		if rng.Intn(3) == 0 {
			return "tiny"
		}
		return "empty"
	}
	s.ReqSize = make([]string, s.NMsg)
	any := false
	for i := range s.ReqSize {
		if i == 0 && !s.MetaPlan {
			continue
		}
		if rng.Intn(2) == 0 {
			s.ReqSize[i], any = pickc(), true
		}
	}
	if !any {
		s.ReqSize = nil
	}
	for k := 0; k < s.nReplies(); k++ {
		switch rng.Intn(4) {
		case 0, 1:
			s.RepEmpty = append(s.RepEmpty, k)
		case 2:
			s.RepTiny = append(s.RepTiny, k)
		}
	}
	if s.Front == "web" && s.Gzip {
		s.MixFlags = rng.Intn(2) == 0
	}
}

func cat3(a, b, c []structure) []structure {
	return append(append(append([]structure{}, a...), b...), c...)
}

func rep(step string, n int) []string {
	var out []string
	for i := 0; i < n; i++ {
		out = append(out, step)
	}
	return out
}

func cat(parts ...[]string) []string {
	out := []string{}
	for _, p := range parts {
		out = append(out, p...)
	}
	return out
}

func has(steps []string, any string) bool {
	for _, s := range steps {
		if strings.Contains(any, s) {
			return true
		}
	}
	return false
}

// structural enumerates every plan structure (failure point x shape x message
// count x client schedule) for one front. ok selects an OK final, otherwise
// the final is a failure whose concrete status is drawn later.
type structure struct {
	Script
	fail bool
}

func structures(front string) []structure {
	var out []structure
	add := func(shape, fam string, n int, server, client []string, fail bool) {
		out = append(out, structure{Script{Front: front, Shape: shape, NMsg: n, Server: server, Client: client, Fam: fam, BigReq: -1, BigRep: -1}, fail})
	}
	both := []bool{false, true}
	// unary: failure before the (only) response, or none. Status space is
	// enumerated separately (statusSpace).
	for _, f := range both {
		add("unary", "unary", 1, []string{}, nil, f)
	}
	// server streaming: j replies then OK / failure, optionally after having
	// observed the half-close.
	for _, e := range both {
		for j := 0; j <= 4; j++ {
			for _, f := range both {
				fam := "replies"
				srv := rep("s", j)
				if e {
					fam = "eof+replies"
					srv = cat([]string{"e"}, srv)
				}
				add("ss", fam, 1, srv, nil, f)
			}
		}
	}
	// zero-message streams (gRPC clients only: an HTTP request always carries
	// one message).
	if front == "grpc" {
		add("cs", "empty", 0, []string{}, []string{"c"}, false)
		add("bidi", "empty", 0, []string{}, []string{"c"}, false)
	}
	for n := 1; n <= 5; n++ {
		// client streaming: read r messages, optionally wait for half-close,
		// then reply / fail.
		for r := 1; r <= n; r++ {
			for _, e := range both {
				for _, f := range both {
					srv := rep("r", r-1)
					fam := "read-all"
					if r < n {
						fam = "read-some"
					}
					if e {
						srv = append(srv, "e")
						fam = "read-to-eof"
					}
					add("cs", fam, n, srv, cat(rep("s", n), []string{"c"}), f)
					if !e && front == "grpc" {
						add("cs", fam+"/client-never-closes", n, srv, rep("s", n), f)
					}
				}
			}
		}
		// bidi, batch family: read r, [eof], j replies, final.
		for r := 1; r <= n; r++ {
			for _, e := range both {
				for j := 0; j <= 3; j++ {
					for _, f := range both {
						srv := rep("r", r-1)
						fam := "batch:read-all"
						if r < n {
							fam = "batch:read-some"
						}
						if e {
							srv = append(srv, "e")
							fam = "batch:read-to-eof"
						}
						srv = cat(srv, rep("s", j))
						add("bidi", fam, n, srv, cat(rep("s", n), []string{"c"}), f)
						if !e && front == "grpc" {
							add("bidi", fam+"/client-never-closes", n, srv, rep("s", n), f)
							if j > 0 {
								// the client reads every reply before it half-closes
								add("bidi", fam+"/client-closes-late", n, srv, cat(rep("s", n), rep("r", j), []string{"c"}), f)
							}
						}
					}
				}
			}
		}
		// bidi, ping-pong family: answer every message until half-close.
		for extra := 0; extra <= 1; extra++ {
			for _, f := range both {
				srv := cat([]string{"s", "p"}, rep("s", extra))
				add("bidi", "pingpong", n, srv, cat(rep("s", n), []string{"c"}), f)
				if front == "grpc" {
					var sync []string
					for i := 0; i < n; i++ {
						sync = append(sync, "s", "r")
					}
					add("bidi", "pingpong/client-lockstep", n, srv, append(sync, "c"), f)
				}
			}
		}
		// bidi, reply-first family: j replies, wait for half-close, j2 replies.
		for j := 1; j <= 2; j++ {
			for j2 := 0; j2 <= 1; j2++ {
				for _, f := range both {
					srv := cat(rep("s", j), []string{"e"}, rep("s", j2))
					add("bidi", "reply-then-eof", n, srv, cat(rep("s", n), []string{"c"}), f)
					if front == "grpc" {
						add("bidi", "reply-then-eof/client-closes-late", n, srv, cat(rep("s", n), rep("r", j), []string{"c"}), f)
					}
				}
			}
		}
	}
	return out
}

// pauseMS are the think times used at the points where the order of events
// on the two sides of the proxy matters.
var pauseMS = []int{20, 100, 300}

// paused builds the client plan "n sends then half-close" with think time
// after opening the stream (open), between sends (between) and before the
// half-close (close).
func paused(n, ms int, open, between, closeP bool) []string {
	w := fmt.Sprintf("w%d", ms)
	var out []string
	if open {
		out = append(out, w)
	}
	for i := 0; i < n; i++ {
		if i > 0 && between {
			out = append(out, w)
		}
		out = append(out, "s")
	}
	if closeP {
		out = append(out, w)
	}
	return append(out, "c")
}

// metaStructures enumerates the scripts whose back-end plan travels in the
// metadata: the back-end fails / finishes / replies before it has read
// anything, after r messages, or after the half-close, while the client
// thinks before its first send, between sends and before the half-close.
// Client-streaming and bidi only (the other shapes have a single message
// that grpc-go sends with the headers).
func metaStructures(front string) []structure {
	var out []structure
	both := []bool{false, true}
	type pp struct {
		name                 string
		open, between, close bool
	}
	points := []pp{{"open", true, false, false}, {"between", false, true, false}, {"close", false, false, true}, {"all", true, true, true}}
	for _, shape := range []string{"cs", "bidi"} {
		for _, n := range []int{1, 2, 3, 5} {
			for r := 0; r <= n; r++ {
				if n == 5 && r > 2 && r < 5 {
					continue
				}
				for _, e := range both {
					if e && r != 0 && r != n {
						continue
					}
					replies := []int{0}
					if shape == "bidi" {
						replies = []int{0, 1, 2}
					}
					for _, j := range replies {
						for _, replyFirst := range both {
							if replyFirst && (j == 0 || r == 0) {
								continue // same as the plain order
							}
							for _, f := range both {
								fam := fmt.Sprintf("meta:read-%s", map[bool]string{true: "none", false: "some"}[r == 0])
								if r == n {
									fam = "meta:read-all"
								}
								if e {
									fam = "meta:read-to-eof"
									if r == 0 {
										fam = "meta:wait-eof-only"
									}
								}
								var srv []string
								if replyFirst {
									srv = cat(rep("s", j), rep("r", r))
									fam += "/reply-first"
								} else {
									srv = cat(rep("r", r), rep("s", j))
								}
								if e {
									srv = append(srv, "e")
								}
								for _, pt := range points {
									if pt.name == "between" && n == 1 {
										continue
									}
									for _, ms := range pauseMS {
										sc := Script{Front: front, Shape: shape, NMsg: n, Server: srv, Fam: fam, BigReq: -1, BigRep: -1, MetaPlan: true,
											Client: paused(n, ms, pt.open, pt.between, pt.close), Pause: fmt.Sprintf("%s/%dms", pt.name, ms)}
										out = append(out, structure{sc, f})
									}
								}
							}
						}
					}
				}
			}
		}
	}
	return out
}

// http1 reports whether the script goes over the HTTP/1.1 client (or
// in-process): HTTP front, whole body first, not bidi.
func http1(s *Script) bool {
	return s.Front == "http" && s.Shape != "bidi" && !s.MetaPlan && !s.Duplex
}

// hopStructures: every connection-header class on every HTTP/1 shape, over a
// real connection and in-process.
func hopScripts(rng *rand.Rand) []*Script {
	var out []*Script
	for _, st := range structures("http") {
		switch {
		case st.Shape == "unary": // OK and failing
		case st.Shape == "ss" && st.Fam == "replies" && len(st.Server) == 2 && !st.fail:
		case st.Shape == "cs" && st.NMsg == 2 && st.Fam == "read-to-eof" && len(st.Server) == 2 && !st.fail:
		default:
			continue
		}
		for _, hc := range hopClasses {
			for _, in := range []bool{false, true} {
				s := materialise(rng, st)
				s.Hop, s.InProc = hc, in
				out = append(out, s)
			}
		}
	}
	return out
}

// wsStructures enumerates the WebSocket scripts. larking has no half-close on
// this transport (a client close frame reaches the handler as a receive
// error), so only plans that the server ends are used, and the back-end
// reads every message the client sends (a server that closes with unread
// frames in its socket resets the connection, which can destroy the close
// frame: transport behaviour, not the proxy's).
func wsStructures() []structure {
	var out []structure
	add := func(shape, fam string, n int, server, client []string, fail bool) {
		out = append(out, structure{Script{Front: "ws", Shape: shape, NMsg: n, Server: server, Client: client, Fam: fam, BigReq: -1, BigRep: -1}, fail})
	}
	for _, f := range []bool{false, true} {
		for j := 0; j <= 4; j++ {
			add("ss", "ws:replies", 1, rep("s", j), []string{"s"}, f)
		}
		for n := 1; n <= 5; n++ {
			add("cs", "ws:read-all", n, rep("r", n-1), rep("s", n), f)
			for j := 0; j <= 3; j++ {
				add("bidi", "ws:batch", n, cat(rep("r", n-1), rep("s", j)), rep("s", n), f)
				if j > 0 {
					add("bidi", "ws:batch/client-reads-each", n, cat(rep("r", n-1), rep("s", j)), cat(rep("s", n), rep("r", j)), f)
				}
			}
			srv := []string{"s"}
			var cl []string
			for i := 0; i < n; i++ {
				if i > 0 {
					srv = append(srv, "r", "s")
				}
				cl = append(cl, "s", "r")
			}
			add("bidi", "ws:alternate", n, srv, cl, f)
		}
	}
	return out
}

// sizeScripts crosses empty / tiny messages at every position (only, first,
// middle, last) in both directions with compression, on every front with a
// body: plan-in-metadata unary and server-streaming calls (so that the only
// request message can be empty), client-streaming and ping-pong bidi calls
// of three messages.
func sizeScripts(rng *rand.Rand, fronts []string) []*Script {
	var out []*Script
	mk := func(front, shape, fam string, n int, server, client []string, meta bool, req []string, re, rt []int, gz bool) {
		s := &Script{Front: front, Shape: shape, NMsg: n, Server: server, Client: client, Fam: fam, BigReq: -1, BigRep: -1, MetaPlan: meta,
			ReqSize: req, RepEmpty: re, RepTiny: rt, Gzip: gz}
		s.MDClass = mdClasses[rng.Intn(len(mdClasses))]
		s.MD = drawMD(rng, s.MDClass)
		if front == "web" && gz {
			s.MixFlags = rng.Intn(2) == 0
		}
		if meta {
			s.Pause = "none"
		}
		out = append(out, s)
	}
	for _, front := range fronts {
		for _, gz := range []bool{true, false} {
			for _, c := range []string{"empty", "tiny"} {
				idx := func(k ...int) ([]int, []int) {
					if c == "empty" {
						return k, nil
					}
					return nil, k
				}
				// only message / only reply
				re, rt := idx(0)
				mk(front, "unary", "sizes:unary", 1, []string{}, nil, true, []string{c}, re, rt, gz)
				mk(front, "unary", "sizes:unary", 1, []string{}, nil, true, []string{c}, nil, nil, gz)
				// server streaming: request of that size, replies first / middle / last
				for _, k := range []int{0, 1, 2} {
					re, rt := idx(k)
					mk(front, "ss", "sizes:ss", 1, []string{"r", "s", "s", "s"}, []string{"s"}, true, []string{c}, re, rt, gz)
				}
				// client streaming and ping-pong bidi: first / middle / last / all
				for _, pos := range [][]int{{0}, {1}, {2}, {0, 1, 2}} {
					req := make([]string, 3)
					for _, i := range pos {
						req[i] = c
					}
					re, rt := idx(0)
					mk(front, "cs", "sizes:cs", 3, []string{"r", "r", "r", "e"}, []string{"s", "s", "s", "c"}, true, req, re, rt, gz)
					// echo of an empty message is an empty reply
					mk(front, "bidi", "sizes:pingpong", 3, []string{"p"}, []string{"s", "s", "s", "c"}, true, req, nil, nil, gz)
				}
			}
		}
	}
	return out
}

// encScripts: the identity encoding announced explicitly on every shape of
// the gRPC and gRPC-web fronts, OK and failing.
func encScripts(rng *rand.Rand) []*Script {
	var out []*Script
	for _, front := range []string{"grpc", "web"} {
		byShape := map[string][]structure{}
		for _, st := range structures(front) {
			if st.NMsg > 0 {
				byShape[st.Shape] = append(byShape[st.Shape], st)
			}
		}
		for _, shape := range []string{"unary", "ss", "cs", "bidi"} {
			g := byShape[shape]
			for k := 0; k < 3; k++ {
				s := materialise(rng, g[rng.Intn(len(g))])
				s.Gzip, s.MixFlags, s.Enc = false, false, "identity"
				out = append(out, s)
			}
		}
	}
	return out
}

// hostileTexts are string values whose JSON encoding is hard on a scanner
// that looks for message boundaries: trailing backslashes (an escaped
// backslash right before the closing quote), escaped quotes, braces and
// brackets inside strings, a lone closing brace, non-ASCII at the end.
var hostileTexts = []string{
	`C:\temp\`, `two\\`, `three\\\`, `say "hi"`, `q\"`, `\"}`, `{"a":[1,2}}]`, `}{`, `]}"`, `tail é\`, `\`, `"`,
}

// textClass names the class of a hostile text for finding keys.
func textClass(t string) string {
	switch {
	case strings.HasSuffix(t, `\`):
		return "ends-in-backslash"
	case strings.ContainsAny(t, `{}[]`):
		return "braces-in-string"
	case strings.Contains(t, `"`):
		return "quotes"
	}
	return "other"
}

// textScripts puts every hostile text into the first / middle / last message
// of a client-streaming and a bidi call on the JSON fronts (HTTP, WebSocket),
// also with the backslashes spelled \u005c, and once on the binary fronts.
func textScripts(rng *rand.Rand, thorough bool) []*Script {
	var out []*Script
	mk := func(front, shape, fam string, server, client []string, pos int, t string, esc bool) {
		s := &Script{Front: front, Shape: shape, NMsg: 3, Server: server, Client: client, Fam: fam, BigReq: -1, BigRep: -1, JSONEsc: esc}
		s.Texts = make([]string, 3)
		s.Texts[pos] = t
		s.MDClass = mdClasses[rng.Intn(len(mdClasses))]
		s.MD = drawMD(rng, s.MDClass)
		out = append(out, s)
	}
	for ti, t := range hostileTexts {
		for pos := 0; pos < 3; pos++ {
			if !thorough && (ti+pos)%3 != 0 && !strings.HasSuffix(t, `\`) {
				continue // quick: every backslash text at every position, the others at one
			}
			for _, esc := range []bool{false, true} {
				if esc && !strings.Contains(t, `\`) {
					continue
				}
				mk("http", "cs", "text:read-to-eof", []string{"r", "r", "e"}, []string{"s", "s", "s", "c"}, pos, t, esc)
				mk("http", "bidi", "text:pingpong", []string{"s", "p"}, []string{"s", "s", "s", "c"}, pos, t, esc)
				mk("ws", "cs", "text:ws-read-all", []string{"r", "r"}, []string{"s", "s", "s"}, pos, t, esc)
				mk("ws", "bidi", "text:ws-batch", []string{"r", "r", "s", "s"}, []string{"s", "s", "s"}, pos, t, esc)
			}
			if pos == 1 {
				mk("grpc", "bidi", "text:pingpong", []string{"s", "p"}, []string{"s", "s", "s", "c"}, pos, t, false)
				mk("web", "bidi", "text:pingpong", []string{"s", "p"}, []string{"s", "s", "s", "c"}, pos, t, false)
			}
		}
	}
	return out
}

// unkScripts: every kind of unknown field on every shape of the binary
// fronts, and the three deadline values on every shape.
func unkScripts(rng *rand.Rand) []*Script {
	var out []*Script
	for _, front := range []string{"grpc", "web"} {
		byShape := map[string][]structure{}
		for _, st := range structures(front) {
			if st.NMsg > 0 && !st.fail {
				byShape[st.Shape] = append(byShape[st.Shape], st)
			}
		}
		for _, shape := range []string{"unary", "ss", "cs", "bidi"} {
			g := byShape[shape]
			for _, k := range unknownKinds {
				s := materialise(rng, g[rng.Intn(len(g))])
				s.Unk = k
				out = append(out, s)
			}
			for _, d := range []string{"", "none", "long"} {
				s := materialise(rng, g[rng.Intn(len(g))])
				s.Deadline = d
				out = append(out, s)
			}
		}
		if front == "grpc" {
			// the same over HTTP with application/protobuf bodies
			hs := map[string][]structure{}
			for _, st := range structures("http") {
				if st.NMsg > 0 && (st.Shape == "unary" || st.Shape == "cs") {
					hs[st.Shape] = append(hs[st.Shape], st)
				}
			}
			for _, shape := range []string{"unary", "cs"} {
				for _, k := range append([]string{""}, unknownKinds...) {
					s := materialise(rng, hs[shape][rng.Intn(len(hs[shape]))])
					s.HTTPGet, s.Texts, s.JSONEsc = false, nil, false
					s.ProtoBody, s.Unk = true, k
					out = append(out, s)
				}
			}
		}
		// ping-pong: the unknown fields come back in the echo
		for _, k := range unknownKinds {
			out = append(out, &Script{Front: front, Shape: "bidi", NMsg: 3, Server: []string{"s", "p"}, Client: []string{"s", "s", "s", "c"}, Fam: "unknown:pingpong",
				BigReq: -1, BigRep: -1, Unk: k, MDClass: "none"})
		}
	}
	return out
}

// binScripts: "-bin" metadata of every length 0..9 in both base64 spellings
// on every raw front (and, unpadded by construction, on the gRPC front).
func binScripts(rng *rand.Rand) []*Script {
	var out []*Script
	for _, front := range []string{"http", "web", "ws", "grpc"} {
		var pool []structure
		if front == "ws" {
			pool = wsStructures()
		} else {
			pool = structures(front)
		}
		for _, pad := range []bool{false, true} {
			if pad && front == "grpc" {
				continue
			}
			for k := 0; k < 3; k++ {
				s := materialise(rng, pool[rng.Intn(len(pool))])
				s.MDClass, s.BinPad = "bin-lengths", pad
				s.MD = drawMD(rng, s.MDClass)
				out = append(out, s)
			}
		}
	}
	return out
}

// pipelined enumerates the full-duplex scripts: a bidi echo in which the
// client keeps sending (its own goroutine) while the replies flow back, with
// and without compression, so that both directions of the proxy work at the
// same time for the whole call.
func pipelined(front string, thorough bool) []structure {
	type v struct{ n, size int }
	vars := []v{{96, 8 << 10}}
	if thorough {
		vars = []v{{96, 8 << 10}, {32, 32 << 10}, {256, 1 << 10}, {160, 8 << 10}}
	}
	var out []structure
	for _, x := range vars {
		for _, gz := range []bool{true, false} {
			for _, f := range []bool{false, true} {
				sc := Script{Front: front, Shape: "bidi", NMsg: x.n, Server: []string{"p"}, Client: cat(rep("s", x.n), []string{"c"}),
					Fam: "pipelined", BigReq: -1, BigRep: -1, Duplex: true, Gzip: gz, MsgSize: x.size}
				out = append(out, structure{sc, f})
			}
		}
	}
	return out
}

var msgClasses = []string{"plain", "empty", "escaped", "long"}

func msgOf(class string, code int32) string {
	switch class {
	case "empty":
		return ""
	case "escaped":
		return fmt.Sprintf("50%% done — ünï\tcode %d; see /a?b=c&d", code)
	case "long":
		// no leading / trailing white space: what HTTP header fields do with
		// it is the transports' business, not the proxy's
		return strings.TrimSuffix(strings.Repeat(fmt.Sprintf("failure %d, ", code), 40), ", ")
	}
	return fmt.Sprintf("backend failed with code %d", code)
}

func drawStatus(rng *rand.Rand, front string) St {
	code := int32(1 + rng.Intn(16))
	if front == "grpc" && rng.Intn(12) == 0 {
		code = 42 // not a canonical code: still has to travel unchanged between gRPC peers
	}
	mc := msgClasses[rng.Intn(len(msgClasses))]
	return St{Code: code, Msg: msgOf(mc, code), MsgC: mc, Det: rng.Intn(3)}
}

var mdClasses = []string{"none", "one", "multi", "bin", "mixed", "punct", "bin-ctl", "bin-high", "bin-printable", "empty", "bin-long", "long", "grpc-prefixed", "reserved-lookalike", "mixed-case", "bin-lengths"}

func drawMD(rng *rand.Rand, class string) []KV {
	binv := func() []byte {
		n := 1 + rng.Intn(7)
		b := make([]byte, n)
		rng.Read(b)
		if rng.Intn(2) == 0 {
			b[0] = 0
		} else {
			b[n-1] = 0xff
		}
		return b
	}
	rangeBytes := func(lo, hi, n int) []byte {
		b := make([]byte, n)
		for i := range b {
			b[i] = byte(lo + rng.Intn(hi-lo+1))
		}
		return b
	}
	switch class {
	case "bin-lengths": // every length 0..9 (all residues mod 3: no, one and two padding characters), single and multi-valued
		var out []KV
		for n := 0; n <= 9; n++ {
			out = append(out, KV{fmt.Sprintf("x-vf-b%d-bin", n), rangeBytes(0x00, 0xff, n)})
		}
		for _, n := range []int{1, 2, 3, 4, 7} {
			out = append(out, KV{"x-vf-bm-bin", rangeBytes(0x00, 0xff, n)})
		}
		return out
	case "grpc-prefixed": // not protocol headers, although they start like some
		return []KV{{"grpc-trace-bin", rangeBytes(0x00, 0xff, 8+rng.Intn(20))}, {"grpc-tags-bin", []byte{0, 1, 2, 0xfe}},
			{"grpc-previous-rpc-attempts", []byte("2")}, {"grpc-foo", []byte("bar")}, {"grpc-foo-bin", []byte{0xff, 0x00}}}
	case "reserved-lookalike": // share a prefix with reserved keys
		return []KV{{"content-typex", []byte("a/b")}, {"grpc-statusx", []byte("9")}, {"grpc-messagex", []byte("m")}, {"grpc-encodingx", []byte("gzip")},
			{"grpc-timeout-x", []byte("1S")}, {"te-x", []byte("trailers")}, {"user-agent-x", []byte("ua/1")}}
	case "mixed-case": // spelled in upper / mixed case by the client (the raw fronts send it that way)
		return []KV{{"X-VF-UPPER", []byte("u")}, {"x-Vf-MiXed", []byte("m")}, {"Grpc-Upper-Case", []byte("g")}, {"X-Vf-Mixed-BIN", []byte{1, 0xff}}}
	case "bin-ctl": // control bytes only
		return []KV{{"x-vf-c-bin", rangeBytes(0x00, 0x1f, 1+rng.Intn(8))}, {"x-vf-c-bin", []byte{0x0a, 0x0d, 0x00}}}
	case "bin-high": // DEL and bytes with the high bit set (never valid ASCII)
		return []KV{{"x-vf-h-bin", rangeBytes(0x7f, 0xff, 1+rng.Intn(8))}, {"x-vf-t", []byte("text")}}
	case "bin-printable":
		return []KV{{"x-vf-p-bin", []byte("hello world")}}
	case "empty":
		return []KV{{"x-vf-e-bin", []byte{}}, {"x-vf-e", []byte{}}, {"x-vf-f", []byte("after-empty")}}
	case "bin-long":
		return []KV{{"x-vf-l-bin", rangeBytes(0x00, 0xff, 1500+rng.Intn(2000))}}
	case "long":
		// printable ASCII, no white space at the ends (header field
		// trimming is the transports' business)
		v := rangeBytes(0x20, 0x7e, 2000+rng.Intn(2000))
		v[0], v[len(v)-1] = '<', '>'
		return []KV{{"x-vf-l", v}}
	case "one":
		return []KV{{"x-vf-a", []byte(fmt.Sprintf("v%d", rng.Intn(1000)))}}
	case "multi":
		return []KV{{"x-vf-m", []byte("first")}, {"x-vf-m", []byte("second")}, {"x-vf-n", []byte("other")}}
	case "bin":
		return []KV{{"x-vf-b-bin", binv()}}
	case "mixed":
		return []KV{{"x-vf-a", []byte("alpha")}, {"x-vf-b-bin", binv()}, {"x-vf-b-bin", binv()}, {"x-vf-z", []byte("omega")}}
	case "punct":
		return []KV{{"x-vf-p", []byte("a b,c=d;e%f \"q\" ~!")}, {"x-vf-q_r.s", []byte("0")}}
	}
	return nil
}

// materialise draws the attributes of a structure: status, metadata, payload
// sizes, HTTP binding.
func materialise(rng *rand.Rand, st structure) *Script {
	s := st.Script
	s.Server = append([]string{}, st.Server...)
	if st.fail {
		s.Final = drawStatus(rng, s.Front)
	}
	s.MDClass = mdClasses[rng.Intn(len(mdClasses))]
	s.MD = drawMD(rng, s.MDClass)
	if s.NMsg > 0 && rng.Intn(5) == 0 {
		s.BigReq = rng.Intn(s.NMsg)
	}
	nrep := 0
	for _, x := range s.Server {
		if x == "s" {
			nrep++
		}
	}
	if s.Shape == "unary" || s.Shape == "cs" {
		nrep = 1
	}
	if nrep > 0 && rng.Intn(5) == 0 {
		s.BigRep = rng.Intn(nrep)
	}
	if s.Front == "http" && (s.Shape == "unary" || s.Shape == "ss") && rng.Intn(3) == 0 {
		s.HTTPGet = true
		s.BigReq = -1
	}
	if !s.Duplex && !s.HTTPGet && s.Front != "ws" && rng.Intn(4) == 0 {
		s.Gzip = true
	}
	if !s.Gzip && (s.Front == "grpc" || s.Front == "web") && rng.Intn(5) == 0 {
		s.Enc = "identity"
	}
	if http1(&s) {
		if rng.Intn(4) == 0 {
			s.Hop = hopClasses[rng.Intn(len(hopClasses))]
		}
		s.InProc = rng.Intn(4) == 0
	}
	if s.Front == "ws" {
		s.BigReq = -1 // one JSON text frame per message; keep frames small
	}
	if rng.Intn(3) == 0 {
		drawSizes(rng, &s)
	}
	if s.Front == "http" && (s.Shape == "unary" || s.Shape == "cs") && !s.HTTPGet && len(s.Texts) == 0 && rng.Intn(4) == 0 {
		s.ProtoBody = true
		if rng.Intn(2) == 0 {
			s.Unk = unknownKinds[rng.Intn(len(unknownKinds))]
		}
	}
	if s.Front == "http" || s.Front == "web" || s.Front == "ws" {
		s.BinPad = rng.Intn(2) == 0
	}
	if s.Front == "grpc" || s.Front == "web" {
		if rng.Intn(4) == 0 {
			s.Unk = unknownKinds[rng.Intn(len(unknownKinds))]
		}
		switch rng.Intn(6) {
		case 0:
			s.Deadline = "none"
		case 1:
			s.Deadline = "long"
		}
	}
	if s.NMsg > 0 && !s.Duplex && !s.HTTPGet && rng.Intn(4) == 0 {
		s.Texts = make([]string, s.NMsg)
		s.Texts[rng.Intn(s.NMsg)] = hostileTexts[rng.Intn(len(hostileTexts))]
		s.JSONEsc = rng.Intn(3) == 0
	}
	return &s
}

// statusSpace enumerates unary failures over all canonical codes, message
// classes and detail classes.
func statusSpace(front string) []*Script {
	var out []*Script
	for code := int32(1); code <= 16; code++ {
		for _, mc := range msgClasses {
			for det := 0; det <= 2; det++ {
				out = append(out, &Script{Front: front, Shape: "unary", NMsg: 1, Server: []string{}, Fam: "unary", BigReq: -1, BigRep: -1,
					Final: St{Code: code, Msg: msgOf(mc, code), MsgC: mc, Det: det}, MDClass: "none"})
			}
		}
	}
	return out
}

// Cases builds the PRNG-determined case list of a tier.
//
// thorough: every structure of both fronts x `per` attribute draws, plus the
// unary status space; quick: the structures shuffled, one draw each, cut to
// the budget, plus one status per (code) on each front.
func Cases(rng *rand.Rand, thorough bool) []*Script {
	var list []*Script
	strs := cat3(structures("grpc"), structures("http"), structures("web"))
	metas := cat3(metaStructures("grpc"), metaStructures("http"), metaStructures("web"))
	var pipes []structure
	for _, f := range []string{"grpc", "web", "http"} {
		pipes = append(pipes, pipelined(f, thorough)...)
	}
	if thorough {
		// think-time scripts: every structure once
		for _, st := range metas {
			list = append(list, materialise(rng, st))
		}
		for k := 0; k < 3; k++ {
			list = append(list, sizeScripts(rng, []string{"grpc", "web", "http"})...)
			list = append(list, encScripts(rng)...)
		}
		list = append(list, textScripts(rng, true)...)
		for k := 0; k < 3; k++ {
			list = append(list, unkScripts(rng)...)
			list = append(list, binScripts(rng)...)
		}
		// WebSocket scripts: every structure six times; connection-header
		// scripts: three draws
		for _, st := range wsStructures() {
			for k := 0; k < 6; k++ {
				list = append(list, materialise(rng, st))
			}
		}
		for k := 0; k < 3; k++ {
			list = append(list, hopScripts(rng)...)
		}
		// full-duplex scripts: every structure twice
		for k := 0; k < 2; k++ {
			for _, st := range pipes {
				list = append(list, materialise(rng, st))
			}
		}
		for _, st := range strs {
			// Plans in which the back-end finishes while the client is still
			// sending are the ones where the forwarder's two goroutines
			// overlap with the end of the call: draw them more often (the race
			// detector only sees the interleavings that happen).
			per := 18
			if strings.Contains(st.Fam, "read-some") {
				per = 36
			}
			for k := 0; k < per; k++ {
				list = append(list, materialise(rng, st))
			}
		}
		for _, f := range []string{"grpc", "http", "web"} {
			sp := statusSpace(f)
			for _, s := range sp {
				s.MDClass = mdClasses[rng.Intn(len(mdClasses))]
				s.MD = drawMD(rng, s.MDClass)
			}
			list = append(list, sp...)
		}
		return list
	}
	// quick: stratify by (front, shape, fam) so that every family is present,
	// then fill up randomly.
	byFam := map[string][]structure{}
	var fams []string
	for _, st := range strs {
		k := st.Front + "/" + st.Shape + "/" + st.Fam
		if _, ok := byFam[k]; !ok {
			fams = append(fams, k)
		}
		byFam[k] = append(byFam[k], st)
	}
	const budget = 420
	for _, k := range fams {
		g := byFam[k]
		for i := 0; i < 4; i++ {
			list = append(list, materialise(rng, g[rng.Intn(len(g))]))
		}
	}
	for _, f := range []string{"grpc", "http", "web"} {
		sp := statusSpace(f)
		per := len(sp) / 16
		for code := 0; code < 16; code++ {
			list = append(list, sp[code*per+rng.Intn(per)])
		}
	}
	for len(list) < budget {
		list = append(list, materialise(rng, strs[rng.Intn(len(strs))]))
	}
	// empty / tiny messages at every position x compression x front
	list = append(list, sizeScripts(rng, []string{"grpc", "web", "http"})...)
	list = append(list, encScripts(rng)...)
	list = append(list, textScripts(rng, false)...)
	list = append(list, unkScripts(rng)...)
	list = append(list, binScripts(rng)...)
	// connection-header scripts (every class x shape x real / in-process) and
	// a third of the WebSocket structures
	list = append(list, hopScripts(rng)...)
	for _, st := range wsStructures() {
		if rng.Intn(3) == 0 {
			list = append(list, materialise(rng, st))
		}
	}
	// full-duplex scripts: every structure of the quick variant once (each
	// front, with and without gzip, OK and failing end)
	for _, st := range pipes {
		if st.Front != "grpc" && (!st.Gzip || (st.Front == "http" && st.fail)) {
			continue // quick: the raw fronts only with compression
		}
		list = append(list, materialise(rng, st))
	}
	// think-time scripts: two per (front, shape, family, pause point), with a
	// drawn message count, failure flag and pause length, plus a random fill.
	byPt := map[string][]structure{}
	var pts []string
	for _, st := range metas {
		k := st.Front + "/" + st.Shape + "/" + st.Fam + "/" + strings.SplitN(st.Pause, "/", 2)[0]
		if _, ok := byPt[k]; !ok {
			pts = append(pts, k)
		}
		byPt[k] = append(byPt[k], st)
	}
	for _, k := range pts {
		g := byPt[k]
		var fails []structure
		for _, st := range g {
			if st.fail {
				fails = append(fails, st)
			}
		}
		if !strings.HasPrefix(k, "grpc/") && rng.Intn(2) == 0 {
			continue // quick: half of the groups on the other fronts
		}
		list = append(list, materialise(rng, fails[rng.Intn(len(fails))]))
		if strings.HasPrefix(k, "grpc/") {
			list = append(list, materialise(rng, g[rng.Intn(len(g))]))
		}
	}
	return list
}
