package proxy

import (
	"bytes"
	"context"
	"fmt"
	"io"
	"net/http"
	"time"

	"github.com/gobwas/ws"
	"github.com/gobwas/ws/wsutil"
	"google.golang.org/genproto/googleapis/api/annotations"
	"google.golang.org/protobuf/encoding/protojson"
	"google.golang.org/protobuf/reflect/protoreflect"

	"verif/internal/vschema"
	"verif/internal/wire"
)

// ------------------------------------------------------------ service

func hpost(p string) *annotations.HttpRule {
	return &annotations.HttpRule{Pattern: &annotations.HttpRule_Post{Post: p}, Body: "*"}
}
func hget(p string) *annotations.HttpRule {
	return &annotations.HttpRule{Pattern: &annotations.HttpRule_Get{Get: p}}
}
func hws(p string) *annotations.HttpRule {
	return &annotations.HttpRule{Pattern: &annotations.HttpRule_Custom{Custom: &annotations.CustomHttpPattern{Kind: "websocket", Path: p}}, Body: "*"}
}
func bind(r *annotations.HttpRule, adds ...*annotations.HttpRule) *annotations.HttpRule {
	r.AdditionalBindings = adds
	return r
}

// pxService is the proxied service vf.px.Std: one method per streaming
// shape over vf.Chunk, with HTTP bindings and - for the three streaming
// shapes - a WebSocket binding.
//
//	Echo(Chunk) Chunk                 POST /px/echo | GET /px/echo/{id}
//	SS(Chunk) stream Chunk            POST /px/ss   | GET /px/ss/{id} | WEBSOCKET /px/wss/{id}
//	CS(stream Chunk) Chunk            POST /px/cs   | WEBSOCKET /px/wsc/{id}
//	Bidi(stream Chunk) stream Chunk   POST /px/bidi | WEBSOCKET /px/ws/{id}
//	Upload(stream Upload) Rsp         POST /px/upload/{name} body:file (google.api.HttpBody)
//	Download(Req) stream HttpBody     GET /px/download/{a}
func pxService() (protoreflect.ServiceDescriptor, error) {
	f := &vschema.File{Path: "vf/px.proto", Pkg: "vf.px", Services: []vschema.Service{{Name: "Std", Methods: []vschema.Method{
		{Name: "Echo", In: "vf.Chunk", Out: "vf.Chunk", Rule: bind(hpost("/px/echo"), hget("/px/echo/{id}"))},
		{Name: "SS", In: "vf.Chunk", Out: "vf.Chunk", SS: true, Rule: bind(hpost("/px/ss"), hget("/px/ss/{id}"), hws("/px/wss/{id}"))},
		{Name: "CS", In: "vf.Chunk", Out: "vf.Chunk", CS: true, Rule: bind(hpost("/px/cs"), hws("/px/wsc/{id}"))},
		{Name: "Bidi", In: "vf.Chunk", Out: "vf.Chunk", CS: true, SS: true, Rule: bind(hpost("/px/bidi"), hws("/px/ws/{id}"))},
		// google.api.HttpBody transfers (body.go)
		{Name: "Upload", In: "vf.Upload", Out: "vf.Rsp", CS: true, Rule: &annotations.HttpRule{Pattern: &annotations.HttpRule_Post{Post: "/px/upload/{name}"}, Body: "file"}},
		{Name: "Download", In: "vf.Req", Out: "google.api.HttpBody", SS: true, Rule: hget("/px/download/{a}")},
		{Name: "UploadU", In: "vf.Upload", Out: "vf.Rsp", Rule: &annotations.HttpRule{Pattern: &annotations.HttpRule_Post{Post: "/px/uploadu/{name}"}, Body: "file"}},
	}}}}
	fd, err := f.Build()
	if err != nil {
		return nil, err
	}
	return fd.Services().ByName("Std"), nil
}

var wsPathOf = map[string]string{"ss": "/px/wss/", "cs": "/px/wsc/", "bidi": "/px/ws/"}

// ------------------------------------------------------ WebSocket client

// runWS executes the script as a WebSocket client: JSON text frames, custom
// metadata in the handshake headers. WebSocket scripts are ended by the
// server (larking has no half-close on this transport): the client executes
// its plan, then reads until the close frame and records its code and reason.
func runWS(ctx context.Context, addr string, s *Script, callID string) ClientT {
	var t ClientT
	t.WSCode = -1
	reqs := s.requests(callID)
	hdr := http.Header{}
	hdr.Set("X-Vf-Id", callID)
	if s.MetaPlan {
		hdr.Set("X-Vf-Plan-Bin", encodeBin([]byte(s.planJSON())))
	}
	addMD(hdr, s.MD, s.BinPad)
	conn, err := wire.WSDial(ctx, "ws://"+addr+wsPathOf[s.Shape]+callID, hdr)
	if err != nil {
		t.TransportErr = "websocket handshake: " + err.Error()
		t.TimedOut = ctx.Err() != nil
		return t
	}
	defer conn.Close()
	if dl, ok := ctx.Deadline(); ok {
		conn.SetDeadline(dl)
	}
	rd := &wsutil.Reader{Source: conn, State: ws.StateClientSide}
	// readOne reads the next data message; false at the close frame or when
	// the connection ends.
	readOne := func() bool {
		for {
			h, err := rd.NextFrame()
			if err != nil {
				t.WSEnd = "connection ended without a close frame: " + err.Error()
				t.TimedOut = ctx.Err() != nil || isTimeout(err)
				return false
			}
			if h.OpCode == ws.OpClose {
				b, _ := io.ReadAll(rd)
				code, reason := ws.ParseCloseFrameData(b)
				t.WSCode, t.WSReason = int(code), reason
				if len(b) == 0 {
					t.WSCode = 1005 // no status received
				}
				// answer the close
				ws.WriteFrame(conn, ws.MaskFrameInPlace(ws.NewCloseFrame(ws.NewCloseFrameBody(ws.StatusNormalClosure, ""))))
				return false
			}
			if h.OpCode.IsControl() {
				rd.Discard()
				continue
			}
			b, err := io.ReadAll(rd)
			if err != nil {
				t.WSEnd = "reading a frame: " + err.Error()
				return false
			}
			m := vschema.NewMsg(chunkMD)
			if err := protojson.Unmarshal(b, m); err != nil {
				t.BodyErr = fmt.Sprintf("frame is not a JSON reply: %v (%.120q)", err, b)
				return false
			}
			t.Responses = append(t.Responses, readChunk(m).sum(callID))
			return true
		}
	}
	next := 0
	for _, op := range s.Client {
		switch op {
		case "s":
			if next < len(reqs) {
				b, err := s.jsonOf(reqs[next])
				if err != nil {
					t.TransportErr = "marshal: " + err.Error()
					return t
				}
				// a write error means the server is closing: what it sent
				// is read below
				wsutil.WriteClientText(conn, b)
			}
			next++
		case "r":
			if !readOne() {
				return t
			}
		case "c":
			// not used by generated scripts: a client close is a receive
			// error for the handler on this transport
			ws.WriteFrame(conn, ws.MaskFrameInPlace(ws.NewCloseFrame(ws.NewCloseFrameBody(ws.StatusNormalClosure, ""))))
		default:
			think(ctx, op)
		}
	}
	for readOne() {
	}
	return t
}

func isTimeout(err error) bool {
	type to interface{ Timeout() bool }
	if e, ok := err.(to); ok {
		return e.Timeout()
	}
	return false
}

// ------------------------------------------------- in-process transport

// inproc is an http.RoundTripper that hands the request to a handler
// in-process (wire.Serve: recover + watchdog), header fields verbatim. It
// carries header fields a real HTTP/1 client library would manage itself.
type inproc struct{ h http.Handler }

func (p inproc) RoundTrip(req *http.Request) (*http.Response, error) {
	var body []byte
	if req.Body != nil {
		b, err := io.ReadAll(req.Body)
		if err != nil {
			return nil, err
		}
		req.Body.Close()
		body = b
	}
	var sreq *http.Request
	if req.Method == "GET" || body == nil {
		sreq = wire.BodyRequest(req.Method, req.URL.Path, req.URL.RawQuery, req.Header, nil)
	} else {
		sreq = wire.BodyRequest(req.Method, req.URL.Path, req.URL.RawQuery, req.Header, body)
	}
	sreq = sreq.WithContext(req.Context())
	r := wire.Serve(p.h, sreq)
	if r.Wedged {
		return nil, fmt.Errorf("in-process request wedged (watchdog)")
	}
	if r.Panic != nil {
		return nil, fmt.Errorf("in-process request panicked: %s at %s", r.Panic.Value, r.Panic.Frame)
	}
	return &http.Response{StatusCode: r.Code, Status: http.StatusText(r.Code), Header: r.Header, Body: io.NopCloser(bytes.NewReader(r.Body)),
		Proto: "HTTP/1.1", ProtoMajor: 1, ProtoMinor: 1, Request: req}, nil
}

// hopHeaders are the request-header classes that belong to the client's
// HTTP/1 connection and are not end-to-end metadata of the call.
var hopClasses = []string{"keep-alive", "keep-alive+params", "proxy-connection", "close", "connection-names-x-foo"}

func setHop(h http.Header, class string) {
	switch class {
	case "keep-alive":
		h.Set("Connection", "keep-alive")
	case "keep-alive+params":
		h.Set("Connection", "keep-alive")
		h.Set("Keep-Alive", "timeout=5, max=100")
	case "proxy-connection":
		h.Set("Proxy-Connection", "keep-alive")
	case "close":
		h.Set("Connection", "close")
	case "connection-names-x-foo":
		// whether x-foo itself is forwarded is not asserted
		h.Set("Connection", "X-Foo")
		h.Set("X-Foo", "bar")
	}
}

var _ = time.Second
