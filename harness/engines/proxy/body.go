package proxy

import (
	"bytes"
	"context"
	"encoding/json"
	"fmt"
	"hash/fnv"
	"io"
	"net/http"
	"sync"
	"time"

	"google.golang.org/grpc"
	"google.golang.org/grpc/codes"
	"google.golang.org/grpc/status"
	"google.golang.org/protobuf/reflect/protoreflect"

	"verif/internal/mon"
	"verif/internal/vschema"
)

// ChunkLimit is the MaxReceiveMessageSize of the second proxied Mux: uploads
// of google.api.HttpBody are cut into messages of that many bytes.
const ChunkLimit = 100

// BodyCase is one google.api.HttpBody transfer through the proxy. The oracle
// is byte conservation: what the back-end received is what was uploaded, what
// the client downloaded is what the back-end sent (length, hash, content
// type), and the back-end saw the end of the upload.
type BodyCase struct {
	Kind    string `json:"kind"`    // upload | download
	Size    int    `json:"size"`    // bytes
	Framing string `json:"framing"` // content-length | chunked (HTTP/1.1), h2c
	Front   string `json:"front"`   // small (chunk limit 100) | default
	Chunk   int    `json:"chunk"`   // download: bytes per HttpBody message sent by the back-end
}

func (c BodyCase) String() string {
	return fmt.Sprintf("%s %d bytes %s front=%s chunk=%d", c.Kind, c.Size, c.Framing, c.Front, c.Chunk)
}

// sizeClass places the size relative to the chunk boundaries.
func (c BodyCase) sizeClass() string {
	limit := ChunkLimit
	if c.Front != "small" || c.Kind == "download" {
		return "any"
	}
	switch r := c.Size % limit; {
	case c.Size <= limit:
		return "within-one-chunk"
	case r == 0:
		return "multiple-of-chunk"
	case r <= 28:
		return "shortly-after-boundary"
	default:
		return "between-boundaries"
	}
}

func bodyBytes(size, salt int) []byte { return sizedPayload(size, salt) }

func hashOf(b []byte) uint32 {
	h := fnv.New32a()
	h.Write(b)
	return h.Sum32()
}

// uploadRec is what the back-end saw of one upload.
type uploadRec struct {
	mu       sync.Mutex
	Total    int
	Hash     uint32
	Msgs     int
	CT       string
	EOF      bool
	RecvErr  string
	Finished bool
	done     chan struct{}
}

type uploadStore struct {
	mu sync.Mutex
	m  map[string]*uploadRec
}

func (u *uploadStore) get(name string) *uploadRec {
	u.mu.Lock()
	defer u.mu.Unlock()
	if u.m == nil {
		u.m = map[string]*uploadRec{}
	}
	r := u.m[name]
	if r == nil {
		r = &uploadRec{done: make(chan struct{})}
		u.m[name] = r
	}
	return r
}

func (u *uploadStore) forget(name string) {
	u.mu.Lock()
	delete(u.m, name)
	u.mu.Unlock()
}

var (
	uploadMD = vschema.Msg("vf.Upload")
	rspMD    = vschema.Msg("vf.Rsp")
	reqMD    = vschema.Msg("vf.Req")
	bodyMD   = vschema.Msg("google.api.HttpBody")
)

// upload implements Upload(stream vf.Upload) vf.Rsp: concatenates file.data.
func (b *Scripted) upload(md protoreflect.MethodDescriptor, ss grpc.ServerStream) error {
	var rec *uploadRec
	h := fnv.New32a()
	total, msgs := 0, 0
	ct := ""
	finish := func(eof bool, rerr string) {
		if rec == nil {
			return
		}
		rec.mu.Lock()
		rec.Total, rec.Hash, rec.Msgs, rec.CT, rec.EOF, rec.RecvErr, rec.Finished = total, h.Sum32(), msgs, ct, eof, rerr, true
		rec.mu.Unlock()
		close(rec.done)
	}
	for {
		m := vschema.NewMsg(md.Input())
		err := ss.RecvMsg(m)
		if err == io.EOF {
			finish(true, "")
			out := vschema.NewMsg(md.Output())
			out.ProtoReflect().Set(md.Output().Fields().ByName("n"), protoreflect.ValueOfInt64(int64(total)))
			out.ProtoReflect().Set(md.Output().Fields().ByName("tag"), protoreflect.ValueOfString(b.Tag))
			return ss.SendMsg(out)
		}
		if err != nil {
			finish(false, errClass(err))
			return err
		}
		r := m.ProtoReflect()
		fs := r.Descriptor().Fields()
		if rec == nil {
			name := r.Get(fs.ByName("name")).String()
			rec = b.Uploads.get(name)
		}
		file := r.Get(fs.ByName("file")).Message()
		ffs := file.Descriptor().Fields()
		data := file.Get(ffs.ByName("data")).Bytes()
		if msgs == 0 {
			ct = file.Get(ffs.ByName("content_type")).String()
		}
		h.Write(data)
		total += len(data)
		msgs++
	}
}

// download implements Download(vf.Req) stream google.api.HttpBody: req.n
// bytes in messages of req.l bytes, name (salt of the pattern) in req.a.
func (b *Scripted) download(md protoreflect.MethodDescriptor, ss grpc.ServerStream) error {
	in := vschema.NewMsg(md.Input())
	if err := ss.RecvMsg(in); err != nil {
		return err
	}
	r := in.ProtoReflect()
	fs := r.Descriptor().Fields()
	size := int(r.Get(fs.ByName("n")).Int())
	chunk := int(r.Get(fs.ByName("l")).Int())
	salt := int(r.Get(fs.ByName("u")).Uint())
	if chunk <= 0 {
		return status.Error(codes.InvalidArgument, "chunk")
	}
	data := bodyBytes(size, salt)
	for off := 0; off < len(data) || off == 0; off += chunk {
		end := min(off+chunk, len(data))
		out := vschema.NewMsg(md.Output())
		o := out.ProtoReflect()
		ofs := o.Descriptor().Fields()
		o.Set(ofs.ByName("content_type"), protoreflect.ValueOfString("application/x-vf-bytes"))
		o.Set(ofs.ByName("data"), protoreflect.ValueOfBytes(data[off:end]))
		if err := ss.SendMsg(out); err != nil {
			return err
		}
		if len(data) == 0 {
			break
		}
	}
	return nil
}

// noLen hides the length of a reader so that net/http uses chunked framing.
type noLen struct{ io.Reader }

// execBody runs one transfer and returns the violations (key suffix, text).
func (e *Env) execBody(c BodyCase, id string) (viol [][2]string, incon string) {
	add := func(k, f string, a ...any) { viol = append(viol, [2]string{k, fmt.Sprintf(f, a...)}) }
	ctx, cancel := context.WithTimeout(context.Background(), CallTimeout)
	defer cancel()
	base := e.Front.URL
	if c.Front == "small" {
		base = e.SmallFront.URL
	}
	hc := e.HC
	if c.Framing == "h2c" {
		hc = e.H2
	}
	salt := c.Size*7 + len(id)
	if c.Kind == "upload" {
		data := bodyBytes(c.Size, salt)
		var body io.Reader = bytes.NewReader(data)
		if c.Framing == "chunked" {
			body = noLen{bytes.NewReader(data)}
		}
		req, err := http.NewRequestWithContext(ctx, "POST", base+"/px/upload/"+id, body)
		if err != nil {
			return nil, err.Error()
		}
		req.Header.Set("Content-Type", "application/x-vf-bytes")
		req.Header.Set("Accept", "application/json")
		resp, err := hc.Do(req)
		if err != nil {
			if ctx.Err() != nil {
				add("hang", "upload did not complete within %s: %v", CallTimeout, err)
				return viol, ""
			}
			return nil, "upload request failed: " + err.Error()
		}
		rb, _ := io.ReadAll(resp.Body)
		resp.Body.Close()
		rec := e.Uploads.get(id)
		select {
		case <-rec.done:
		case <-time.After(3 * time.Second):
		}
		e.Uploads.forget(id)
		rec.mu.Lock()
		defer rec.mu.Unlock()
		if !rec.Finished {
			add("backend-unfinished", "HTTP %d %.100q but the back-end handler has not finished (received %d bytes so far)", resp.StatusCode, rb, rec.Total)
			return viol, ""
		}
		if rec.Total != len(data) || rec.Hash != hashOf(data) {
			add("bytes-at-backend", "uploaded %d bytes (hash %08x); the back-end received %d bytes (hash %08x) in %d messages and saw the end of the upload=%v; client got HTTP %d %.100q",
				len(data), hashOf(data), rec.Total, rec.Hash, rec.Msgs, rec.EOF, resp.StatusCode, rb)
		}
		if !rec.EOF {
			add("backend-half-close", "the back-end did not see the end of the upload (recv error %q) after %d bytes; client got HTTP %d", rec.RecvErr, rec.Total, resp.StatusCode)
		}
		if rec.CT != "application/x-vf-bytes" {
			add("content-type", "content type at the back-end %q", rec.CT)
		}
		if resp.StatusCode != 200 {
			add("http-status", "HTTP %d %.160q for an upload the back-end answers OK", resp.StatusCode, rb)
			return viol, ""
		}
		var out struct {
			N   json.Number `json:"n"`
			Tag string      `json:"tag"`
		}
		if err := json.Unmarshal(rb, &out); err != nil || out.Tag != "be" || out.N.String() != fmt.Sprint(rec.Total) {
			add("reply", "reply %.160q, the back-end answered n=%d tag=be (%v)", rb, rec.Total, err)
		}
		return viol, ""
	}
	// download
	url := fmt.Sprintf("%s/px/download/%s?n=%d&l=%d&u=%d", base, id, c.Size, c.Chunk, salt)
	req, err := http.NewRequestWithContext(ctx, "GET", url, nil)
	if err != nil {
		return nil, err.Error()
	}
	resp, err := hc.Do(req)
	if err != nil {
		if ctx.Err() != nil {
			add("hang", "download did not complete within %s: %v", CallTimeout, err)
			return viol, ""
		}
		return nil, "download request failed: " + err.Error()
	}
	rb, rerr := io.ReadAll(resp.Body)
	resp.Body.Close()
	want := bodyBytes(c.Size, salt)
	if resp.StatusCode != 200 {
		add("http-status", "HTTP %d %.160q for a download the back-end serves", resp.StatusCode, rb)
		return viol, ""
	}
	if rerr != nil {
		add("body-read", "reading the body: %v after %d of %d bytes", rerr, len(rb), len(want))
		return viol, ""
	}
	if !bytes.Equal(rb, want) {
		add("bytes-at-client", "the back-end sent %d bytes (hash %08x) in messages of %d; the client received %d bytes (hash %08x)", len(want), hashOf(want), c.Chunk, len(rb), hashOf(rb))
	}
	if ct := resp.Header.Get("Content-Type"); ct != "application/x-vf-bytes" {
		add("content-type", "Content-Type %q, the back-end sent application/x-vf-bytes", ct)
	}
	return viol, ""
}

// bodyCases is the case list: uploads swept over 1..4.5 chunks of the small
// front (every size on the thorough tier) in all framings, a few through the
// default front; downloads over sizes x message sizes.
func bodyCases(thorough bool) []BodyCase {
	var out []BodyCase
	var sizes []int
	if thorough {
		for s := 1; s <= 450; s++ {
			sizes = append(sizes, s)
		}
	} else {
		sizes = []int{1, 50, 99, 100, 101, 104, 113, 128, 129, 150, 199, 200, 201, 207, 228, 260, 300, 301, 322, 399, 400, 401, 419, 450}
	}
	for _, f := range []string{"content-length", "chunked", "h2c"} {
		for _, s := range sizes {
			out = append(out, BodyCase{Kind: "upload", Size: s, Framing: f, Front: "small"})
		}
		for _, s := range []int{1, 1000, 70000} {
			out = append(out, BodyCase{Kind: "upload", Size: s, Framing: f, Front: "default"})
		}
	}
	for _, f := range []string{"content-length", "h2c"} {
		for _, s := range []int{0, 1, 99, 100, 101, 250, 1000, 70000} {
			for _, ch := range []int{1, 64, 100, 1000} {
				if s/ch > 2000 {
					continue
				}
				for _, fr := range []string{"small", "default"} {
					out = append(out, BodyCase{Kind: "download", Size: s, Framing: f, Front: fr, Chunk: ch})
				}
			}
		}
	}
	return out
}

func runBodyCases(r *mon.Run, e *Env) {
	cases := bodyCases(r.Thorough())
	ch := make(chan int)
	var wg sync.WaitGroup
	for w := 0; w < 16; w++ {
		wg.Add(1)
		go func() {
			defer wg.Done()
			for i := range ch {
				reportBody(r, e, cases[i], fmt.Sprintf("b%d", e.seq.Add(1)))
			}
		}()
	}
	for i := range cases {
		ch <- i
	}
	close(ch)
	wg.Wait()
}

func reportBody(r *mon.Run, e *Env, c BodyCase, id string) {
	viol, incon := e.execBody(c, id)
	r.Eval(1)
	if incon != "" {
		r.Count("inconclusive_scripts", 1)
		r.Inconclusive(c.String() + ": " + incon)
		return
	}
	r.Count("httpbody_transfers", 1)
	r.Count("httpbody_bytes_checked", c.Size)
	r.Distinct(fmt.Sprintf("httpbody/%s/%s/%s/%s", c.Kind, c.Framing, c.Front, c.sizeClass()))
	for _, v := range viol {
		key := fmt.Sprintf("http/%s:%s:%s,%s,front=%s", c.Kind, v[0], c.sizeClass(), c.Framing, c.Front)
		r.Violate(key, v[1]+" ["+c.String()+"]", map[string]any{"body_case": c})
	}
}
