package proxy

import (
	"bytes"
	"context"
	"encoding/json"
	"fmt"
	"hash/fnv"
	"io"
	"net/http"
	neturl "net/url"
	"sync"
	"time"

	spb "google.golang.org/genproto/googleapis/rpc/status"
	"google.golang.org/grpc"
	"google.golang.org/grpc/codes"
	"google.golang.org/grpc/status"
	"google.golang.org/protobuf/encoding/protojson"
	"google.golang.org/protobuf/proto"
	"google.golang.org/protobuf/reflect/protoreflect"

	"verif/internal/mon"
	"verif/internal/vschema"
)

// ChunkLimit is the MaxReceiveMessageSize of the second proxied Mux: uploads
// of google.api.HttpBody are cut into messages of that many bytes.
const ChunkLimit = 100

// BodyCase is one google.api.HttpBody transfer through the proxy. The oracle
// is byte conservation: what the back-end received is what was uploaded, what
// the client downloaded is what the back-end sent (length, hash, content
// type), and the back-end saw the end of the upload.
type BodyCase struct {
	Kind    string `json:"kind"`    // upload | download
	Size    int    `json:"size"`    // bytes
	Framing string `json:"framing"` // content-length | chunked (HTTP/1.1), h2c
	Front   string `json:"front"`   // small (chunk limit 100) | default
	Chunk   int    `json:"chunk"`   // download: bytes per HttpBody message sent by the back-end
	// CT is the media type of the transfer (upload: request Content-Type, ""
	// none; download: content_type the back-end sets). Unary selects the
	// unary HttpBody-bound method for uploads. Accept is the request's
	// Accept header. Fail makes the back-end fail the upload (after the
	// half-close / before the response) with that code, message class and
	// details.
	CT     string `json:"content_type"`
	Unary  bool   `json:"unary,omitempty"`
	Accept string `json:"accept,omitempty"`
	Fail   int32  `json:"fail,omitempty"`
	MsgC   string `json:"msg_class,omitempty"`
	Det    int    `json:"det,omitempty"`
}

func (c BodyCase) String() string {
	return fmt.Sprintf("%s %d bytes %s front=%s chunk=%d content-type=%q unary=%v accept=%q fail=%d/%s/%d", c.Kind, c.Size, c.Framing, c.Front, c.Chunk, c.CT, c.Unary, c.Accept, c.Fail, c.MsgC, c.Det)
}

// sizeClass places the size relative to the chunk boundaries.
func (c BodyCase) sizeClass() string {
	limit := ChunkLimit
	if c.Front != "small" || c.Kind == "download" {
		return "any"
	}
	switch r := c.Size % limit; {
	case c.Size <= limit:
		return "within-one-chunk"
	case r == 0:
		return "multiple-of-chunk"
	case r <= 28:
		return "shortly-after-boundary"
	default:
		return "between-boundaries"
	}
}

func bodyBytes(size, salt int) []byte { return sizedPayload(size, salt) }

// payloadFor is the body of a transfer: JSON-looking text (objects, white
// space, a trailing newline) for the JSON media type and for none, the byte
// pattern otherwise.
func payloadFor(ct string, size, salt int) []byte {
	if ct != "application/json" && ct != "" {
		return bodyBytes(size, salt)
	}
	var b []byte
	for i := 0; len(b) < size; i++ {
		b = append(b, fmt.Sprintf("{\"n\":%d,\"s\":\"}{\"} \n", salt+i)...)
	}
	b = b[:size]
	if size > 2 {
		b[size-2], b[size-1] = ' ', '\n'
	}
	return b
}

func hasCodec(ct string) bool {
	return ct == "application/json" || ct == "application/protobuf" || ct == "application/octet-stream"
}

func hashOf(b []byte) uint32 {
	h := fnv.New32a()
	h.Write(b)
	return h.Sum32()
}

// uploadRec is what the back-end saw of one upload.
type uploadRec struct {
	mu       sync.Mutex
	Total    int
	Hash     uint32
	Msgs     int
	CT       string
	EOF      bool
	RecvErr  string
	Finished bool
	done     chan struct{}
}

type uploadStore struct {
	mu sync.Mutex
	m  map[string]*uploadRec
}

func (u *uploadStore) get(name string) *uploadRec {
	u.mu.Lock()
	defer u.mu.Unlock()
	if u.m == nil {
		u.m = map[string]*uploadRec{}
	}
	r := u.m[name]
	if r == nil {
		r = &uploadRec{done: make(chan struct{})}
		u.m[name] = r
	}
	return r
}

func (u *uploadStore) forget(name string) {
	u.mu.Lock()
	delete(u.m, name)
	u.mu.Unlock()
}

var (
	uploadMD = vschema.Msg("vf.Upload")
	rspMD    = vschema.Msg("vf.Rsp")
	reqMD    = vschema.Msg("vf.Req")
	bodyMD   = vschema.Msg("google.api.HttpBody")
)

// upload implements Upload(stream vf.Upload) vf.Rsp: concatenates file.data.
func (b *Scripted) upload(md protoreflect.MethodDescriptor, ss grpc.ServerStream) error {
	var rec *uploadRec
	h := fnv.New32a()
	total, msgs := 0, 0
	ct := ""
	finish := func(eof bool, rerr string) {
		if rec == nil {
			return
		}
		rec.mu.Lock()
		rec.Total, rec.Hash, rec.Msgs, rec.CT, rec.EOF, rec.RecvErr, rec.Finished = total, h.Sum32(), msgs, ct, eof, rerr, true
		rec.mu.Unlock()
		close(rec.done)
	}
	for {
		m := vschema.NewMsg(md.Input())
		err := ss.RecvMsg(m)
		if err == io.EOF {
			finish(true, "")
			if _, _, plan := customMD(ss.Context()); plan != "" {
				if ferr := finalErr(parsePlan(plan)); ferr != nil {
					return ferr // the back-end fails the call after the half-close
				}
			}
			out := vschema.NewMsg(md.Output())
			out.ProtoReflect().Set(md.Output().Fields().ByName("n"), protoreflect.ValueOfInt64(int64(total)))
			out.ProtoReflect().Set(md.Output().Fields().ByName("tag"), protoreflect.ValueOfString(b.Tag))
			return ss.SendMsg(out)
		}
		if err != nil {
			finish(false, errClass(err))
			return err
		}
		r := m.ProtoReflect()
		fs := r.Descriptor().Fields()
		if rec == nil {
			name := r.Get(fs.ByName("name")).String()
			rec = b.Uploads.get(name)
		}
		file := r.Get(fs.ByName("file")).Message()
		ffs := file.Descriptor().Fields()
		data := file.Get(ffs.ByName("data")).Bytes()
		if msgs == 0 {
			ct = file.Get(ffs.ByName("content_type")).String()
		}
		h.Write(data)
		total += len(data)
		msgs++
	}
}

// uploadUnary implements UploadU(vf.Upload) vf.Rsp.
func (b *Scripted) uploadUnary(ctx context.Context, md protoreflect.MethodDescriptor, in proto.Message) (proto.Message, error) {
	r := in.ProtoReflect()
	fs := r.Descriptor().Fields()
	rec := b.Uploads.get(r.Get(fs.ByName("name")).String())
	file := r.Get(fs.ByName("file")).Message()
	ffs := file.Descriptor().Fields()
	data := file.Get(ffs.ByName("data")).Bytes()
	rec.mu.Lock()
	rec.Total, rec.Hash, rec.Msgs, rec.CT, rec.EOF, rec.Finished = len(data), hashOf(data), 1, file.Get(ffs.ByName("content_type")).String(), true, true
	rec.mu.Unlock()
	close(rec.done)
	if _, _, plan := customMD(ctx); plan != "" {
		if ferr := finalErr(parsePlan(plan)); ferr != nil {
			return nil, ferr
		}
	}
	out := vschema.NewMsg(md.Output())
	out.ProtoReflect().Set(md.Output().Fields().ByName("n"), protoreflect.ValueOfInt64(int64(len(data))))
	out.ProtoReflect().Set(md.Output().Fields().ByName("tag"), protoreflect.ValueOfString(b.Tag))
	return out, nil
}

// download implements Download(vf.Req) stream google.api.HttpBody: req.n
// bytes in messages of req.l bytes, name (salt of the pattern) in req.a.
func (b *Scripted) download(md protoreflect.MethodDescriptor, ss grpc.ServerStream) error {
	in := vschema.NewMsg(md.Input())
	if err := ss.RecvMsg(in); err != nil {
		return err
	}
	r := in.ProtoReflect()
	fs := r.Descriptor().Fields()
	size := int(r.Get(fs.ByName("n")).Int())
	chunk := int(r.Get(fs.ByName("l")).Int())
	salt := int(r.Get(fs.ByName("u")).Uint())
	ct := r.Get(fs.ByName("b")).String()
	if ct == "" {
		ct = "application/x-vf-bytes"
	}
	if chunk <= 0 {
		return status.Error(codes.InvalidArgument, "chunk")
	}
	data := payloadFor(ct, size, salt)
	for off := 0; off < len(data) || off == 0; off += chunk {
		end := min(off+chunk, len(data))
		out := vschema.NewMsg(md.Output())
		o := out.ProtoReflect()
		ofs := o.Descriptor().Fields()
		o.Set(ofs.ByName("content_type"), protoreflect.ValueOfString(ct))
		o.Set(ofs.ByName("data"), protoreflect.ValueOfBytes(data[off:end]))
		if err := ss.SendMsg(out); err != nil {
			return err
		}
		if len(data) == 0 {
			break
		}
	}
	return nil
}

// noLen hides the length of a reader so that net/http uses chunked framing.
type noLen struct{ io.Reader }

// execBody runs one transfer and returns the violations (key suffix, text).
func (e *Env) execBody(c BodyCase, id string) (viol [][2]string, incon string) {
	add := func(k, f string, a ...any) { viol = append(viol, [2]string{k, fmt.Sprintf(f, a...)}) }
	ctx, cancel := context.WithTimeout(context.Background(), CallTimeout)
	defer cancel()
	base := e.Front.URL
	if c.Front == "small" {
		base = e.SmallFront.URL
	}
	hc := e.HC
	if c.Framing == "h2c" {
		hc = e.H2
	}
	salt := c.Size*7 + len(id)
	if c.Kind == "upload" {
		data := payloadFor(c.CT, c.Size, salt)
		var body io.Reader = bytes.NewReader(data)
		if c.Framing == "chunked" {
			body = noLen{bytes.NewReader(data)}
		}
		path := "/px/upload/"
		if c.Unary {
			path = "/px/uploadu/"
		}
		req, err := http.NewRequestWithContext(ctx, "POST", base+path+id, body)
		if err != nil {
			return nil, err.Error()
		}
		if c.CT != "" {
			req.Header.Set("Content-Type", c.CT)
		}
		switch {
		case c.Accept != "":
			req.Header.Set("Accept", c.Accept)
		case c.Fail == 0:
			// The reply of a successful upload is asked for in JSON: without
			// Accept larking answers in the request's media type, which for
			// a foreign type has no codec (not the proxy's business).
			req.Header.Set("Accept", "application/json")
		}
		var want *planWire
		if c.Fail != 0 {
			want = &planWire{Code: c.Fail, Msg: msgOf(c.MsgC, c.Fail), Det: c.Det, BigRep: -1}
			pj, _ := json.Marshal(want)
			req.Header.Set("X-Vf-Plan-Bin", encodeBin(pj))
		}
		resp, err := hc.Do(req)
		if err != nil {
			if ctx.Err() != nil {
				add("hang", "upload did not complete within %s: %v", CallTimeout, err)
				return viol, ""
			}
			if want != nil {
				// the back-end answers with a status: a connection that ends
				// without any response is not that status
				add("no-response", "the back-end fails the upload with %s (%q); the HTTP client got no response at all: %v", codes.Code(want.Code), want.Msg, err)
				return viol, ""
			}
			return nil, "upload request failed: " + err.Error()
		}
		rb, _ := io.ReadAll(resp.Body)
		resp.Body.Close()
		rec := e.Uploads.get(id)
		select {
		case <-rec.done:
		case <-time.After(3 * time.Second):
		}
		e.Uploads.forget(id)
		rec.mu.Lock()
		defer rec.mu.Unlock()
		if !rec.Finished {
			add("backend-unfinished", "HTTP %d %.100q but the back-end handler has not finished (received %d bytes so far)", resp.StatusCode, rb, rec.Total)
			return viol, ""
		}
		if rec.Total != len(data) || rec.Hash != hashOf(data) {
			add("bytes-at-backend", "uploaded %d bytes (hash %08x); the back-end received %d bytes (hash %08x) in %d messages and saw the end of the upload=%v; client got HTTP %d %.100q",
				len(data), hashOf(data), rec.Total, rec.Hash, rec.Msgs, rec.EOF, resp.StatusCode, rb)
		}
		if !rec.EOF {
			add("backend-half-close", "the back-end did not see the end of the upload (recv error %q) after %d bytes; client got HTTP %d", rec.RecvErr, rec.Total, resp.StatusCode)
		}
		if c.CT != "" && rec.CT != c.CT {
			add("content-type", "content type at the back-end %q, uploaded as %q", rec.CT, c.CT)
		}
		if want != nil {
			// failing back-end: the HTTP client has to get the status a direct
			// caller gets (code via the documented table, message, details)
			okStatus := false
			for _, w := range expectedHTTP(want.Code) {
				okStatus = okStatus || w == resp.StatusCode
			}
			if !okStatus {
				add("http-status", "HTTP %d for back-end code %d (documented mapping %v); body %.120q", resp.StatusCode, want.Code, expectedHTTP(want.Code), rb)
			}
			st := &spb.Status{}
			var derr error
			switch rct := resp.Header.Get("Content-Type"); rct {
			case "application/protobuf", "application/octet-stream":
				derr = proto.Unmarshal(rb, st)
			default:
				derr = protojson.Unmarshal(rb, st)
			}
			wst, _ := status.FromError(finalErr(want))
			if derr != nil {
				add("status-body", "error body (%s) is not a google.rpc.Status: %v (%.120q)", resp.Header.Get("Content-Type"), derr, rb)
			} else if st.Code != want.Code || st.Message != want.Msg || fmt.Sprint(detailStrings(st)) != fmt.Sprint(detailStrings(wst.Proto())) {
				add("status-body", "status at the HTTP client: code %d %q details %v; the back-end failed with %d %q details %v", st.Code, st.Message, detailStrings(st), want.Code, want.Msg, detailStrings(wst.Proto()))
			}
			return viol, ""
		}
		if resp.StatusCode != 200 {
			add("http-status", "HTTP %d %.160q for an upload the back-end answers OK", resp.StatusCode, rb)
			return viol, ""
		}
		var out struct {
			N   json.Number `json:"n"`
			Tag string      `json:"tag"`
		}
		if err := json.Unmarshal(rb, &out); err != nil || out.Tag != "be" || out.N.String() != fmt.Sprint(rec.Total) {
			add("reply", "reply %.160q, the back-end answered n=%d tag=be (%v)", rb, rec.Total, err)
		}
		return viol, ""
	}
	// download
	dct := c.CT
	if dct == "" {
		dct = "application/x-vf-bytes"
	}
	url := fmt.Sprintf("%s/px/download/%s?n=%d&l=%d&u=%d&b=%s", base, id, c.Size, c.Chunk, salt, neturl.QueryEscape(dct))
	req, err := http.NewRequestWithContext(ctx, "GET", url, nil)
	if err != nil {
		return nil, err.Error()
	}
	resp, err := hc.Do(req)
	if err != nil {
		if ctx.Err() != nil {
			add("hang", "download did not complete within %s: %v", CallTimeout, err)
			return viol, ""
		}
		return nil, "download request failed: " + err.Error()
	}
	rb, rerr := io.ReadAll(resp.Body)
	resp.Body.Close()
	want := payloadFor(dct, c.Size, salt)
	if resp.StatusCode != 200 {
		add("http-status", "HTTP %d %.160q for a download the back-end serves", resp.StatusCode, rb)
		return viol, ""
	}
	if rerr != nil {
		add("body-read", "reading the body: %v after %d of %d bytes", rerr, len(rb), len(want))
		return viol, ""
	}
	if !bytes.Equal(rb, want) {
		add("bytes-at-client", "the back-end sent %d bytes (hash %08x) in messages of %d; the client received %d bytes (hash %08x)", len(want), hashOf(want), c.Chunk, len(rb), hashOf(rb))
	}
	if ct := resp.Header.Get("Content-Type"); ct != dct {
		add("content-type", "Content-Type %q, the back-end sent %q", ct, dct)
	}
	return viol, ""
}

// bodyCases is the case list: uploads swept over 1..4.5 chunks of the small
// front (every size on the thorough tier) in all framings, a few through the
// default front; downloads over sizes x message sizes.
func bodyCases(thorough bool) []BodyCase {
	var out []BodyCase
	var sizes []int
	if thorough {
		for s := 1; s <= 450; s++ {
			sizes = append(sizes, s)
		}
	} else {
		sizes = []int{1, 50, 99, 100, 101, 104, 113, 128, 129, 150, 199, 200, 201, 207, 228, 260, 300, 301, 322, 399, 400, 401, 419, 450}
	}
	for _, f := range []string{"content-length", "chunked", "h2c"} {
		for _, s := range sizes {
			out = append(out, BodyCase{Kind: "upload", Size: s, Framing: f, Front: "small", CT: "application/x-vf-bytes"})
		}
		for _, s := range []int{1, 1000, 70000} {
			out = append(out, BodyCase{Kind: "upload", Size: s, Framing: f, Front: "default", CT: "application/x-vf-bytes"})
		}
	}
	// media types: with a registered codec next to foreign ones and none
	uploadTypes := []string{"application/octet-stream", "application/protobuf", "application/json", "", "image/jpeg", "text/csv"}
	for _, ct := range uploadTypes {
		for _, f := range []string{"content-length", "chunked", "h2c"} {
			for _, s := range []int{60, 250, 317} {
				out = append(out, BodyCase{Kind: "upload", Size: s, Framing: f, Front: "small", CT: ct})
			}
			out = append(out, BodyCase{Kind: "upload", Size: 90, Framing: f, Front: "small", CT: ct, Unary: true})
			out = append(out, BodyCase{Kind: "upload", Size: 5000, Framing: f, Front: "default", CT: ct, Unary: true})
		}
	}
	for _, ct := range []string{"application/octet-stream", "application/protobuf", "application/json", "image/jpeg"} {
		for _, f := range []string{"content-length", "h2c"} {
			for _, ch := range []int{64, 1000} {
				out = append(out, BodyCase{Kind: "download", Size: 250, Framing: f, Front: "default", Chunk: ch, CT: ct},
					BodyCase{Kind: "download", Size: 3000, Framing: f, Front: "small", Chunk: ch, CT: ct})
			}
		}
	}
	// failing back-end x request media types without a codec (and one with) x Accept
	codesL := []int32{7, 8}
	if thorough {
		codesL = []int32{1, 2, 3, 4, 5, 6, 7, 8, 9, 10, 11, 12, 13, 14, 15, 16}
	}
	k := 0
	for _, ct := range []string{"image/jpeg", "text/csv", "application/zip", "application/x-vf-bytes", "application/json"} {
		for _, acc := range []string{"", "*/*", "application/json"} {
			for _, code := range codesL {
				for _, un := range []bool{true, false} {
					k++
					size, front := 90, "small"
					if !un {
						size = 250
					}
					out = append(out, BodyCase{Kind: "upload", Size: size, Framing: []string{"content-length", "h2c", "chunked"}[k%3], Front: front, CT: ct, Unary: un,
						Accept: acc, Fail: code, MsgC: msgClasses[k%len(msgClasses)], Det: k % 3})
				}
			}
		}
	}
	for _, f := range []string{"content-length", "h2c"} {
		for _, s := range []int{0, 1, 99, 100, 101, 250, 1000, 70000} {
			for _, ch := range []int{1, 64, 100, 1000} {
				if s/ch > 2000 {
					continue
				}
				for _, fr := range []string{"small", "default"} {
					out = append(out, BodyCase{Kind: "download", Size: s, Framing: f, Front: fr, Chunk: ch})
				}
			}
		}
	}
	return out
}

func runBodyCases(r *mon.Run, e *Env) {
	cases := bodyCases(r.Thorough())
	ch := make(chan int)
	var wg sync.WaitGroup
	for w := 0; w < 16; w++ {
		wg.Add(1)
		go func() {
			defer wg.Done()
			for i := range ch {
				reportBody(r, e, cases[i], fmt.Sprintf("b%d", e.seq.Add(1)))
			}
		}()
	}
	for i := range cases {
		ch <- i
	}
	close(ch)
	wg.Wait()
}

func reportBody(r *mon.Run, e *Env, c BodyCase, id string) {
	viol, incon := e.execBody(c, id)
	r.Eval(1)
	if incon != "" {
		r.Count("inconclusive_scripts", 1)
		r.Inconclusive(c.String() + ": " + incon)
		return
	}
	r.Count("httpbody_transfers", 1)
	r.Count("httpbody_bytes_checked", c.Size)
	r.Distinct(fmt.Sprintf("httpbody/%s/%s/%s/%s/ct=%s/unary=%v/accept=%s/fail=%v", c.Kind, c.Framing, c.Front, c.sizeClass(), c.CT, c.Unary, c.Accept, c.Fail != 0))
	for _, v := range viol {
		kind := c.Kind
		if c.Unary {
			kind += "-unary"
		}
		cls := "foreign-type"
		if hasCodec(c.CT) {
			cls = "type-with-codec"
		} else if c.CT == "" {
			cls = "no-type"
		}
		if c.Fail != 0 {
			cls += fmt.Sprintf(",backend-fails,accept=%q", c.Accept)
		}
		key := fmt.Sprintf("http/%s:%s:%s,%s,%s,front=%s", kind, v[0], c.sizeClass(), cls, c.Framing, c.Front)
		r.Violate(key, v[1]+" ["+c.String()+"]", map[string]any{"body_case": c})
	}
}
