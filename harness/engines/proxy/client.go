package proxy

import (
	"bytes"
	"context"
	"encoding/base64"
	"encoding/json"
	"fmt"
	"io"
	"net/http"
	"net/url"
	"strings"
	"time"

	spb "google.golang.org/genproto/googleapis/rpc/status"
	"google.golang.org/grpc"
	"google.golang.org/grpc/metadata"
	"google.golang.org/grpc/status"
	"google.golang.org/protobuf/encoding/protojson"

	"verif/internal/vschema"
)

// ClientT is the client-side transcript of one call.
type ClientT struct {
	Responses []string `json:"responses"`
	Code      int32    `json:"code"`
	Msg       string   `json:"msg"`
	Details   []string `json:"details,omitempty"`
	// HTTP front only
	HTTPStatus int    `json:"http_status,omitempty"`
	BodyErr    string `json:"body_err,omitempty"`
	Extra      int    `json:"extra_objects,omitempty"` // JSON objects after the expected replies
	// transport-level failure of the harness's own client (not a status)
	TransportErr string `json:"transport_err,omitempty"`
	TimedOut     bool   `json:"timed_out,omitempty"`
}

var methodOf = map[string]string{"unary": "Echo", "ss": "SS", "cs": "CS", "bidi": "Bidi"}
var pathOf = map[string]string{"unary": "/px/echo", "ss": "/px/ss", "cs": "/px/cs", "bidi": "/px/bidi"}

// requests materialises the request messages of a script for a call id.
func (s *Script) requests(callID string) []chunk {
	var out []chunk
	for i := 0; i < s.NMsg; i++ {
		c := chunk{ID: callID, Seq: int32(i), Text: fmt.Sprintf("m%d", i)}
		if i == 0 && !s.MetaPlan {
			c.Script = s.planJSON()
		}
		if s.BigReq == i {
			c.Data = bigPayload(100 + i)
		} else if i%2 == 1 {
			c.Data = []byte{0, byte(i), 0x80, 0xff}
		}
		if s.HTTPGet {
			// a GET binding can only carry the path variable and query
			// parameters: id and script.
			c = chunk{ID: callID, Script: s.planJSON()}
		}
		out = append(out, c)
	}
	return out
}

func detailStrings(st *spb.Status) []string {
	var out []string
	for _, d := range st.GetDetails() {
		out = append(out, fmt.Sprintf("%s:%x", d.GetTypeUrl(), d.GetValue()))
	}
	return out
}

func (t *ClientT) setErr(ctx context.Context, err error) {
	if err == nil || err == io.EOF {
		return
	}
	st, ok := status.FromError(err)
	if !ok {
		t.TransportErr = err.Error()
		return
	}
	t.Code, t.Msg = int32(st.Code()), st.Message()
	t.Details = detailStrings(st.Proto())
	if ctx.Err() != nil {
		t.TimedOut = true
	}
}

// runGRPC executes the script with a grpc-go client on cc (the back-end
// itself or the larking front).
func runGRPC(ctx context.Context, cc *grpc.ClientConn, s *Script, callID string) ClientT {
	var t ClientT
	pairs := []string{"x-vf-id", callID}
	for _, kv := range s.MD {
		pairs = append(pairs, kv.K, string(kv.V))
	}
	if s.MetaPlan {
		pairs = append(pairs, "x-vf-plan-bin", s.planJSON())
	}
	ctx = metadata.AppendToOutgoingContext(ctx, pairs...)
	full := "/vf.px.Std/" + methodOf[s.Shape]
	reqs := s.requests(callID)
	if s.Shape == "unary" {
		out := vschema.NewMsg(chunkMD)
		if err := cc.Invoke(ctx, full, reqs[0].msg(), out); err != nil {
			t.setErr(ctx, err)
			return t
		}
		t.Responses = append(t.Responses, readChunk(out).sum(callID))
		return t
	}
	desc := &grpc.StreamDesc{ClientStreams: s.Shape == "cs" || s.Shape == "bidi", ServerStreams: s.Shape == "ss" || s.Shape == "bidi"}
	st, err := cc.NewStream(ctx, desc, full)
	if err != nil {
		t.setErr(ctx, err)
		return t
	}
	recvOne := func() bool {
		out := vschema.NewMsg(chunkMD)
		if err := st.RecvMsg(out); err != nil {
			t.setErr(ctx, err)
			return false
		}
		t.Responses = append(t.Responses, readChunk(out).sum(callID))
		return true
	}
	plan := s.Client
	if !desc.ClientStreams {
		plan = []string{"s"} // grpc-go half-closes by itself
	}
	next := 0
	sendDead := false
	for _, op := range plan {
		switch op {
		case "s":
			if sendDead || next >= len(reqs) {
				next++
				continue
			}
			if err := st.SendMsg(reqs[next].msg()); err != nil {
				// io.EOF: the stream has ended, the status comes from RecvMsg
				sendDead = true
				if err != io.EOF {
					t.setErr(ctx, err)
					return t
				}
			}
			next++
		case "r":
			if !recvOne() {
				return t
			}
		case "c":
			st.CloseSend()
		default:
			think(ctx, op)
		}
	}
	for recvOne() {
	}
	return t
}

// think executes a "w<ms>" step: client think time (workload, not a verdict).
func think(ctx context.Context, op string) {
	var ms int
	if _, err := fmt.Sscanf(op, "w%d", &ms); err != nil || ms <= 0 {
		return
	}
	select {
	case <-time.After(time.Duration(ms) * time.Millisecond):
	case <-ctx.Done():
	}
}

func hasThink(plan []string) bool {
	for _, op := range plan {
		if strings.HasPrefix(op, "w") {
			return true
		}
	}
	return false
}

func encodeBin(b []byte) string { return base64.RawStdEncoding.EncodeToString(b) }

var jsonM = protojson.MarshalOptions{}

// runHTTP executes the script with an HTTP client through the service's
// google.api.http bindings (whole request body first).
func runHTTP(ctx context.Context, hc *http.Client, base string, s *Script, callID string) ClientT {
	var t ClientT
	reqs := s.requests(callID)
	var req *http.Request
	var err error
	if s.HTTPGet {
		u := base + pathOf[s.Shape] + "/" + callID + "?script=" + url.QueryEscape(reqs[0].Script)
		req, err = http.NewRequestWithContext(ctx, "GET", u, nil)
	} else {
		var body bytes.Buffer
		for _, c := range reqs {
			b, merr := jsonM.Marshal(c.msg())
			if merr != nil {
				t.TransportErr = "marshal: " + merr.Error()
				return t
			}
			body.Write(b)
		}
		var rd io.Reader = bytes.NewReader(body.Bytes())
		if hasThink(s.Client) {
			// streamed request body (h2c): the client plan is executed on
			// the body writer, with its think time
			pr, pw := io.Pipe()
			rd = pr
			go func() {
				next := 0
				for _, op := range s.Client {
					switch op {
					case "s":
						if next < len(reqs) {
							b, _ := jsonM.Marshal(reqs[next].msg())
							if _, err := pw.Write(b); err != nil {
								return // the transport stopped reading: the call is over
							}
						}
						next++
					case "c":
						pw.Close()
						return
					default:
						think(ctx, op)
					}
				}
				pw.Close()
			}()
		}
		req, err = http.NewRequestWithContext(ctx, "POST", base+pathOf[s.Shape], rd)
		if req != nil {
			req.Header.Set("Content-Type", "application/json")
		}
	}
	if err != nil {
		t.TransportErr = err.Error()
		return t
	}
	req.Header.Set("Accept", "application/json")
	req.Header.Set("X-Vf-Id", callID)
	if s.MetaPlan {
		req.Header.Set("X-Vf-Plan-Bin", encodeBin([]byte(s.planJSON())))
	}
	for _, kv := range s.MD {
		v := string(kv.V)
		if strings.HasSuffix(kv.K, "-bin") {
			v = encodeBin(kv.V)
		}
		req.Header.Add(kv.K, v)
	}
	resp, err := hc.Do(req)
	if err != nil {
		t.TransportErr = err.Error()
		t.TimedOut = ctx.Err() != nil
		return t
	}
	defer resp.Body.Close()
	body, err := io.ReadAll(resp.Body)
	if err != nil {
		t.TransportErr = "body: " + err.Error()
		t.TimedOut = ctx.Err() != nil
	}
	t.HTTPStatus = resp.StatusCode
	dec := json.NewDecoder(bytes.NewReader(body))
	var objs []json.RawMessage
	for {
		var raw json.RawMessage
		if err := dec.Decode(&raw); err != nil {
			if err != io.EOF {
				t.BodyErr = fmt.Sprintf("body is not a sequence of JSON values: %v (%.120q)", err, body)
			}
			break
		}
		objs = append(objs, raw)
	}
	if resp.StatusCode != 200 {
		// error before the first reply: status line + google.rpc.Status body
		st := &spb.Status{}
		if len(objs) != 1 {
			t.BodyErr = fmt.Sprintf("error body holds %d JSON values (%.120q)", len(objs), body)
			return t
		}
		if err := protojson.Unmarshal(objs[0], st); err != nil {
			t.BodyErr = fmt.Sprintf("error body is not a google.rpc.Status: %v (%.120q)", err, body)
			return t
		}
		t.Code, t.Msg, t.Details = st.Code, st.Message, detailStrings(st)
		return t
	}
	for _, raw := range objs {
		m := vschema.NewMsg(chunkMD)
		if err := protojson.Unmarshal(raw, m); err != nil {
			// not a reply: with HTTP the status of a failure after the first
			// reply has no documented representation, so what follows the
			// replies is only counted.
			t.Extra++
			continue
		}
		if t.Extra > 0 {
			t.Extra++
			continue
		}
		t.Responses = append(t.Responses, readChunk(m).sum(callID))
	}
	return t
}
