package proxy

import (
	"bytes"
	"compress/gzip"
	"context"
	"encoding/base64"
	"encoding/json"
	"fmt"
	"io"
	"net/http"
	"net/url"
	"strconv"
	"strings"
	"time"

	spb "google.golang.org/genproto/googleapis/rpc/status"
	"google.golang.org/grpc"
	gzipenc "google.golang.org/grpc/encoding/gzip"
	"google.golang.org/grpc/metadata"
	"google.golang.org/grpc/status"
	"google.golang.org/protobuf/encoding/protojson"
	"google.golang.org/protobuf/encoding/protowire"
	"google.golang.org/protobuf/proto"

	"verif/internal/vschema"
	"verif/internal/wire"
)

// ClientT is the client-side transcript of one call.
type ClientT struct {
	Responses []string `json:"responses"`
	Code      int32    `json:"code"`
	Msg       string   `json:"msg"`
	Details   []string `json:"details,omitempty"`
	// HTTP front only
	HTTPStatus int    `json:"http_status,omitempty"`
	BodyErr    string `json:"body_err,omitempty"`
	Extra      int    `json:"extra_objects,omitempty"` // JSON objects after the expected replies
	// WebSocket front only: close code (-1 none, 1005 close frame without
	// code) and reason, or how the connection ended without a close frame
	WSCode   int    `json:"ws_close_code,omitempty"`
	WSReason string `json:"ws_close_reason,omitempty"`
	WSEnd    string `json:"ws_end,omitempty"`
	// transport-level failure of the harness's own client (not a status)
	TransportErr string `json:"transport_err,omitempty"`
	TimedOut     bool   `json:"timed_out,omitempty"`
}

var methodOf = map[string]string{"unary": "Echo", "ss": "SS", "cs": "CS", "bidi": "Bidi"}
var pathOf = map[string]string{"unary": "/px/echo", "ss": "/px/ss", "cs": "/px/cs", "bidi": "/px/bidi"}

// requests materialises the request messages of a script for a call id.
func (s *Script) requests(callID string) []chunk {
	var out []chunk
	for i := 0; i < s.NMsg; i++ {
		c := chunk{ID: callID, Seq: int32(i), Text: fmt.Sprintf("m%d", i)}
		if i < len(s.ReqSize) && s.ReqSize[i] != "" && (i > 0 || s.MetaPlan) {
			if s.ReqSize[i] == "tiny" {
				out = append(out, chunk{Seq: int32(i + 1)}) // two bytes
			} else {
				out = append(out, chunk{}) // zero bytes
			}
			continue
		}
		if i < len(s.Texts) && s.Texts[i] != "" {
			c.Text = s.Texts[i]
		}
		if s.Unk != "" {
			c.Unknown = unknownFields(s.Unk, i)
		}
		if i == 0 && !s.MetaPlan {
			c.Script = s.planJSON()
		}
		if s.MsgSize > 0 {
			c.Data = sizedPayload(s.MsgSize, i)
		} else if s.BigReq == i {
			c.Data = bigPayload(100 + i)
		} else if i%2 == 1 {
			c.Data = []byte{0, byte(i), 0x80, 0xff}
		}
		if s.HTTPGet {
			// a GET binding can only carry the path variable and query
			// parameters: id and script.
			c = chunk{ID: callID, Script: s.planJSON()}
		}
		out = append(out, c)
	}
	return out
}

// sizedPayload is a payload that is different for every message and neither
// trivially compressible nor random: runs of a per-message byte interleaved
// with a pseudo-random sequence.
func sizedPayload(size, salt int) []byte {
	b := make([]byte, size)
	x := uint32(salt*2654435761 + 12345)
	for i := range b {
		if (i/64)%2 == 0 {
			b[i] = byte(salt)
		} else {
			x = x*1664525 + 1013904223
			b[i] = byte(x >> 24)
		}
	}
	return b
}

func detailStrings(st *spb.Status) []string {
	var out []string
	for _, d := range st.GetDetails() {
		out = append(out, fmt.Sprintf("%s:%x", d.GetTypeUrl(), d.GetValue()))
	}
	return out
}

func (t *ClientT) setErr(ctx context.Context, err error) {
	if err == nil || err == io.EOF {
		return
	}
	st, ok := status.FromError(err)
	if !ok {
		t.TransportErr = err.Error()
		return
	}
	t.Code, t.Msg = int32(st.Code()), st.Message()
	t.Details = detailStrings(st.Proto())
	if ctx.Err() != nil {
		t.TimedOut = true
	}
}

// runGRPC executes the script with a grpc-go client on cc (the back-end
// itself or the larking front).
func runGRPC(ctx context.Context, cc *grpc.ClientConn, s *Script, callID string) ClientT {
	var t ClientT
	pairs := []string{"x-vf-id", callID}
	for _, kv := range s.MD {
		pairs = append(pairs, kv.K, string(kv.V))
	}
	if s.MetaPlan {
		pairs = append(pairs, "x-vf-plan-bin", s.planJSON())
	}
	ctx = metadata.AppendToOutgoingContext(ctx, pairs...)
	full := "/vf.px.Std/" + methodOf[s.Shape]
	reqs := s.requests(callID)
	var copts []grpc.CallOption
	if s.Gzip {
		copts = append(copts, grpc.UseCompressor(gzipenc.Name))
	} else if s.Enc != "" {
		copts = append(copts, grpc.UseCompressor(s.Enc))
	}
	if s.Shape == "unary" {
		out := vschema.NewMsg(chunkMD)
		if err := cc.Invoke(ctx, full, reqs[0].msg(), out, copts...); err != nil {
			t.setErr(ctx, err)
			return t
		}
		t.Responses = append(t.Responses, readChunk(out).sum(callID))
		return t
	}
	desc := &grpc.StreamDesc{ClientStreams: s.Shape == "cs" || s.Shape == "bidi", ServerStreams: s.Shape == "ss" || s.Shape == "bidi"}
	st, err := cc.NewStream(ctx, desc, full, copts...)
	if err != nil {
		t.setErr(ctx, err)
		return t
	}
	recvOne := func() bool {
		out := vschema.NewMsg(chunkMD)
		if err := st.RecvMsg(out); err != nil {
			t.setErr(ctx, err)
			return false
		}
		t.Responses = append(t.Responses, readChunk(out).sum(callID))
		return true
	}
	plan := s.Client
	if !desc.ClientStreams {
		plan = []string{"s"} // grpc-go half-closes by itself
	}
	if s.Duplex {
		// full duplex: the sends run on their own goroutine while this one
		// receives (gRPC allows one sender and one receiver per stream)
		done := make(chan struct{})
		go func() {
			defer close(done)
			next := 0
			for _, op := range plan {
				switch op {
				case "s":
					if next < len(reqs) {
						if err := st.SendMsg(reqs[next].msg()); err != nil {
							return // the stream has ended: the status comes from RecvMsg
						}
					}
					next++
				case "c":
					st.CloseSend()
				default:
					think(ctx, op)
				}
			}
		}()
		for recvOne() {
		}
		<-done
		return t
	}
	next := 0
	sendDead := false
	for _, op := range plan {
		switch op {
		case "s":
			if sendDead || next >= len(reqs) {
				next++
				continue
			}
			if err := st.SendMsg(reqs[next].msg()); err != nil {
				// io.EOF: the stream has ended, the status comes from RecvMsg
				sendDead = true
				if err != io.EOF {
					t.setErr(ctx, err)
					return t
				}
			}
			next++
		case "r":
			if !recvOne() {
				return t
			}
		case "c":
			st.CloseSend()
		default:
			think(ctx, op)
		}
	}
	for recvOne() {
	}
	return t
}

// jsonOf is the JSON encoding of a request message on the JSON fronts. With
// JSONEsc every backslash escape of the encoding (\\) is written \u005c.
func (s *Script) jsonOf(c chunk) ([]byte, error) {
	b, err := jsonM.Marshal(c.msg())
	if err == nil && s.JSONEsc {
		b = bytes.ReplaceAll(b, []byte(`\\`), []byte(`\u005c`))
	}
	return b, err
}

// think executes a "w<ms>" step: client think time (workload, not a verdict).
func think(ctx context.Context, op string) {
	var ms int
	if _, err := fmt.Sscanf(op, "w%d", &ms); err != nil || ms <= 0 {
		return
	}
	select {
	case <-time.After(time.Duration(ms) * time.Millisecond):
	case <-ctx.Done():
	}
}

func hasThink(plan []string) bool {
	for _, op := range plan {
		if strings.HasPrefix(op, "w") {
			return true
		}
	}
	return false
}

// streamed reports whether the request body has to be produced while the
// call is running (think time, or sends concurrent with the replies).
func streamed(s *Script) bool { return s.Duplex || hasThink(s.Client) }

// requestBody builds the body of an HTTP / gRPC-web request from the encoded
// messages: in memory, or - for streamed scripts - a pipe fed by a goroutine
// that executes the client plan (h2c sends each write as it comes). gz
// compresses the stream as a whole (flushed after every message).
func requestBody(ctx context.Context, s *Script, reqs []chunk, enc func(int, chunk) ([]byte, error), gz bool) (io.Reader, error) {
	if !streamed(s) {
		var body bytes.Buffer
		var w io.Writer = &body
		var zw *gzip.Writer
		if gz {
			zw = gzip.NewWriter(&body)
			w = zw
		}
		for i, c := range reqs {
			b, err := enc(i, c)
			if err != nil {
				return nil, err
			}
			w.Write(b)
		}
		if zw != nil {
			zw.Close()
		}
		return bytes.NewReader(body.Bytes()), nil
	}
	pr, pw := io.Pipe()
	go func() {
		var w io.Writer = pw
		var zw *gzip.Writer
		if gz {
			zw = gzip.NewWriter(pw)
			w = zw
		}
		finish := func() {
			if zw != nil {
				zw.Close()
			}
			pw.Close()
		}
		next := 0
		for _, op := range s.Client {
			switch op {
			case "s":
				if next < len(reqs) {
					b, err := enc(next, reqs[next])
					if err != nil {
						pw.CloseWithError(err)
						return
					}
					if _, err := w.Write(b); err != nil {
						return // the transport stopped reading: the call is over
					}
					if zw != nil {
						if err := zw.Flush(); err != nil {
							return
						}
					}
				}
				next++
			case "c":
				finish()
				return
			default:
				think(ctx, op)
			}
		}
		finish()
	}()
	return pr, nil
}

// runWeb executes the script as a gRPC-web client (binary framing over h2c;
// per-message gzip when the script says so). The final status comes from the
// trailer frame, or from the headers of a trailers-only response.
func runWeb(ctx context.Context, hc *http.Client, base string, s *Script, callID string) ClientT {
	var t ClientT
	reqs := s.requests(callID)
	enc := func(i int, c chunk) ([]byte, error) {
		b, err := proto.Marshal(c.msg())
		if err != nil {
			return nil, err
		}
		// On a gzip stream the flag is per message: empty messages go
		// uncompressed (as grpc-go sends them), and with MixFlags so does
		// every second other message.
		if s.Gzip && len(b) > 0 && !(s.MixFlags && i%2 == 1) {
			return wire.Frame(wire.Gzip(b), true), nil
		}
		return wire.Frame(b, false), nil
	}
	rd, err := requestBody(ctx, s, reqs, enc, false)
	if err != nil {
		t.TransportErr = "marshal: " + err.Error()
		return t
	}
	req, err := http.NewRequestWithContext(ctx, "POST", base+"/vf.px.Std/"+methodOf[s.Shape], rd)
	if err != nil {
		t.TransportErr = err.Error()
		return t
	}
	req.Header.Set("Content-Type", "application/grpc-web+proto")
	switch s.Deadline { // what a grpc-go client with the same deadline announces
	case "":
		req.Header.Set("Grpc-Timeout", fmt.Sprintf("%dS", int(timeoutOf(s)/time.Second)))
	case "long":
		req.Header.Set("Grpc-Timeout", "5M")
	case "short": // back-end availability lane
		req.Header.Set("Grpc-Timeout", fmt.Sprintf("%dS", int(availShort/time.Second)))
	}
	req.Header.Set("X-Grpc-Web", "1")
	if s.Gzip {
		req.Header.Set("Grpc-Encoding", "gzip")
		req.Header.Set("Grpc-Accept-Encoding", "gzip")
	} else if s.Enc != "" {
		req.Header.Set("Grpc-Encoding", s.Enc)
	}
	req.Header.Set("X-Vf-Id", callID)
	if s.MetaPlan {
		req.Header.Set("X-Vf-Plan-Bin", encodeBin([]byte(s.planJSON())))
	}
	addMD(req.Header, s.MD, s.BinPad)
	resp, err := hc.Do(req)
	if err != nil {
		t.TransportErr = err.Error()
		t.TimedOut = ctx.Err() != nil
		return t
	}
	defer resp.Body.Close()
	body, err := io.ReadAll(resp.Body)
	if err != nil {
		t.TransportErr = "body: " + err.Error()
		t.TimedOut = ctx.Err() != nil
		return t
	}
	t.HTTPStatus = resp.StatusCode
	wr := wire.DecodeWeb(body, false)
	for i, raw := range wr.Msgs {
		if wr.Flags[i]&1 != 0 {
			if raw, err = wire.Gunzip(raw); err != nil {
				t.BodyErr = fmt.Sprintf("reply %d: compressed flag set but not gzip: %v", i, err)
				return t
			}
		}
		m := vschema.NewMsg(chunkMD)
		if err := proto.Unmarshal(raw, m); err != nil {
			t.BodyErr = fmt.Sprintf("reply %d does not decode: %v", i, err)
			return t
		}
		t.Responses = append(t.Responses, readChunk(m).sum(callID))
	}
	if len(wr.Rest) > 0 {
		t.BodyErr = fmt.Sprintf("%d trailing bytes that are not a frame", len(wr.Rest))
		return t
	}
	get := func(k string) (string, bool) {
		if wr.HasTrail {
			for tk, v := range wr.Trailer {
				if strings.EqualFold(tk, k) && len(v) > 0 {
					return v[0], true
				}
			}
			return "", false
		}
		if v := resp.Header.Values(k); len(v) > 0 {
			return v[0], true
		}
		return "", false
	}
	gs, ok := get("grpc-status")
	if !ok {
		t.BodyErr = fmt.Sprintf("no grpc-status in the trailer frame or the headers (HTTP %d, %d frames, %.80q)", resp.StatusCode, len(wr.Msgs), body)
		return t
	}
	code, err := strconv.Atoi(gs)
	if err != nil {
		t.BodyErr = "grpc-status " + gs
		return t
	}
	t.Code = int32(code)
	if gm, ok := get("grpc-message"); ok {
		t.Msg = wire.DecodeGrpcMessage(gm)
	}
	if d, ok := get("grpc-status-details-bin"); ok {
		raw, err := wire.DecodeBin(d)
		st := &spb.Status{}
		if err == nil {
			err = proto.Unmarshal(raw, st)
		}
		if err != nil {
			t.BodyErr = "grpc-status-details-bin does not decode: " + err.Error()
			return t
		}
		t.Details = detailStrings(st)
	}
	return t
}

// addMD puts the custom metadata on an HTTP request / WebSocket handshake.
// "-bin" values travel base64-encoded; a key spelled with upper case letters
// is sent in that spelling (no canonicalisation by net/http).
func addMD(h http.Header, md []KV, pad bool) {
	for _, kv := range md {
		v := string(kv.V)
		if strings.HasSuffix(strings.ToLower(kv.K), "-bin") {
			v = encodeBin(kv.V)
			if pad {
				// the other legal spelling: padded standard base64
				v = base64.StdEncoding.EncodeToString(kv.V)
			}
		}
		if kv.K != strings.ToLower(kv.K) {
			h[kv.K] = append(h[kv.K], v)
			continue
		}
		h.Add(kv.K, v)
	}
}

func encodeBin(b []byte) string { return base64.RawStdEncoding.EncodeToString(b) }

var jsonM = protojson.MarshalOptions{}

// runHTTP executes the script with an HTTP client through the service's
// google.api.http bindings (whole request body first).
func runHTTP(ctx context.Context, hc *http.Client, base string, s *Script, callID string) ClientT {
	var t ClientT
	reqs := s.requests(callID)
	var req *http.Request
	var err error
	if s.HTTPGet {
		u := base + pathOf[s.Shape] + "/" + callID + "?script=" + url.QueryEscape(reqs[0].Script)
		req, err = http.NewRequestWithContext(ctx, "GET", u, nil)
	} else {
		enc := func(_ int, c chunk) ([]byte, error) { return s.jsonOf(c) }
		if s.ProtoBody {
			// application/protobuf: the message itself, or - for a streamed
			// request - varint-delimited messages
			enc = func(_ int, c chunk) ([]byte, error) {
				b, err := proto.Marshal(c.msg())
				if err != nil || s.Shape == "unary" {
					return b, err
				}
				return append(protowire.AppendVarint(nil, uint64(len(b))), b...), nil
			}
		}
		rd, berr := requestBody(ctx, s, reqs, enc, s.Gzip)
		if berr != nil {
			t.TransportErr = "marshal: " + berr.Error()
			return t
		}
		req, err = http.NewRequestWithContext(ctx, "POST", base+pathOf[s.Shape], rd)
		if req != nil {
			req.Header.Set("Content-Type", "application/json")
			if s.ProtoBody {
				req.Header.Set("Content-Type", "application/protobuf")
			}
			if s.Gzip {
				// compression is per stream on the HTTP front
				req.Header.Set("Content-Encoding", "gzip")
			}
		}
	}
	if err != nil {
		t.TransportErr = err.Error()
		return t
	}
	req.Header.Set("Accept", "application/json")
	if s.ProtoBody {
		req.Header.Set("Accept", "application/protobuf")
	}
	setHop(req.Header, s.Hop)
	req.Header.Set("X-Vf-Id", callID)
	if s.MetaPlan {
		req.Header.Set("X-Vf-Plan-Bin", encodeBin([]byte(s.planJSON())))
	}
	addMD(req.Header, s.MD, s.BinPad)
	resp, err := hc.Do(req)
	if err != nil {
		t.TransportErr = err.Error()
		t.TimedOut = ctx.Err() != nil
		return t
	}
	defer resp.Body.Close()
	body, err := io.ReadAll(resp.Body)
	if err != nil {
		t.TransportErr = "body: " + err.Error()
		t.TimedOut = ctx.Err() != nil
	}
	t.HTTPStatus = resp.StatusCode
	if s.ProtoBody {
		// unary / client-streaming only: one reply, or one google.rpc.Status
		if resp.StatusCode != 200 {
			st := &spb.Status{}
			if err := proto.Unmarshal(body, st); err != nil {
				t.BodyErr = fmt.Sprintf("error body (%s) is not a protobuf google.rpc.Status: %v (%.80q)", resp.Header.Get("Content-Type"), err, body)
				return t
			}
			t.Code, t.Msg, t.Details = st.Code, st.Message, detailStrings(st)
			return t
		}
		m := vschema.NewMsg(chunkMD)
		if err := proto.Unmarshal(body, m); err != nil {
			t.BodyErr = fmt.Sprintf("reply (%s) does not decode: %v", resp.Header.Get("Content-Type"), err)
			return t
		}
		t.Responses = append(t.Responses, readChunk(m).sum(callID))
		return t
	}
	dec := json.NewDecoder(bytes.NewReader(body))
	var objs []json.RawMessage
	for {
		var raw json.RawMessage
		if err := dec.Decode(&raw); err != nil {
			if err != io.EOF {
				t.BodyErr = fmt.Sprintf("body is not a sequence of JSON values: %v (%.120q)", err, body)
			}
			break
		}
		objs = append(objs, raw)
	}
	if resp.StatusCode != 200 {
		// error before the first reply: status line + google.rpc.Status body
		st := &spb.Status{}
		if len(objs) != 1 {
			t.BodyErr = fmt.Sprintf("error body holds %d JSON values (%.120q)", len(objs), body)
			return t
		}
		if err := protojson.Unmarshal(objs[0], st); err != nil {
			t.BodyErr = fmt.Sprintf("error body is not a google.rpc.Status: %v (%.120q)", err, body)
			return t
		}
		t.Code, t.Msg, t.Details = st.Code, st.Message, detailStrings(st)
		return t
	}
	for _, raw := range objs {
		m := vschema.NewMsg(chunkMD)
		if err := protojson.Unmarshal(raw, m); err != nil {
			// Not a reply: the end of a stream that failed after the headers
			// were sent. The first such value has to be the google.rpc.Status
			// of the failure (what larking appends to the replies; HTTP
			// cannot change the status line any more).
			t.Extra++
			if t.Extra == 1 {
				st := &spb.Status{}
				if err := protojson.Unmarshal(raw, st); err != nil {
					t.BodyErr = fmt.Sprintf("value after the replies is neither a reply nor a google.rpc.Status: %v (%.160q)", err, raw)
					return t
				}
				t.Code, t.Msg, t.Details = st.Code, st.Message, detailStrings(st)
			}
			continue
		}
		if t.Extra > 0 {
			t.Extra++
			continue
		}
		t.Responses = append(t.Responses, readChunk(m).sum(callID))
	}
	return t
}
