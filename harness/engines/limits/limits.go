package limits

import (
	"bytes"
	"encoding/json"
	"fmt"
	"math"
	"math/rand"
	"strconv"
	"strings"
	"time"

	"google.golang.org/protobuf/proto"

	"verif/internal/backend"
	"verif/internal/mon"
)

type viol struct{ key, what string }

// verdict is the result of judging one execution.
type verdict struct {
	viols     []viol
	premiseB  bool   // every request and reply is within the limits (narrowest reading)
	anomaly   bool   // something was refused / failed
	anomalyIs string // description of the anomaly
	anomalyOb string // observable used in the finding key when the control run confirms ("" = refused-within-limit)
	entered   bool
	unmatched int
	overSent  bool
	outcome   string // shape of the outcome for distinct keys
	wedgeNoLk bool
}

func sizesOf(bs [][]byte) []int {
	out := make([]int, len(bs))
	for i, b := range bs {
		out[i] = len(b)
	}
	return out
}

func grpcFamily(c *Case) bool {
	return c.Proto == "grpc" || c.Proto == "grpc-web" || c.Proto == "grpc-web-text"
}

func serverStreaming(c *Case) bool {
	switch c.Shape {
	case "ss", "bidi", "download":
		return true
	}
	return false
}

// replyCodec is the codec in which replies of the case are encoded.
func replyCodec(c *Case) string {
	switch c.Shape {
	case "upload", "uploadu":
		return "json" // Accept: application/json
	case "download", "downloadu":
		return "httpbody"
	}
	return c.Codec
}

// repliesSent lists the replies the handler script sends.
func repliesSent(c *Case) [][]byte {
	if serverStreaming(c) {
		return c.Replies
	}
	if len(c.Replies) > 0 {
		return c.Replies[:1]
	}
	return [][]byte{{}}
}

// evaluate judges one execution against the statement of C08. It is a pure
// function of the case, the client's observation and the handler log.
func evaluate(c *Case, out *outcome, s liveSnap) verdict {
	var v verdict
	Lr, Ls := c.lrecv(), c.lsend()
	sizes := sizesOf(c.Reqs)
	isUp := c.Shape == "upload" || c.Shape == "uploadu"
	hostile := c.Kind == "prefix" && c.Declared > uint64(Lr)
	v.entered = s.Entered > 0

	overIdx := -1
	for i, n := range sizes {
		if n > Lr {
			overIdx = i
			break
		}
	}
	v.overSent = overIdx >= 0 || hostile

	if out.Wedged {
		if strings.Contains(out.Dump, "larking.io/larking.") {
			v.viols = append(v.viols, viol{c.key("wedge"), "request did not return within the watchdog; goroutine dump shows it inside larking"})
		} else {
			v.wedgeNoLk = true
		}
		v.outcome = "wedge"
		return v
	}

	// (a) delivered => size <= L_recv
	deliveredOver := false
	notSent := "" // the handler saw a message the client did not send
	switch {
	case isUp:
		for i, d := range s.Delivered {
			if n := len(uploadData(d)); n > Lr {
				deliveredOver = true
				v.viols = append(v.viols, viol{c.key("delivered-over-limit"),
					fmt.Sprintf("handler received HttpBody chunk %d with %d data bytes, receive limit %d (upload of %d bytes)", i, n, Lr, c.UploadLen)})
				break
			}
		}
		// a unary HttpBody request is one message: the handler must see the
		// body the client sent or nothing
		if c.Shape == "uploadu" && !deliveredOver && len(c.Reqs) > 0 {
			for _, d := range s.Delivered {
				if got := uploadData(d); !bytes.Equal(got, c.Reqs[0]) {
					notSent = fmt.Sprintf("handler received an HttpBody of %d bytes, the client sent %d bytes (receive limit %d)", len(got), len(c.Reqs[0]), Lr)
				}
			}
		}
	case len(c.Reqs) > 0 || hostile:
		msgs := make([]proto.Message, len(c.Reqs))
		if len(s.Delivered) > 0 {
			for i, enc := range c.Reqs {
				msgs[i], _ = decodeMsg(c, enc)
			}
		}
		for di, d := range s.Delivered {
			matched, within, msize := false, false, 0
			for i, m := range msgs {
				if m != nil && proto.Equal(d, m) {
					matched = true
					msize = sizes[i]
					if sizes[i] <= Lr {
						within = true
					}
				}
			}
			if !matched {
				v.unmatched++
				if notSent == "" {
					notSent = fmt.Sprintf("handler received message %d which is none of the %d messages the client sent%s", di, len(msgs), cutOf(c, d, overIdx, Lr))
				}
				continue
			}
			if !within {
				deliveredOver = true
				v.viols = append(v.viols, viol{c.key("delivered-over-limit"),
					fmt.Sprintf("handler received message %d whose %s encoding has %d bytes%s, receive limit %d; client status: %s %s",
						di, c.Codec, msize, afterInflation(c), Lr, out.Status, out.Detail)})
				break
			}
		}
		if hostile && len(s.Delivered) > len(c.Reqs) {
			deliveredOver = true
			v.viols = append(v.viols, viol{c.key("delivered-over-limit"),
				fmt.Sprintf("handler received %d messages although only %d valid ones were sent: a message was delivered out of a frame declaring %d bytes (limit %d) followed by %d bytes",
					len(s.Delivered), len(c.Reqs), c.Declared, Lr, len(c.Tail))})
		}
	}

	// a message cut down to the limit is not what the client sent: with an
	// over-limit message in the request this is the limit handling itself
	if notSent != "" && (overIdx >= 0 || hostile) && !deliveredOver {
		deliveredOver = true
		v.viols = append(v.viols, viol{c.key("delivered-truncated"),
			fmt.Sprintf("%s; request sizes %v%s, receive limit %d; client status: %s %s", notSent, sizes, afterInflation(c), Lr, out.Status, out.Detail)})
		notSent = ""
	}

	// (a) ... such a request fails with an error instead
	mustFail := hostile || (overIdx >= 0 && c.Shape != "upload")
	if out.Panic != nil {
		if mustFail {
			v.viols = append(v.viols, viol{out.Panic.Key(), fmt.Sprintf("%s: over-limit request (%s) panicked instead of failing with an error: %s", c.lane(), c.Class, out.Panic.Value)})
		}
		v.outcome = "panic"
	} else if mustFail && !deliveredOver && out.Status == "ok" {
		var what string
		if hostile {
			what = fmt.Sprintf("frame declaring %d bytes, receive limit %d", c.Declared, Lr)
		} else {
			what = fmt.Sprintf("request message %d has %d bytes, receive limit %d", overIdx, sizes[overIdx], Lr)
		}
		v.viols = append(v.viols, viol{c.key("over-limit-not-error"),
			what + ": it was not delivered, yet the request ended with status OK (" + out.Detail + ")"})
	}

	// (b) within both limits => no refusal
	v.premiseB = !hostile && overIdx < 0 && c.Kind != "prefix"
	if v.premiseB && grpcFamily(c) {
		// narrowest reading of "within the limit": also the compressed frame
		// (grpc-go itself bounds the frame length before inflating)
		for i, enc := range c.Reqs {
			if c.flagged(i) && len(c.compress(enc))+gzipMargin(c) > Lr {
				v.premiseB = false
			}
		}
		if c.Flags == "1-nohdr" || c.GzipMode == "isize" {
			// compressed-flag without a negotiated encoding: an error is
			// legitimate; only "no over-limit delivery" is obliged
			v.premiseB = false
		}
	}
	if c.GzipMode == "isize" {
		v.premiseB = false // not a valid gzip stream: an error is legitimate
	}
	if v.premiseB {
		rc := replyCodec(c)
		for _, rep := range repliesSent(c) {
			// the send limit bounds the encoded reply, whatever its size
			// after compression
			enc, ok := replyEnc(rc, rep)
			if !ok || len(enc) > Ls {
				v.premiseB = false
				break
			}
		}
	}
	want := len(c.Reqs)
	if want < 1 || !clientStreaming(c) {
		want = 1
	}
	switch {
	case out.Panic != nil:
		v.anomaly, v.anomalyIs = true, "panic: "+out.Panic.Value
	case notSent != "":
		// within-limit request: decided by the control run like a refusal
		v.anomaly, v.anomalyIs, v.anomalyOb = true, notSent, "delivered-truncated"
	case out.Status == "error":
		v.anomaly, v.anomalyIs = true, "client status: "+out.Detail
	case s.RecvErrAt >= 0:
		v.anomaly, v.anomalyIs = true, fmt.Sprintf("RecvMsg #%d failed: %s", s.RecvErrAt, s.RecvErrText)
	case s.SendErrAt >= 0:
		v.anomaly, v.anomalyIs = true, fmt.Sprintf("SendMsg #%d failed: %s", s.SendErrAt, s.SendErrText)
	case !isUp && s.EOFAt >= 0 && len(s.Delivered) < want:
		v.anomaly, v.anomalyIs = true, fmt.Sprintf("RecvMsg #%d returned io.EOF after %d of %d messages", s.EOFAt, len(s.Delivered), want)
	case out.Status == "ok" && v.entered:
		// a refused reply is not always visible in the status (a unary HTTP
		// reply refused by writeAll is answered 200 with an error body)
		if why := repliesDiffer(c, out); why != "" {
			v.anomaly, v.anomalyIs = true, "status OK but "+why
		}
	}
	if v.outcome == "" {
		v.outcome = out.Status
		switch {
		case s.RecvErrAt >= 0:
			v.outcome += "/recv-refused"
		case s.SendErrAt >= 0:
			v.outcome += "/send-refused"
		case v.entered:
			v.outcome += "/handled"
		}
	}
	return v
}

// cutOf describes a delivered message that equals the reference decoding of
// a prefix of the over-limit message.
func cutOf(c *Case, d proto.Message, overIdx, Lr int) string {
	if overIdx < 0 || c.Codec != "proto" {
		return ""
	}
	enc := c.Reqs[overIdx]
	for _, n := range []int{Lr, Lr - 1, Lr + 1} {
		if n >= 0 && n < len(enc) {
			if m, err := decodeMsg(c, enc[:n]); err == nil && proto.Equal(m, d) {
				return fmt.Sprintf(": it is the decoding of the first %d bytes of message %d (%d bytes)", n, overIdx, len(enc))
			}
		}
	}
	return ""
}

// gzipMargin: the grpc-go client compresses by itself; its frame may differ
// by a few bytes from the harness's own gzip of the same message.
func gzipMargin(c *Case) int {
	if c.Transport == "grpcgo" {
		return 16
	}
	return 0
}

func afterInflation(c *Case) string {
	if !c.Gzip && c.Flags != "1-nohdr" {
		return ""
	}
	n := 0
	if grpcFamily(c) && c.Probe < len(c.Reqs) {
		if !c.flagged(c.Probe) {
			return " sent uncompressed with flag 0 on a stream that negotiated gzip"
		}
		n = len(c.compress(c.Reqs[c.Probe]))
	} else {
		_, _, _, body := httpParts(c)
		n = len(body)
	}
	return fmt.Sprintf(" after decompression (%d bytes compressed)", n)
}

// repliesDiffer compares the replies the client received with the replies the
// handler script sent ("" = they agree).
func repliesDiffer(c *Case, out *outcome) string {
	rc := replyCodec(c)
	want := repliesSent(c)
	if c.Shape == "download" {
		if got, exp := bytes.Join(out.Replies, nil), bytes.Join(want, nil); !bytes.Equal(got, exp) {
			return fmt.Sprintf("the client received %d body bytes, the handler sent %d", len(got), len(exp))
		}
		return ""
	}
	if len(out.Replies) < len(want) {
		return fmt.Sprintf("the client received %d of %d replies", len(out.Replies), len(want))
	}
	for j, w := range want {
		got := out.Replies[j]
		if rc == "httpbody" {
			if !bytes.Equal(got, w) {
				return fmt.Sprintf("reply %d has %d bytes, the handler sent %d: %q", j, len(got), len(w), clip(string(got), 80))
			}
			continue
		}
		wm := newChunk()
		proto.Unmarshal(w, wm)
		gm, err := decodeReq(rc, got)
		if len(got) == 0 && rc == "json" {
			err = fmt.Errorf("empty JSON text")
		}
		if err != nil || !proto.Equal(gm, wm) {
			return fmt.Sprintf("reply %d is not the message the handler sent (%d bytes received, %q)", j, len(got), clip(string(got), 80))
		}
	}
	return ""
}

// keyClass coarsens the size class for finding keys: replies below, at and
// above the send limit.
func keyClass(class string) string {
	if base, ok := strings.CutSuffix(class, "/incompressible"); ok {
		return keyClass(base) + "/incompressible"
	}
	switch class {
	case "reply=Ls-40", "reply=Ls-27", "reply=Ls-1", "reply=Lr+1", "reply=10Lr":
		return "reply<Ls"
	case "reply=Ls+1", "reply=Ls+100", "reply=10Ls":
		return "reply>Ls"
	}
	if i := strings.LastIndex(class, "/total="); i >= 0 {
		return class[:i] // prefix-valid families: family/cut@X
	}
	return class
}

// ---------------------------------------------------------------- runner

type gen struct {
	r        *mon.Run
	hub      *hub
	ctl      *env
	be       *backend.Backend
	ctlProxy *env // unlimited control mux in front of the back-end
	// fixedReplies, when set, replaces the reply sizes derived from L_send
	// (configurations whose limits no message can reach)
	fixedReplies []rp
	n            int
	maxAlloc     uint64
}

func (g *gen) nextID() string {
	g.n++
	return fmt.Sprintf("c%06d", g.n)
}

func lsRel(c *Case) string {
	switch {
	case c.Lsend == 0:
		return "Ls=def"
	case c.Lsend == c.Lrecv:
		return "Ls=Lr"
	default:
		return fmt.Sprintf("Ls=%dLr", c.Lsend/max(1, c.Lrecv))
	}
}

// observe executes a case on an env and returns outcome + handler log.
func (g *gen) observe(e *env, c *Case) (*outcome, liveSnap) {
	lv := g.hub.add(c)
	out := e.exec(c)
	s := lv.snap()
	if (c.Transport != "inproc" || c.Proxied) && s.Entered > 0 && !s.Returned {
		// the handler of a socket server may still be finishing
		for i := 0; i < 2000 && !s.Returned; i++ {
			time.Sleep(time.Millisecond)
			s = lv.snap()
		}
	}
	g.hub.drop(c.ID)
	g.r.Eval(1)
	return out, s
}

func (g *gen) run(e *env, c *Case) {
	r := g.r
	out, s := g.observe(e, c)
	v := evaluate(c, out, s)
	r.Count("rpcs", 1)
	r.Count("handler_delivered_messages", len(s.Delivered))
	if v.unmatched > 0 {
		r.Count("delivered_messages_not_matching_a_sent_one", v.unmatched)
	}
	if out.Status == "unobservable" {
		r.Count("status_unobservable", 1)
	}
	if out.Alloc > g.maxAlloc {
		g.maxAlloc = out.Alloc
	}
	if v.wedgeNoLk {
		r.Inconclusive("watchdog fired on " + c.lane() + " " + c.Class + " without a larking frame in the dump")
		return
	}
	if p := e.newServerPanics(); p != "" {
		r.Violate("panic@server-log:"+mon.NormMsg(firstLine(p)), "http.Server logged a panic while serving "+c.lane()+" "+c.Class+": "+clip(p, 300), c)
	}
	if v.overSent {
		r.Count("over_limit_requests", 1)
		if len(v.viols) == 0 && (out.Status == "error" || s.RecvErrAt >= 0) {
			r.Count("over_limit_refused_with_error", 1)
		}
	}
	for _, x := range v.viols {
		r.Violate(x.key, x.what, c)
	}
	if v.premiseB {
		r.Count("within_limit_cases", 1)
		if v.anomaly {
			// refused on size grounds? the same case on a mux whose only
			// difference is unlimited message sizes decides
			cc := *c
			cc.ID = c.ID + "~ctl"
			ctl := g.ctl
			if c.Proxied {
				ctl = g.ctlProxy
			}
			cout, cs := g.observe(ctl, &cc)
			cv := evaluate(&cc, cout, cs)
			r.Count("control_runs", 1)
			if !cv.anomaly && cv.entered && cout.Status != "error" {
				ob := "refused-within-limit"
				if v.anomalyOb != "" {
					ob = v.anomalyOb
				}
				r.Violate(c.key(ob),
					fmt.Sprintf("request sizes %v (receive limit %d), reply sizes %v (send limit %d): %s; the identical request on a mux with unlimited sizes succeeds (%s)",
						sizesOf(c.Reqs), c.lrecv(), replySizes(c), c.lsend(), v.anomalyIs, cout.Detail), c)
			} else {
				r.Count("failed_on_unlimited_control_too", 1)
			}
		} else if v.entered {
			r.Count("within_limit_accepted", 1)
		}
	}
	if c.Kind == "reply" && !v.premiseB && len(c.Reqs) <= 1 {
		// over-limit reply: no obligation either way, record what happened
		if v.anomaly {
			r.Count("over_limit_replies_refused", 1)
		} else if out.Status == "ok" {
			r.Count("over_limit_replies_passed", 1)
		}
	}
	if v.entered || out.Status != "unobservable" {
		tr := c.Transport
		if c.EOFWithData {
			tr += "+eof-with-data"
		}
		r.Distinct(strings.Join([]string{c.lane(), c.Shape, tr, c.Kind, c.Class, lsRel(c), v.outcome}, "|"))
	}
	if r.SampleN() < 6 && g.n%997 == 1 {
		r.Sample(map[string]any{"lane": c.lane(), "shape": c.Shape, "l_recv": c.lrecv(), "l_send": c.lsend(), "class": c.Class,
			"request_sizes": sizesOf(c.Reqs), "reply_sizes": replySizes(c), "status": out.Status, "detail": out.Detail, "delivered": len(s.Delivered)})
	}
}

func firstLine(s string) string {
	if i := strings.IndexByte(s, '\n'); i >= 0 {
		return s[:i]
	}
	return s
}

func replySizes(c *Case) []int {
	var out []int
	rc := replyCodec(c)
	for _, rep := range repliesSent(c) {
		if enc, ok := replyEnc(rc, rep); ok {
			out = append(out, len(enc))
		} else {
			out = append(out, -1)
		}
	}
	return out
}

// ---------------------------------------------------------------- matrix

type laneSpec struct {
	proto, codec string
	gz           bool
	shape        string
	transport    string
	frag         int
	eofData      bool
}

func inprocLanes() []laneSpec {
	var ls []laneSpec
	for _, codec := range []string{"json", "proto"} {
		for _, gz := range []bool{false, true} {
			ls = append(ls, laneSpec{"http", codec, gz, "unary", "inproc", 0, false}, laneSpec{"http", codec, gz, "cs", "inproc", 0, false})
		}
		ls = append(ls, laneSpec{"http", codec, false, "ss", "inproc", 0, false}, laneSpec{"http", codec, false, "bidi", "inproc", 0, false})
	}
	for _, gz := range []bool{false, true} {
		ls = append(ls, laneSpec{"http", "httpbody", gz, "uploadu", "inproc", 0, false}, laneSpec{"http", "httpbody", gz, "upload", "inproc", 0, false})
	}
	ls = append(ls, laneSpec{"http", "httpbody", false, "downloadu", "inproc", 0, false}, laneSpec{"http", "httpbody", false, "download", "inproc", 0, false})
	// bodies whose last bytes arrive together with io.EOF
	for _, codec := range []string{"json", "proto"} {
		ls = append(ls, laneSpec{"http", codec, false, "unary", "inproc", 0, true}, laneSpec{"http", codec, false, "cs", "inproc", 0, true})
	}
	ls = append(ls, laneSpec{"http", "httpbody", false, "uploadu", "inproc", 0, true}, laneSpec{"http", "httpbody", false, "upload", "inproc", 0, true})
	for _, p := range []string{"grpc", "grpc-web"} {
		for _, codec := range []string{"proto", "json"} {
			for _, gz := range []bool{false, true} {
				for _, sh := range []string{"unary", "cs", "ss", "bidi"} {
					ls = append(ls, laneSpec{p, codec, gz, sh, "inproc", 0, false})
				}
			}
		}
	}
	for _, gz := range []bool{false, true} {
		for _, sh := range []string{"unary", "cs", "ss"} {
			ls = append(ls, laneSpec{"grpc-web-text", "proto", gz, sh, "inproc", 0, false})
		}
	}
	ls = append(ls, laneSpec{"grpc-web-text", "json", false, "unary", "inproc", 0, false})
	return ls
}

func wsLanes() []laneSpec {
	return []laneSpec{{"ws", "json", false, "bidi", "sock", 1, false}, {"ws", "json", false, "bidi", "sock", 3, false}}
}

func socketLanes() []laneSpec {
	var ls []laneSpec
	for _, gz := range []bool{false, true} {
		for _, sh := range []string{"unary", "cs", "ss", "bidi"} {
			ls = append(ls, laneSpec{"grpc", "proto", gz, sh, "grpcgo", 0, false})
		}
	}
	for _, codec := range []string{"json", "proto"} {
		ls = append(ls, laneSpec{"http", codec, false, "unary", "h1", 0, false}, laneSpec{"http", codec, true, "unary", "h1", 0, false}, laneSpec{"http", codec, false, "cs", "h1", 0, false},
			laneSpec{"http", codec, false, "cs", "h2c", 0, false}, laneSpec{"http", codec, false, "bidi", "h2c", 0, false}, laneSpec{"http", codec, false, "ss", "h2c", 0, false})
	}
	ls = append(ls, laneSpec{"http", "httpbody", false, "uploadu", "h1", 0, false}, laneSpec{"http", "httpbody", false, "upload", "h1", 0, false},
		laneSpec{"http", "httpbody", false, "upload", "h2c", 0, false}, laneSpec{"http", "httpbody", false, "downloadu", "h1", 0, false})
	return ls
}

func (g *gen) newCase(e *env, l laneSpec, kind, class string) *Case {
	return &Case{ID: g.nextID(), Lrecv: e.lrecv, Lsend: e.lsend, Proto: l.proto, Codec: l.codec, Gzip: l.gz, Shape: l.shape,
		Transport: l.transport, Kind: kind, Class: class, Frag: l.frag, EOFWithData: l.eofData, NRead: 1, Proxied: e.proxied}
}

func hasReqProbe(shape string) bool {
	switch shape {
	case "unary", "cs", "bidi", "uploadu", "upload":
		return true
	}
	return false
}

func hasReplyProbe(shape string) bool {
	switch shape {
	case "unary", "cs", "ss", "bidi", "download", "downloadu":
		return true
	}
	return false
}

// minimalReq is the smallest valid request of the lane.
func minimalReq(l laneSpec, L int) []byte {
	if l.codec == "json" && (L >= 2 || !(l.proto == "http" && !l.gz && (l.shape == "unary" || l.shape == "ss"))) {
		return []byte("{}")
	}
	return []byte{} // empty protobuf message / HTTP request without body
}

// filler returns an in-limit message different from the probe, or nil.
func filler(l laneSpec, L int, i int, probe []byte, p padder) []byte {
	id := fmt.Sprintf("f%d", i)
	var cand [][]byte
	switch l.codec {
	case "json":
		cand = [][]byte{[]byte(`{"id":"` + id + `","text":"` + p.pad(3) + `"}`), []byte(`{"id":"` + id + `"}`), []byte(`{}`)}
	case "proto":
		b, _ := protoMsg(2+len(id)+5, id, p)
		cand = [][]byte{b, {0x0a, 0x01, byte('a' + i)}, {0x10, byte(i + 2)}}
	}
	pm, err := decodeReq(l.codec, probe)
	for _, f := range cand {
		if f == nil || len(f) > L {
			continue
		}
		if l.gz && (l.proto != "http") && len(gzipBytes(f)) > L {
			continue
		}
		fm, ferr := decodeReq(l.codec, f)
		if ferr != nil || (err == nil && proto.Equal(fm, pm)) {
			continue
		}
		return f
	}
	return nil
}

func bodyLen(c *Case) int {
	n := 0
	for _, m := range c.Reqs {
		n += len(m)
	}
	return n
}

// runModes runs a request-probe case and, on the in-process gRPC-family
// lanes, the same messages again with every per-message flag mode that is
// independent of the stream-level encoding header.
func (g *gen) runModes(e *env, l laneSpec, c *Case) {
	g.run(e, c)
	if c.Proto == "http" && !c.EOFWithData && (c.Shape == "unary" || c.Shape == "uploadu" || c.Shape == "cs") && bodyLen(c) > 0 {
		// the same body without a declared length
		cc := *c
		cc.ID, cc.UnknownLen = g.nextID(), true
		g.run(e, &cc)
	}
	if c.Transport != "inproc" {
		return
	}
	if c.Proto == "http" && c.Codec == "proto" && (c.Shape == "cs" || c.Shape == "bidi") && !c.EOFWithData {
		// the same stream with padded (non-minimal, legal) length prefixes
		widths := []int{-1, 5, 10}
		if c.Proxied || strings.Contains(c.Class, "huge-limit") {
			widths = []int{5}
		}
		for _, w := range widths {
			cc := *c
			cc.ID, cc.PrefixWidth = g.nextID(), w
			g.run(e, &cc)
		}
	}
	if c.Proto == "http" && c.Shape == "unary" && c.Codec != "httpbody" && c.Msg == "" && !c.Gzip && !c.EOFWithData {
		// the same body on the route that also binds a field from the URL
		cc := *c
		cc.ID, cc.URLTag = g.nextID(), "u7"
		g.run(e, &cc)
	}
	if c.Gzip {
		// the same compressed payloads built as multi-member gzip, and
		// (over-limit only) with a forged ISIZE trailer
		gm := []string{"multi"}
		for _, m := range c.Reqs {
			if len(m) > c.lrecv() {
				gm = []string{"multi", "isize"}
				break
			}
		}
		for _, m := range gm {
			cc := *c
			cc.ID, cc.GzipMode = g.nextID(), m
			g.run(e, &cc)
		}
	}
	if !grpcFamily(c) {
		return
	}
	var modes []string
	switch {
	case l.gz && len(c.Reqs) >= 2:
		modes = []string{"0", "alt01", "alt10"}
	case l.gz:
		modes = []string{"0"}
	case len(c.Reqs) == 1:
		modes = []string{"1-nohdr"}
	}
	for _, m := range modes {
		cc := *c
		cc.ID, cc.Flags = g.nextID(), m
		g.run(e, &cc)
	}
}

func (g *gen) reqProbes(e *env, l laneSpec, rng *rand.Rand, sizes map[string]int, order []string) {
	L := e.lrecvEff()
	p := padder{rng, l.gz}
	for _, class := range order {
		n := sizes[class]
		if n < 0 {
			continue
		}
		if class == "L+2" && !(l.proto == "http" && (l.shape == "unary" || l.shape == "uploadu")) {
			continue
		}
		nonFirstOnly := class == "3L/4"
		if nonFirstOnly && !(l.proto == "http" && (l.shape == "cs" || l.shape == "bidi") && l.codec != "httpbody") {
			continue
		}
		id := ""
		mk := func() *Case { c := g.newCase(e, l, "req", class); id = c.ID; return c }
		c := mk()
		enc, ok := reqMsg(l.codec, n, id+".0", p)
		if n == 0 && l.codec == "json" {
			// an empty JSON text is only valid as "no body" of a unary HTTP request
			enc, ok = []byte{}, l.proto == "http" && !l.gz && !clientStreaming(c)
		}
		if !ok {
			g.r.Count("size_not_realisable_in_codec", 1)
			continue
		}
		if l.codec == "httpbody" {
			c.Reqs, c.UploadLen = [][]byte{enc}, len(enc)
			g.runModes(e, l, c)
			continue
		}
		c.Reqs, c.Probe, c.NRead = [][]byte{enc}, 0, 1
		if !nonFirstOnly {
			g.runModes(e, l, c)
		}
		if !clientStreaming(c) {
			continue
		}
		// probe after two in-limit messages, and (in-limit probe) followed by one
		f0, f1 := filler(l, L, 0, enc, p), filler(l, L, 1, enc, p)
		if f0 != nil && f1 != nil {
			c2 := mk()
			c2.Reqs, c2.Probe, c2.NRead = [][]byte{f0, f1, enc}, 2, 3
			g.runModes(e, l, c2)
			if n <= L {
				c3 := mk()
				c3.Reqs, c3.Probe, c3.NRead = [][]byte{enc, f0}, 0, 2
				g.runModes(e, l, c3)
			}
		}
	}
}

func (e *env) lrecvEff() int {
	if e.lrecv > 0 {
		return e.lrecv
	}
	return defaultRecv
}

// rp is a reply probe: size class and encoded size.
type rp struct {
	class string
	n     int
}

func (g *gen) replyProbes(e *env, l laneSpec, rng *rand.Rand) {
	p := padder{rng, l.gz}
	var probes []rp
	if g.fixedReplies != nil {
		probes = g.fixedReplies
	} else if e.lsend > 0 {
		Ls := e.lsend
		probes = []rp{{"reply=Ls-40", Ls - 40}, {"reply=Ls-27", Ls - 27}, {"reply=Ls-1", Ls - 1}, {"reply=Ls", Ls},
			{"reply=Ls+1", Ls + 1}, {"reply=Ls+100", Ls + 100}, {"reply=10Ls", 10 * Ls}}
	} else {
		Lr := e.lrecvEff()
		probes = []rp{{"reply=Lr+1", Lr + 1}, {"reply=10Lr", 10 * Lr}}
	}
	rc := replyCodec(&Case{Shape: l.shape, Codec: l.codec})
	grpcLane := grpcFamily(&Case{Proto: l.proto})
	// HTTP replies may be compressed when the client accepts it
	acceptGzip := l.proto == "http" && !l.gz && !l.eofData && l.transport == "inproc" && (l.shape == "unary" || l.shape == "downloadu")
	// payload compressibility is a dimension wherever replies can be compressed
	kinds := []string{""}
	if (grpcLane && l.gz) || acceptGzip {
		kinds = []string{"", "/incompressible"}
	}
	for _, pr := range probes {
		if pr.n < 0 {
			continue
		}
		for _, kind := range kinds {
			var rep []byte
			var ok bool
			if kind == "" {
				pp := p
				if acceptGzip {
					pp.compressible = true
				}
				rep, ok = replyFor(rc, pr.n, pp)
			} else {
				rep, ok = replyForRandom(rc, pr.n, rng)
			}
			if !ok {
				g.r.Count("size_not_realisable_in_codec", 1)
				continue
			}
			variants := [][][]byte{{rep}}
			if (l.shape == "ss" || l.shape == "bidi") && kind == "" {
				if small, ok := replyFor(rc, 2, p); ok {
					variants = append(variants, [][]byte{small, rep})
				}
			}
			for _, reps := range variants {
				c := g.newCase(e, l, "reply", pr.class+kind)
				if l.shape != "download" && l.shape != "downloadu" {
					c.Reqs = [][]byte{minimalReq(l, e.lrecvEff())}
					if len(c.Reqs[0]) > e.lrecvEff() {
						g.r.Count("reply_probe_skipped_no_request_fits_limit", 1)
						continue
					}
					if grpcLane && l.gz && len(gzipBytes(c.Reqs[0])) > e.lrecvEff() {
						// the request would not fit once compressed: send it
						// uncompressed (flag 0), the reply is still compressed
						c.Flags = "0"
					}
				}
				c.Replies, c.Probe, c.NRead = reps, len(reps)-1, 1
				if kind == "" {
					g.run(e, c)
				}
				if acceptGzip {
					cc := *c
					cc.ID, cc.AcceptGzip = g.nextID(), true
					g.run(e, &cc)
				} else if kind != "" {
					g.run(e, c)
				}
			}
		}
	}
}

func (g *gen) prefixProbes(e *env, l laneSpec, rng *rand.Rand) {
	L := e.lrecvEff()
	p := padder{rng, false}
	var vals []uint64
	flags := []byte{0}
	switch {
	case l.proto == "http" && l.codec == "proto" && (l.shape == "cs" || l.shape == "bidi") && !l.gz:
		vals = []uint64{uint64(L) + 1, pow2(31) - 1, pow2(31), pow2(32) - 1, pow2(32), pow2(32) + 3, pow2(63) - 1, pow2(63), pow2(63) + 3, math.MaxUint64}
	case grpcFamily(&Case{Proto: l.proto}) && l.codec == "proto" && l.shape != "ss":
		vals = []uint64{uint64(L) + 1, pow2(31) - 1, pow2(31), pow2(31) + 3, pow2(32) - 1}
		flags = []byte{0, 1} // per-frame flag, whatever the stream negotiated
	default:
		return
	}
	for _, v := range vals {
		for _, fl := range flags {
			for _, nfill := range []int{0, 1} {
				c := g.newCase(e, l, "prefix", prefixClass(v, L))
				c.Declared, c.PrefixFlag = v, fl
				c.Tail = []byte{0x0a, 0x01, 'x'} // 3 bytes that would parse as a message if they were delivered
				if nfill == 1 {
					if !clientStreaming(c) {
						continue
					}
					f := filler(l, L, 0, nil, p)
					if f == nil {
						continue
					}
					c.Reqs = [][]byte{f}
				}
				c.NRead = len(c.Reqs) + 1
				g.run(e, c)
				if nfill == 1 && l.gz && grpcFamily(c) {
					// the in-limit message before the hostile frame sent uncompressed
					cc := *c
					cc.ID, cc.Flags = g.nextID(), "0"
					g.run(e, &cc)
				}
			}
		}
	}
}

// truncLanes are the lanes of the prefix-valid payload families (protobuf
// only: a cut JSON object never parses).
func truncLanes() []laneSpec {
	var ls []laneSpec
	for _, gz := range []bool{true, false} {
		for _, sh := range []string{"unary", "cs"} {
			ls = append(ls, laneSpec{"http", "proto", gz, sh, "inproc", 0, false})
			for _, p := range []string{"grpc", "grpc-web", "grpc-web-text"} {
				ls = append(ls, laneSpec{p, "proto", gz, sh, "inproc", 0, false})
			}
		}
	}
	return ls
}

// truncProbes sends over-limit vf.Req messages whose prefixes at and around
// the limit are valid encodings of other messages (see prefixValid).
func (g *gen) truncProbes(e *env, l laneSpec, rng *rand.Rand, with10L bool) {
	L := e.lrecvEff()
	p := padder{rng, l.gz}
	type al struct {
		name string
		cut  int
	}
	aligns := []al{{"L", L}}
	if l.gz {
		aligns = append(aligns, al{"L-1", L - 1}, al{"L+1", L + 1})
	}
	for _, fam := range []string{"trail", "rep-int32", "rep-string"} {
		for _, a := range aligns {
			totals := []int{a.cut + 1, 10 * L}
			if fam == "trail" || !with10L {
				totals = totals[:1]
			}
			for ti, total := range totals {
				enc, ok := prefixValid(fam, a.cut, total, p)
				if !ok {
					g.r.Count("size_not_realisable_in_codec", 1)
					continue
				}
				tn := "just-over"
				if ti == 1 {
					tn = "10L"
				}
				c := g.newCase(e, l, "req", fmt.Sprintf("%s/cut@%s/total=%s", fam, a.name, tn))
				c.Msg = "req"
				c.Reqs, c.Probe, c.NRead = [][]byte{enc}, 0, 1
				if l.shape == "cs" {
					// after one small in-limit message when one fits
					f := []byte{0x0a, 0x02, 'f', '0'}
					if len(f) <= L && !(l.gz && l.proto != "http" && len(gzipBytes(f)) > L) {
						c.Reqs, c.Probe, c.NRead = [][]byte{f, enc}, 1, 2
					}
				}
				if a.name == "L" {
					g.runModes(e, l, c)
				} else {
					g.run(e, c)
				}
			}
		}
	}
}

func (g *gen) matrix(e *env, seed int, lanes []laneSpec, withPrefix bool) {
	L := e.lrecvEff()
	sizes := map[string]int{"L-1": L - 1, "L": L, "L+1": L + 1, "10L": 10 * L, "3L/4": 3 * L / 4, "L+2": L + 2}
	// 3L/4: non-first positions of HTTP streams only; L+2: unary HTTP only
	order := []string{"L-1", "L", "L+1", "L+2", "10L", "3L/4"}
	for _, l := range lanes {
		rng := g.r.Rand(fmt.Sprintf("payload/%d/%d/%d/%s/%s/%v/%s/%s/%d/%v", seed, e.lrecv, e.lsend, l.proto, l.codec, l.gz, l.shape, l.transport, l.frag, l.eofData))
		if hasReqProbe(l.shape) {
			g.reqProbes(e, l, rng, sizes, order)
		}
		if hasReplyProbe(l.shape) && !l.eofData {
			g.replyProbes(e, l, rng)
		}
		if withPrefix && seed == 0 && l.transport == "inproc" {
			g.prefixProbes(e, l, rng)
		}
	}
}

// proxLanes are the lanes run against a mux that reaches the service through
// RegisterConn (front in-process, real grpc-go back-end behind it).
func proxLanes() []laneSpec {
	ls := []laneSpec{
		{"http", "httpbody", false, "uploadu", "inproc", 0, false}, {"http", "httpbody", false, "upload", "inproc", 0, false},
		{"http", "httpbody", false, "downloadu", "inproc", 0, false}, {"http", "httpbody", false, "download", "inproc", 0, false},
		{"grpc", "proto", false, "unary", "inproc", 0, false}, {"grpc", "proto", true, "unary", "inproc", 0, false},
		{"grpc", "proto", false, "cs", "inproc", 0, false}, {"grpc", "proto", false, "ss", "inproc", 0, false},
	}
	for _, codec := range []string{"json", "proto"} {
		for _, sh := range []string{"unary", "cs", "ss", "bidi"} {
			ls = append(ls, laneSpec{"http", codec, false, sh, "inproc", 0, false})
		}
	}
	return ls
}

// proxyMatrix runs the size probes through the RegisterConn forwarder; the
// sizes reach further below the limit because the forwarder re-encodes every
// message (HttpBody bodies and URL-bound fields make the protobuf form larger
// than what the client sent).
func (g *gen) proxyMatrix(e *env, seed int) {
	L := e.lrecvEff()
	sizes := map[string]int{"L-30": L - 30, "L-15": L - 15, "L-1": L - 1, "L": L, "L+1": L + 1, "10L": 10 * L}
	order := []string{"L-30", "L-15", "L-1", "L", "L+1", "10L"}
	for _, l := range proxLanes() {
		rng := g.r.Rand(fmt.Sprintf("proxied/%d/%d/%d/%s/%s/%v/%s", seed, e.lrecv, e.lsend, l.proto, l.codec, l.gz, l.shape))
		if hasReqProbe(l.shape) {
			g.reqProbes(e, l, rng, sizes, order)
		}
		if hasReplyProbe(l.shape) {
			g.replyProbes(e, l, rng)
		}
	}
}

// hugeLanes is the reduced lane set of the very-large-limit configurations.
func hugeLanes() []laneSpec {
	ls := []laneSpec{
		{"http", "json", false, "unary", "inproc", 0, false}, {"http", "json", true, "unary", "inproc", 0, false},
		{"http", "proto", false, "unary", "inproc", 0, false}, {"http", "json", false, "cs", "inproc", 0, false},
		{"http", "proto", false, "cs", "inproc", 0, false}, {"http", "proto", true, "cs", "inproc", 0, false},
		{"http", "json", false, "ss", "inproc", 0, false}, {"http", "proto", false, "bidi", "inproc", 0, false},
		{"http", "httpbody", false, "uploadu", "inproc", 0, false}, {"http", "httpbody", false, "upload", "inproc", 0, false},
		{"http", "httpbody", false, "downloadu", "inproc", 0, false}, {"http", "httpbody", false, "download", "inproc", 0, false},
		{"grpc", "json", false, "unary", "inproc", 0, false}, {"grpc-web-text", "proto", false, "unary", "inproc", 0, false},
		{"ws", "json", false, "bidi", "sock", 1, false},
	}
	for _, p := range []string{"grpc", "grpc-web"} {
		for _, gz := range []bool{false, true} {
			for _, sh := range []string{"unary", "cs", "ss", "bidi"} {
				if p == "grpc-web" && sh == "bidi" {
					continue
				}
				ls = append(ls, laneSpec{p, "proto", gz, sh, "inproc", 0, false})
			}
		}
	}
	return ls
}

// hugeConfigs configures limits that no message can reach (2 GiB and far
// beyond, on the receive side, the send side and both): small and medium
// messages must be accepted and delivered intact on every lane. Limits of
// 2^32 and more exist only where int has 64 bits.
func (g *gen) hugeConfigs() {
	if strconv.IntSize != 64 {
		g.r.Count("huge_limit_configs_skipped_int_is_32_bit", 1)
		return
	}
	one := int64(1)
	vals := []int64{one << 31, one<<32 - 1, one << 32, one<<32 + 100, 8 << 30, one << 40, math.MaxInt64}
	type cfg struct{ lr, ls int }
	var cfgs []cfg
	for _, v := range vals {
		cfgs = append(cfgs, cfg{int(v), 0}, cfg{0, int(v)})
	}
	cfgs = append(cfgs, cfg{int(one << 32), int(one << 32)}, cfg{math.MaxInt64, math.MaxInt64}, cfg{int(one<<32 + 100), int(one << 40)})
	type sz struct {
		class string
		n     int
	}
	szs := []sz{{"S=103/huge-limit", 103}, {"S=70000/huge-limit", 70000}}
	if g.r.Thorough() {
		szs = append(szs, sz{"S=5000/huge-limit", 5000})
	}
	sizes := map[string]int{}
	var order []string
	g.fixedReplies = nil
	for _, s := range szs {
		sizes[s.class] = s.n
		order = append(order, s.class)
		g.fixedReplies = append(g.fixedReplies, rp{"reply " + s.class, s.n})
	}
	defer func() { g.fixedReplies = nil }()
	for _, c := range cfgs {
		e, err := newEnv(g.hub, c.lr, c.ls)
		if err != nil {
			g.r.Inconclusive("mux construction failed: " + err.Error())
			return
		}
		for _, l := range hugeLanes() {
			rng := g.r.Rand(fmt.Sprintf("huge/%d/%d/%s/%s/%v/%s", c.lr, c.ls, l.proto, l.codec, l.gz, l.shape))
			if hasReqProbe(l.shape) {
				g.reqProbes(e, l, rng, sizes, order)
			}
			if hasReplyProbe(l.shape) {
				g.replyProbes(e, l, rng)
			}
		}
		e.close()
		if g.be != nil {
			pe, err := newProxyEnv(g.hub, g.be, c.lr, c.ls)
			if err != nil {
				g.r.Inconclusive("RegisterConn failed: " + err.Error())
				return
			}
			for _, l := range []laneSpec{{"http", "json", false, "unary", "inproc", 0, false}, {"http", "httpbody", false, "uploadu", "inproc", 0, false},
				{"http", "httpbody", false, "downloadu", "inproc", 0, false}, {"grpc", "proto", false, "unary", "inproc", 0, false}, {"grpc", "proto", true, "cs", "inproc", 0, false}} {
				rng := g.r.Rand(fmt.Sprintf("huge-proxied/%d/%d/%s/%s/%s", c.lr, c.ls, l.proto, l.codec, l.shape))
				if hasReqProbe(l.shape) {
					g.reqProbes(pe, l, rng, sizes, order)
				}
				if hasReplyProbe(l.shape) {
					g.replyProbes(pe, l, rng)
				}
			}
		}
	}
}

// defaultConfig exercises larking's default limits (4 MiB / MaxInt32) on a
// reduced lane set: boundary sizes around 4 MiB and the hostile prefixes.
func (g *gen) defaultConfig(withSockets bool) {
	e, err := newEnv(g.hub, 0, 0)
	if err != nil {
		g.r.Inconclusive("mux construction failed: " + err.Error())
		return
	}
	defer e.close()
	L := defaultRecv
	sizes := map[string]int{"L-1": L - 1, "L": L, "L+1": L + 1}
	order := []string{"L-1", "L", "L+1"}
	lanes := []laneSpec{
		{"http", "json", false, "unary", "inproc", 0, false}, {"http", "proto", false, "unary", "inproc", 0, false}, {"http", "proto", true, "unary", "inproc", 0, false},
		{"http", "proto", false, "cs", "inproc", 0, false}, {"http", "json", false, "cs", "inproc", 0, false}, {"http", "httpbody", false, "uploadu", "inproc", 0, false},
		{"grpc", "proto", false, "unary", "inproc", 0, false}, {"grpc", "proto", true, "unary", "inproc", 0, false}, {"grpc", "proto", true, "cs", "inproc", 0, false},
		{"grpc-web", "proto", false, "unary", "inproc", 0, false},
	}
	if withSockets {
		lanes = append(lanes, laneSpec{"ws", "json", false, "bidi", "sock", 1, false})
	}
	for _, l := range lanes {
		rng := g.r.Rand("payload/default/" + l.proto + l.codec + l.shape)
		g.reqProbes(e, l, rng, sizes, order)
		if l.transport == "inproc" {
			g.prefixProbes(e, l, rng)
		}
		if l.gz && l.codec == "proto" && l.shape == "unary" {
			g.truncProbes(e, l, rng, false)
		}
	}
}

// RunC08 is the C08 check.
func RunC08(r *mon.Run) {
	r.Rule = "full matrix of (L_recv in {1,5,64,100,4096} x L_send in {L_recv, 2*L_recv, default}, plus larking's default limits) x protocol lane (HTTP unary / streaming with JSON, protobuf, HttpBody, identity and Content-Encoding gzip; gRPC, gRPC-web, gRPC-web-text with proto / json codecs, identity and per-message gzip; WebSocket single-frame and fragmented; thorough adds grpc-go, HTTP/1 and h2c clients on real sockets) x method shape (unary, client-, server-, bidi-streaming, alone and after in-limit messages) x probe (request of L-1, L, L+1, 10L bytes; reply of Ls-1, Ls, Ls+1, 10Ls bytes; hostile length prefixes up to 2^64-1 / 2^32-1 followed by 3 bytes); payload bytes are seeded (compressible patterns on gzip lanes). A case is non-trivial when the request reached larking and an outcome was observed; distinct = (lane, shape, transport, probe kind, size class, L_send relation, outcome) tuples"
	r.Floor = 150
	g := &gen{r: r, hub: newHub()}
	ctl, err := newEnv(g.hub, 1<<30, 0)
	if err != nil {
		r.Inconclusive("control mux construction failed: " + err.Error())
		return
	}
	g.ctl = ctl
	defer ctl.close()
	if g.be, err = startBackend(g.hub); err != nil {
		r.Inconclusive("back-end start failed: " + err.Error())
		return
	}
	defer g.be.Close()
	if g.ctlProxy, err = newProxyEnv(g.hub, g.be, 1<<30, 0); err != nil {
		r.Inconclusive("RegisterConn on the control mux failed: " + err.Error())
		return
	}

	seeds := r.Pick(1, 5)
	for _, Lr := range []int{64, 100, 4096, 1, 5} { // 64 first: the recorded witness of a key is the first case seen
		for _, Ls := range []int{Lr, 2 * Lr, 0} {
			e, err := newEnv(g.hub, Lr, Ls)
			if err != nil {
				r.Inconclusive("mux construction failed: " + err.Error())
				return
			}
			for seed := 0; seed < seeds; seed++ {
				for _, l := range truncLanes() {
					g.truncProbes(e, l, g.r.Rand(fmt.Sprintf("trunc/%d/%d/%d/%s/%v/%s", seed, Lr, Ls, l.proto, l.gz, l.shape)), true)
				}
				g.matrix(e, seed, inprocLanes(), true)
				g.matrix(e, seed, wsLanes(), false)
				if r.Thorough() {
					g.matrix(e, seed, socketLanes(), false)
				}
			}
			e.close()
			pe, err := newProxyEnv(g.hub, g.be, Lr, Ls)
			if err != nil {
				r.Inconclusive("RegisterConn failed: " + err.Error())
				return
			}
			for seed := 0; seed < seeds; seed++ {
				g.proxyMatrix(pe, seed)
			}
		}
	}
	g.defaultConfig(true)
	g.hugeConfigs()

	r.Set("max_bytes_allocated_while_serving_a_hostile_prefix", g.maxAlloc)
	if n := g.hub.orphans(); n > 0 {
		r.Count("handler_calls_without_live_case", n) // no id, or a back-end handler that started after its (refused) case had ended
	}
	r.Assume("the encoded size of a request is the length of the byte string the harness generated for it (canonical JSON without leading/trailing blanks, protobuf wire bytes, HttpBody data bytes); a delivered message is attributed to a sent one by proto.Equal against the reference decoding (protojson / proto.Unmarshal) of what was sent")
	r.Assume("'refused on size grounds' = the case fails under the configured limits and succeeds on a mux that differs only by unlimited message sizes; for per-message gzip (gRPC family) 'within the limit' is read narrowly: both the inflated message and the compressed frame fit")
	r.Assume("over-limit replies that pass (streaming WriteNext, WebSocket) are not violations: the statement obliges refusal only for received requests")
	r.Assume("larking defaults: receive 4 MiB, send MaxInt32 (documented constants of mux.go); the in-process recorder and the loopback servers deliver bytes faithfully")
}

// Replay re-executes a stored case on a freshly built mux with the case's limits.
func Replay(r *mon.Run, raw json.RawMessage) {
	var c Case
	if err := json.Unmarshal(raw, &c); err != nil {
		r.Inconclusive("bad replay case: " + err.Error())
		return
	}
	g := &gen{r: r, hub: newHub()}
	ctl, err := newEnv(g.hub, 1<<30, 0)
	if err != nil {
		r.Inconclusive("control mux construction failed: " + err.Error())
		return
	}
	g.ctl = ctl
	defer ctl.close()
	var e *env
	if c.Proxied {
		if g.be, err = startBackend(g.hub); err != nil {
			r.Inconclusive("back-end start failed: " + err.Error())
			return
		}
		defer g.be.Close()
		if g.ctlProxy, err = newProxyEnv(g.hub, g.be, 1<<30, 0); err != nil {
			r.Inconclusive("RegisterConn on the control mux failed: " + err.Error())
			return
		}
		e, err = newProxyEnv(g.hub, g.be, c.Lrecv, c.Lsend)
	} else {
		e, err = newEnv(g.hub, c.Lrecv, c.Lsend)
	}
	if err != nil {
		r.Inconclusive("mux construction failed: " + err.Error())
		return
	}
	defer e.close()
	if c.ID == "" {
		c.ID = "replay"
	}
	g.run(e, &c)
	r.Distinct("replay")
}
