// Package limits is the C08 engine: message size limits hold on every
// protocol. It drives real muxes configured with small receive / send limits
// through every protocol front (HTTP unary and streaming with JSON, protobuf
// and HttpBody, gRPC, gRPC-web, gRPC-web-text, WebSocket; identity and gzip)
// with messages whose encoded size the client knows exactly, and compares
// what the recording handler was handed, and the status the client got, with
// the configured limits. "Refused on size grounds" is decided differentially:
// the same case is re-run on a mux whose only difference is unlimited sizes.
package limits

import (
	"context"
	"io"
	"sync"
	"time"

	"google.golang.org/genproto/googleapis/api/annotations"
	"google.golang.org/grpc"
	"google.golang.org/grpc/metadata"
	"google.golang.org/protobuf/proto"
	"google.golang.org/protobuf/reflect/protoreflect"
	"larking.io/larking"

	"verif/internal/backend"
	"verif/internal/vschema"
)

// ---------------------------------------------------------------- schema

func post(p, body string) *annotations.HttpRule {
	return &annotations.HttpRule{Pattern: &annotations.HttpRule_Post{Post: p}, Body: body}
}
func get(p string) *annotations.HttpRule {
	return &annotations.HttpRule{Pattern: &annotations.HttpRule_Get{Get: p}}
}

// limFile is the service of this engine. No route binds a path variable into
// the streamed message type (vf.Chunk), so what the handler is handed is
// exactly what the client encoded.
//
//	Echo(Chunk) Chunk                 POST /l/echo body:*
//	CS(stream Chunk) Chunk            POST /l/cs body:*
//	SS(Chunk) stream Chunk            POST /l/ss body:*
//	Bidi(stream Chunk) stream Chunk   POST /l/bidi body:* | WEBSOCKET /l/ws body:*
//	EchoP(Chunk) Chunk                POST /l/echop/{tag} body:*  (body plus a URL-bound field)
//	EchoR(Req) Chunk                  POST /l/echor body:*   (messages with repeated fields)
//	CSR(stream Req) Chunk             POST /l/csr body:*
//	Upload(stream Upload) Chunk       POST /l/upload/{name} body:file
//	UploadU(Upload) Chunk             POST /l/uploadu/{name} body:file
//	Download(Chunk) stream HttpBody   GET /l/download/{id}
//	DownloadU(Chunk) HttpBody         GET /l/downloadu/{id}
func limFile() *vschema.File {
	bidi := post("/l/bidi", "*")
	bidi.AdditionalBindings = []*annotations.HttpRule{{
		Pattern: &annotations.HttpRule_Custom{Custom: &annotations.CustomHttpPattern{Kind: "websocket", Path: "/l/ws"}},
		Body:    "*",
	}}
	return &vschema.File{Path: "vf/lim.proto", Pkg: "vf.lim", Services: []vschema.Service{{Name: "Lim", Methods: []vschema.Method{
		{Name: "Echo", In: "vf.Chunk", Out: "vf.Chunk", Rule: post("/l/echo", "*")},
		{Name: "CS", In: "vf.Chunk", Out: "vf.Chunk", CS: true, Rule: post("/l/cs", "*")},
		{Name: "SS", In: "vf.Chunk", Out: "vf.Chunk", SS: true, Rule: post("/l/ss", "*")},
		{Name: "Bidi", In: "vf.Chunk", Out: "vf.Chunk", CS: true, SS: true, Rule: bidi},
		{Name: "EchoP", In: "vf.Chunk", Out: "vf.Chunk", Rule: post("/l/echop/{tag}", "*")},
		{Name: "EchoR", In: "vf.Req", Out: "vf.Chunk", Rule: post("/l/echor", "*")},
		{Name: "CSR", In: "vf.Req", Out: "vf.Chunk", CS: true, Rule: post("/l/csr", "*")},
		{Name: "Upload", In: "vf.Upload", Out: "vf.Chunk", CS: true, Rule: post("/l/upload/{name}", "file")},
		{Name: "UploadU", In: "vf.Upload", Out: "vf.Chunk", Rule: post("/l/uploadu/{name}", "file")},
		{Name: "Download", In: "vf.Chunk", Out: "google.api.HttpBody", SS: true, Rule: get("/l/download/{id}")},
		{Name: "DownloadU", In: "vf.Chunk", Out: "google.api.HttpBody", Rule: get("/l/downloadu/{id}")},
	}}}}
}

var (
	schemaOnce sync.Once
	schemaFD   protoreflect.FileDescriptor
	schemaErr  error
)

func schema() (protoreflect.FileDescriptor, error) {
	schemaOnce.Do(func() { schemaFD, schemaErr = limFile().Build() })
	return schemaFD, schemaErr
}

func full(method string) string { return "/vf.lim.Lim/" + method }

func chunkDesc() protoreflect.MessageDescriptor { return vschema.Msg("vf.Chunk") }
func newChunk() proto.Message                   { return vschema.NewMsg(chunkDesc()) }

// ---------------------------------------------------------------- recorder

// live is the handler-side log of one case.
type live struct {
	c *Case

	mu          sync.Mutex
	entered     int
	delivered   []proto.Message // request messages handed to the handler, in order
	recvErrAt   int             // index of the RecvMsg call that failed (-1: none)
	recvErrText string
	eofAt       int // index of the RecvMsg call that returned io.EOF (-1: none)
	sendErrAt   int
	sendErrText string
	sentOK      int
	returned    bool
}

func newLive(c *Case) *live { return &live{c: c, recvErrAt: -1, eofAt: -1, sendErrAt: -1} }

type liveSnap struct {
	Entered     int
	Delivered   []proto.Message
	RecvErrAt   int
	RecvErrText string
	EOFAt       int
	SendErrAt   int
	SendErrText string
	SentOK      int
	Returned    bool
}

func (l *live) snap() liveSnap {
	l.mu.Lock()
	defer l.mu.Unlock()
	return liveSnap{l.entered, append([]proto.Message(nil), l.delivered...), l.recvErrAt, l.recvErrText, l.eofAt, l.sendErrAt, l.sendErrText, l.sentOK, l.returned}
}

// hub maps case ids (carried in the x-case-id request header / metadata) to
// their live record. All state is mutex-protected: handlers of real-socket
// servers run on other goroutines.
type hub struct {
	mu     sync.Mutex
	cases  map[string]*live
	orphan int
}

func newHub() *hub { return &hub{cases: map[string]*live{}} }

func (h *hub) add(c *Case) *live {
	l := newLive(c)
	h.mu.Lock()
	h.cases[c.ID] = l
	h.mu.Unlock()
	return l
}

func (h *hub) drop(id string) {
	h.mu.Lock()
	delete(h.cases, id)
	h.mu.Unlock()
}

func (h *hub) lookup(ctx context.Context) *live {
	if md, ok := metadata.FromIncomingContext(ctx); ok {
		if v := md.Get("x-case-id"); len(v) > 0 {
			h.mu.Lock()
			l := h.cases[v[0]]
			h.mu.Unlock()
			if l != nil {
				return l
			}
		}
	}
	h.mu.Lock()
	h.orphan++
	h.mu.Unlock()

	return newLive(&Case{}) // not attached to any case: nothing is concluded from it
}

func (h *hub) orphans() int {
	h.mu.Lock()
	defer h.mu.Unlock()
	return h.orphan
}

// replyMsg materialises reply j of the case for the method's output type.
func replyMsg(c *Case, md protoreflect.MethodDescriptor, j int) proto.Message {
	out := vschema.NewMsg(md.Output())
	if j >= len(c.Replies) {
		return out
	}
	if md.Output().FullName() == "google.api.HttpBody" {
		r := out.ProtoReflect()
		fds := r.Descriptor().Fields()
		r.Set(fds.ByName("content_type"), protoreflect.ValueOfString("application/octet-stream"))
		r.Set(fds.ByName("data"), protoreflect.ValueOfBytes(append([]byte(nil), c.Replies[j]...)))
		return out
	}
	proto.Unmarshal(c.Replies[j], out) // generated by the harness, always valid
	return out
}

func uploadData(m proto.Message) []byte {
	r := m.ProtoReflect()
	fd := r.Descriptor().Fields().ByName("file")
	if fd == nil || !r.Has(fd) {
		return nil
	}
	f := r.Get(fd).Message()
	return f.Get(f.Descriptor().Fields().ByName("data")).Bytes()
}

func (h *hub) unary(ctx context.Context, md protoreflect.MethodDescriptor, dec func(interface{}) error) (interface{}, error) {
	l := h.lookup(ctx)
	in := vschema.NewMsg(md.Input())
	err := dec(in)
	l.mu.Lock()
	l.entered++
	if err != nil {
		if err == io.EOF {
			l.eofAt = 0
		} else {
			l.recvErrAt, l.recvErrText = 0, err.Error()
		}
		l.returned = true
		l.mu.Unlock()
		return nil, err
	}
	l.delivered = append(l.delivered, proto.Clone(in))
	l.returned = true
	l.mu.Unlock()
	return replyMsg(l.c, md, 0), nil
}

func (h *hub) stream(md protoreflect.MethodDescriptor, ss grpc.ServerStream) (err error) {
	l := h.lookup(ss.Context())
	c := l.c
	l.mu.Lock()
	l.entered++
	l.mu.Unlock()
	defer func() {
		l.mu.Lock()
		l.returned = true
		l.mu.Unlock()
	}()
	nread := 1
	if md.IsStreamingClient() {
		nread = c.NRead
	}
	isUpload := md.Name() == "Upload"
	got := 0
	for i := 0; ; i++ {
		if isUpload {
			// chunks are read until the whole upload arrived (or the
			// stream ends); the upload length is known from the case
			if i > 0 && got >= c.UploadLen {
				break
			}
			if i > c.UploadLen+8 {
				break // no progress: empty chunks only
			}
		} else if i >= nread {
			break
		}
		in := vschema.NewMsg(md.Input())
		rerr := ss.RecvMsg(in)
		if rerr == io.EOF {
			l.mu.Lock()
			l.eofAt = i
			l.mu.Unlock()
			break
		}
		if rerr != nil {
			l.mu.Lock()
			l.recvErrAt, l.recvErrText = i, rerr.Error()
			l.mu.Unlock()
			return rerr
		}
		l.mu.Lock()
		l.delivered = append(l.delivered, proto.Clone(in))
		l.mu.Unlock()
		if isUpload {
			got += len(uploadData(in))
		}
	}
	nrep := 1
	if md.IsStreamingServer() {
		nrep = len(c.Replies)
	}
	for j := 0; j < nrep; j++ {
		if serr := ss.SendMsg(replyMsg(c, md, j)); serr != nil {
			l.mu.Lock()
			l.sendErrAt, l.sendErrText = j, serr.Error()
			l.mu.Unlock()
			return serr
		}
		l.mu.Lock()
		l.sentOK++
		l.mu.Unlock()
	}
	return nil
}

// serviceDesc is the grpc.ServiceDesc glue; unlike vschema.ServiceDesc it
// lets the recorder see the error of the unary decode step.
func serviceDesc(sd protoreflect.ServiceDescriptor, h *hub) *grpc.ServiceDesc {
	gsd := &grpc.ServiceDesc{ServiceName: string(sd.FullName()), HandlerType: (*interface{})(nil), Metadata: sd.ParentFile().Path()}
	for i := 0; i < sd.Methods().Len(); i++ {
		md := sd.Methods().Get(i)
		if md.IsStreamingClient() || md.IsStreamingServer() {
			gsd.Streams = append(gsd.Streams, grpc.StreamDesc{
				StreamName:    string(md.Name()),
				ClientStreams: md.IsStreamingClient(),
				ServerStreams: md.IsStreamingServer(),
				Handler:       func(_ interface{}, ss grpc.ServerStream) error { return h.stream(md, ss) },
			})
			continue
		}
		gsd.Methods = append(gsd.Methods, grpc.MethodDesc{
			MethodName: string(md.Name()),
			Handler: func(_ interface{}, ctx context.Context, dec func(interface{}) error, _ grpc.UnaryServerInterceptor) (interface{}, error) {
				return h.unary(ctx, md, dec)
			},
		})
	}
	return gsd
}

// newMux builds a mux with the given limits (0 = larking's default).
func newMux(h *hub, lrecv, lsend int) (*larking.Mux, error) {
	fd, err := schema()
	if err != nil {
		return nil, err
	}
	reg, err := vschema.Registry(fd)
	if err != nil {
		return nil, err
	}
	opts := []larking.MuxOption{larking.FilesOption(reg)}
	if lrecv > 0 {
		opts = append(opts, larking.MaxReceiveMessageSizeOption(lrecv))
	}
	if lsend > 0 {
		opts = append(opts, larking.MaxSendMessageSizeOption(lsend))
	}
	mux, err := larking.NewMux(opts...)
	if err != nil {
		return nil, err
	}
	if err := larking.VerifRegisterService(mux, serviceDesc(fd.Services().ByName("Lim"), h), struct{}{}); err != nil {
		return nil, err
	}
	return mux, nil
}

// backendImpl serves the same recording handlers on a real grpc.Server (the
// back-end of the proxied lanes): there the "handler" of the statement is the
// back-end behind larking's RegisterConn forwarder.
type backendImpl struct{ h *hub }

func (b backendImpl) Unary(ctx context.Context, md protoreflect.MethodDescriptor, in proto.Message) (proto.Message, error) {
	l := b.h.lookup(ctx)
	l.mu.Lock()
	l.entered++
	l.delivered = append(l.delivered, proto.Clone(in))
	l.returned = true
	l.mu.Unlock()
	return replyMsg(l.c, md, 0), nil
}

func (b backendImpl) Stream(md protoreflect.MethodDescriptor, ss grpc.ServerStream) error {
	return b.h.stream(md, ss)
}

// startBackend serves the engine's service on a loopback grpc.Server with
// server reflection.
func startBackend(h *hub) (*backend.Backend, error) {
	fd, err := schema()
	if err != nil {
		return nil, err
	}
	return backend.Start("limits", true, backend.Svc{SD: fd.Services().ByName("Lim"), Impl: backendImpl{h}})
}

// newProxyMux builds a mux with the given limits that reaches the service
// through RegisterConn.
func newProxyMux(be *backend.Backend, lrecv, lsend int) (*larking.Mux, error) {
	var opts []larking.MuxOption
	if lrecv > 0 {
		opts = append(opts, larking.MaxReceiveMessageSizeOption(lrecv))
	}
	if lsend > 0 {
		opts = append(opts, larking.MaxSendMessageSizeOption(lsend))
	}
	mux, err := larking.NewMux(opts...)
	if err != nil {
		return nil, err
	}
	ctx, cancel := context.WithTimeout(context.Background(), 20*time.Second)
	defer cancel()
	if err := mux.RegisterConn(ctx, be.CC); err != nil {
		return nil, err
	}
	return mux, nil
}
