package limits

import (
	"bytes"
	"context"
	"encoding/binary"
	"encoding/json"
	"fmt"
	"io"
	"net"
	"net/http"
	"runtime"
	"strconv"
	"strings"
	"time"

	"github.com/gobwas/ws"
	"google.golang.org/grpc"
	"google.golang.org/grpc/codes"
	_ "google.golang.org/grpc/encoding/gzip" // client-side gzip for the grpc-go lanes
	"google.golang.org/grpc/metadata"
	"google.golang.org/grpc/status"
	"google.golang.org/protobuf/encoding/protowire"
	"google.golang.org/protobuf/proto"
	"larking.io/larking"

	"verif/internal/backend"
	"verif/internal/mon"
	"verif/internal/wire"
)

// outcome is what the client side of one execution observed.
type outcome struct {
	Status    string   `json:"status"` // ok | error | unobservable
	Detail    string   `json:"detail"`
	Replies   [][]byte `json:"-"`          // reply encodings as received (after decompression)
	ReplyWire []int    `json:"reply_wire"` // size of each reply on the wire (compressed frame size for gzip)
	Panic     *mon.PanicInfo
	Wedged    bool
	Dump      string `json:"-"`
	Terr      string `json:"transport_error,omitempty"`
	Alloc     uint64 `json:"alloc,omitempty"`
}

// env is one mux configuration plus its lazily started real-socket server.
type env struct {
	proxied      bool
	hub          *hub
	lrecv, lsend int
	mux          *larking.Mux
	srv          *wire.Server
	cc           *grpc.ClientConn
	h1, h2       *http.Client
	logSeen      int
}

func newEnv(h *hub, lrecv, lsend int) (*env, error) {
	mux, err := newMux(h, lrecv, lsend)
	if err != nil {
		return nil, err
	}
	return &env{hub: h, lrecv: lrecv, lsend: lsend, mux: mux}, nil
}

// newProxyEnv is an env whose mux forwards to the back-end.
func newProxyEnv(h *hub, be *backend.Backend, lrecv, lsend int) (*env, error) {
	mux, err := newProxyMux(be, lrecv, lsend)
	if err != nil {
		return nil, err
	}
	return &env{proxied: true, hub: h, lrecv: lrecv, lsend: lsend, mux: mux}, nil
}

func (e *env) server() (*wire.Server, error) {
	if e.srv != nil {
		return e.srv, nil
	}
	srv, err := wire.StartLarking(e.mux, nil)
	if err != nil {
		return nil, err
	}
	e.srv = srv
	e.h1 = wire.H1Client()
	e.h2 = wire.H2CClient()
	return srv, nil
}

func (e *env) conn() (*grpc.ClientConn, error) {
	if e.cc != nil {
		return e.cc, nil
	}
	srv, err := e.server()
	if err != nil {
		return nil, err
	}
	cc, err := wire.Dial(srv.Addr)
	if err != nil {
		return nil, err
	}
	e.cc = cc
	return cc, nil
}

func (e *env) close() {
	if e.cc != nil {
		e.cc.Close()
	}
	if e.srv != nil {
		e.srv.Close()
	}
	if e.h1 != nil {
		e.h1.CloseIdleConnections()
	}
	if e.h2 != nil {
		e.h2.CloseIdleConnections()
	}
}

// newServerPanics returns the part of the server's error log that appeared
// since the last call and mentions a panic.
func (e *env) newServerPanics() string {
	if e.srv == nil {
		return ""
	}
	log := e.srv.ErrLog()
	fresh := log[min(e.logSeen, len(log)):]
	e.logSeen = len(log)
	if strings.Contains(fresh, "panic serving") {
		return fresh
	}
	return ""
}

// ---------------------------------------------------------------- request building

func grpcMethod(c *Case) string {
	if c.Msg == "req" {
		if c.Shape == "cs" {
			return full("CSR")
		}
		return full("EchoR")
	}
	switch c.Shape {
	case "unary":
		return full("Echo")
	case "cs":
		return full("CS")
	case "ss":
		return full("SS")
	default:
		return full("Bidi")
	}
}

func clientStreaming(c *Case) bool {
	switch c.Shape {
	case "cs", "bidi", "upload":
		return true
	}
	return false
}

// appendVarintWidth appends v as a varint of (at least) the given width:
// 0 = minimal, -1 = minimal plus one byte, k = padded to k bytes.
func appendVarintWidth(b []byte, v uint64, width int) []byte {
	min := protowire.SizeVarint(v)
	k := width
	if width < 0 {
		k = min + 1
	}
	if k <= min || k > 10 {
		return protowire.AppendVarint(b, v)
	}
	for i := 0; i < k; i++ {
		c := byte(v & 0x7f)
		v >>= 7
		if i != k-1 {
			c |= 0x80
		}
		b = append(b, c)
	}
	return b
}

func varintDelimited(msgs [][]byte, width int) []byte {
	var b []byte
	for _, m := range msgs {
		b = appendVarintWidth(b, uint64(len(m)), width)
		b = append(b, m...)
	}
	return b
}

// httpParts builds method, path, headers and body of the HTTP form of a case.
func httpParts(c *Case) (method, path string, hdr http.Header, body []byte) {
	hdr = http.Header{"X-Case-Id": {c.ID}}
	method = "POST"
	switch c.Shape {
	case "unary":
		path = "/l/echo"
	case "cs":
		path = "/l/cs"
	case "ss":
		path = "/l/ss"
	case "bidi":
		path = "/l/bidi"
	case "upload":
		path = "/l/upload/" + c.ID
	case "uploadu":
		path = "/l/uploadu/" + c.ID
	case "download":
		method, path = "GET", "/l/download/"+c.ID
	case "downloadu":
		method, path = "GET", "/l/downloadu/"+c.ID
	}
	if c.URLTag != "" && c.Shape == "unary" {
		path = "/l/echop/" + c.URLTag
	}
	if c.Msg == "req" {
		path = "/l/echor"
		if c.Shape == "cs" {
			path = "/l/csr"
		}
	}
	switch {
	case method == "GET":
		hdr.Set("Accept", "application/json")
	case c.Codec == "json":
		hdr.Set("Content-Type", "application/json")
		hdr.Set("Accept", "application/json")
	case c.Codec == "proto":
		hdr.Set("Content-Type", "application/protobuf")
		hdr.Set("Accept", "application/protobuf")
	case c.Codec == "httpbody":
		hdr.Set("Content-Type", "text/plain")
		hdr.Set("Accept", "application/json")
	}
	if c.AcceptGzip {
		hdr.Set("Accept-Encoding", "gzip")
	}
	if method == "GET" {
		return method, path, hdr, nil
	}
	switch {
	case c.Codec == "httpbody" || !clientStreaming(c):
		if len(c.Reqs) > 0 {
			body = append(body, c.Reqs[0]...)
		}
	case c.Codec == "json":
		body = bytes.Join(c.Reqs, nil)
	case c.Codec == "proto":
		body = varintDelimited(c.Reqs, c.PrefixWidth)
	}
	if c.Kind == "prefix" {
		body = protowire.AppendVarint(body, c.Declared)
		body = append(body, c.Tail...)
	}
	if c.Gzip {
		body = c.compress(body)
		hdr.Set("Content-Encoding", "gzip")
	}
	if len(body) == 0 {
		body = nil
	}
	return method, path, hdr, body
}

// grpcBody frames the request messages of a case.
func grpcBody(c *Case) []byte {
	var b []byte
	for i, m := range c.Reqs {
		if c.flagged(i) {
			b = append(b, wire.Frame(c.compress(m), true)...)
		} else {
			b = append(b, wire.Frame(m, false)...)
		}
	}
	if c.Kind == "prefix" {
		b = append(b, wire.FrameRaw(c.PrefixFlag, uint32(c.Declared), c.Tail)...)
	}
	return b
}

func grpcHeaders(c *Case) http.Header {
	h := http.Header{"X-Case-Id": {c.ID}}
	if c.Gzip {
		h.Set("Grpc-Encoding", "gzip")
	}
	return h
}

// ---------------------------------------------------------------- response parsing

func splitHTTPReplies(c *Case, body []byte) [][]byte {
	switch c.Shape {
	case "ss", "bidi":
	default:
		return [][]byte{body}
	}
	var out [][]byte
	switch c.Codec {
	case "json":
		dec := json.NewDecoder(bytes.NewReader(body))
		for {
			var raw json.RawMessage
			if err := dec.Decode(&raw); err != nil {
				break
			}
			out = append(out, raw)
		}
	case "proto":
		for len(body) > 0 {
			n, k := protowire.ConsumeVarint(body)
			if k <= 0 || uint64(len(body)-k) < n {
				break
			}
			out = append(out, body[k:k+int(n)])
			body = body[k+int(n):]
		}
	}
	return out
}

func (o *outcome) fromHTTP(c *Case, code int, body []byte) {
	o.Detail = fmt.Sprintf("HTTP %d %s", code, clip(string(body), 160))
	if code == 200 {
		o.Status = "ok"
		o.Replies = splitHTTPReplies(c, body)
		for _, r := range o.Replies {
			o.ReplyWire = append(o.ReplyWire, len(r))
		}
	} else {
		o.Status = "error"
	}
}

func (o *outcome) addFrames(frames []wire.GFrame) {
	for _, f := range frames {
		if f.Trailer() {
			continue
		}
		o.ReplyWire = append(o.ReplyWire, len(f.Data))
		data := f.Data
		if f.Compressed() {
			if d, err := wire.Gunzip(f.Data); err == nil {
				data = d
			}
		}
		o.Replies = append(o.Replies, data)
	}
}

func (o *outcome) grpcStatus(code int, msg string, ok bool) {
	if !ok {
		o.Status = "unobservable"
		return
	}
	o.Detail = fmt.Sprintf("grpc-status %d %s", code, clip(msg, 160))
	if code == 0 {
		o.Status = "ok"
	} else {
		o.Status = "error"
	}
}

// webStatus extracts the status of a gRPC-web response. A trailer frame cut
// short by at most two bytes (the base64 tail larking's text mode loses, a
// defect outside this property) is still read: the lost bytes can only be the
// final CRLF, never a digit of the status.
func webStatus(r *wire.Resp, text bool) (code int, msg string, ok bool, frames []wire.GFrame) {
	wr := wire.DecodeWeb(r.Body, text)
	for i, m := range wr.Msgs {
		frames = append(frames, wire.GFrame{Flag: wr.Flags[i], Data: m})
	}
	tr := wr.Trailer
	if !wr.HasTrail && len(wr.Rest) >= 5 && wr.Rest[0]&0x80 != 0 {
		declared := int(binary.BigEndian.Uint32(wr.Rest[1:5]))
		have := len(wr.Rest) - 5
		if declared-have >= 0 && declared-have <= 2 {
			tr = wire.ParseWebTrailer(wr.Rest[5:])
		}
	}
	if tr != nil {
		if v := tr["grpc-status"]; len(v) > 0 {
			n, err := strconv.Atoi(strings.TrimSpace(v[0]))
			if err == nil {
				m := ""
				if mv := tr["grpc-message"]; len(mv) > 0 {
					m = wire.DecodeGrpcMessage(mv[0])
				}
				return n, m, true, frames
			}
		}
	}
	// Trailers-Only style response: status in the HTTP headers.
	if v := r.Header.Get("Grpc-Status"); v != "" {
		if n, err := strconv.Atoi(v); err == nil {
			return n, wire.DecodeGrpcMessage(r.Header.Get("Grpc-Message")), true, frames
		}
	}
	return -1, "", false, frames
}

// clip shortens s and makes it printable (response bodies may be binary).
func clip(s string, n int) string {
	suffix := ""
	if len(s) > n {
		s, suffix = s[:n], "..."
	}
	b := []byte(s)
	for i, c := range b {
		if c < 0x20 || c > 0x7e {
			b[i] = '.'
		}
	}
	return string(b) + suffix
}

// ---------------------------------------------------------------- executors

func (e *env) exec(c *Case) *outcome {
	switch c.Transport {
	case "inproc":
		return e.execInproc(c)
	case "h1", "h2c":
		return e.execHTTPSock(c)
	case "grpcgo":
		return e.execGrpcGo(c)
	case "sock":
		if c.Proto == "ws" {
			return e.execWS(c)
		}
	}
	return &outcome{Status: "unobservable", Terr: "unknown transport " + c.Transport}
}

func (e *env) execInproc(c *Case) *outcome {
	o := &outcome{Status: "unobservable"}
	var req *http.Request
	switch c.Proto {
	case "http":
		method, path, hdr, body := httpParts(c)
		if c.UnknownLen && len(body) > 0 {
			req = wire.NewRequest(method, path, "", hdr, bytes.NewReader(body), -1)
		} else if c.EOFWithData && len(body) > 0 {
			req = wire.NewRequest(method, path, "", hdr, &wire.ScriptReader{Data: body, EOFWithData: true}, int64(len(body)))
		} else {
			req = wire.BodyRequest(method, path, "", hdr, body)
		}
	case "grpc":
		hdr := grpcHeaders(c)
		if c.Codec != "proto" {
			hdr.Set("Content-Type", "application/grpc+"+c.Codec)
		}
		req = wire.GRPCRequest(grpcMethod(c), hdr, bytes.NewReader(grpcBody(c)))
	case "grpc-web", "grpc-web-text":
		req = wire.WebRequest(grpcMethod(c), grpcHeaders(c), grpcBody(c), c.Proto == "grpc-web-text", c.Codec)
	default:
		o.Terr = "protocol " + c.Proto + " has no in-process form"
		return o
	}
	var ms0, ms1 runtime.MemStats
	if c.Kind == "prefix" {
		runtime.ReadMemStats(&ms0)
	}
	r := wire.Serve(e.mux, req)
	if c.Kind == "prefix" {
		runtime.ReadMemStats(&ms1)
		o.Alloc = ms1.TotalAlloc - ms0.TotalAlloc
	}
	if r.Wedged {
		o.Wedged, o.Dump = true, r.Dump
		return o
	}
	if r.Panic != nil {
		o.Panic = r.Panic
		return o
	}
	switch c.Proto {
	case "http":
		body := r.Body
		if r.Header.Get("Content-Encoding") == "gzip" {
			if d, err := wire.Gunzip(body); err == nil {
				body = d
			}
		}
		o.fromHTTP(c, r.Code, body)
	case "grpc":
		code, msg, _, ok := r.GRPCStatus()
		o.grpcStatus(code, msg, ok)
		if !ok && r.Code != 200 {
			o.Status, o.Detail = "error", fmt.Sprintf("HTTP %d %s", r.Code, clip(string(r.Body), 160))
		}
		frames, _ := wire.ParseFrames(r.Body)
		o.addFrames(frames)
	default:
		code, msg, ok, frames := webStatus(r, c.Proto == "grpc-web-text")
		o.grpcStatus(code, msg, ok)
		if !ok && r.Code != 200 {
			o.Status, o.Detail = "error", fmt.Sprintf("HTTP %d %s", r.Code, clip(string(r.Body), 160))
		}
		o.addFrames(frames)
	}
	return o
}

const sockTimeout = 30 * time.Second

func (e *env) execHTTPSock(c *Case) *outcome {
	o := &outcome{Status: "unobservable"}
	srv, err := e.server()
	if err != nil {
		o.Terr = err.Error()
		return o
	}
	method, path, hdr, body := httpParts(c)
	ctx, cancel := context.WithTimeout(context.Background(), sockTimeout)
	defer cancel()
	var rd io.Reader
	if body != nil {
		rd = bytes.NewReader(body) // the whole request is sent first (HTTP/1 is half-duplex)
		if c.UnknownLen {
			rd = struct{ io.Reader }{rd} // no Content-Length: chunked / h2 without content-length
		}
	}
	req, err := http.NewRequestWithContext(ctx, method, srv.URL+path, rd)
	if err != nil {
		o.Terr = err.Error()
		return o
	}
	for k, v := range hdr {
		req.Header[k] = v
	}
	cl := e.h1
	if c.Transport == "h2c" {
		cl = e.h2
	}
	resp, err := cl.Do(req)
	if err != nil {
		o.Terr = err.Error()
		return o
	}
	defer resp.Body.Close()
	rb, err := io.ReadAll(resp.Body)
	if err != nil && resp.StatusCode == 200 {
		// a stream aborted after the status line: the status is not a verdict
		o.Terr = err.Error()
		o.Detail = fmt.Sprintf("HTTP %d, body aborted: %v", resp.StatusCode, err)
		return o
	}
	if resp.Header.Get("Content-Encoding") == "gzip" {
		if d, err := wire.Gunzip(rb); err == nil {
			rb = d
		}
	}
	o.fromHTTP(c, resp.StatusCode, rb)
	return o
}

func (e *env) execGrpcGo(c *Case) *outcome {
	o := &outcome{Status: "unobservable"}
	cc, err := e.conn()
	if err != nil {
		o.Terr = err.Error()
		return o
	}
	ctx, cancel := context.WithTimeout(context.Background(), sockTimeout)
	defer cancel()
	ctx = metadata.AppendToOutgoingContext(ctx, "x-case-id", c.ID)
	// the client's own limits are raised so that it never refuses first
	opts := []grpc.CallOption{grpc.MaxCallSendMsgSize(1 << 30), grpc.MaxCallRecvMsgSize(1 << 30)}
	if c.Gzip {
		opts = append(opts, grpc.UseCompressor("gzip"))
	}
	var reqs []proto.Message
	for _, enc := range c.Reqs {
		m, err := decodeMsg(c, enc)
		if err != nil {
			o.Terr = "bad request encoding: " + err.Error()
			return o
		}
		reqs = append(reqs, m)
	}
	fin := func(err error) {
		if err == nil || err == io.EOF {
			o.Status, o.Detail = "ok", "grpc-go OK"
			return
		}
		st, _ := status.FromError(err)
		switch st.Code() {
		case codes.DeadlineExceeded, codes.Unavailable, codes.Canceled:
			// could be the harness's own timeout / connection trouble
			o.Status, o.Terr = "unobservable", err.Error()
		default:
			o.Status = "error"
		}
		o.Detail = fmt.Sprintf("grpc-go %s %s", st.Code(), clip(st.Message(), 160))
	}
	if c.Shape == "unary" {
		out := newChunk()
		err := cc.Invoke(ctx, grpcMethod(c), reqs[0], out, opts...)
		if err == nil {
			b, _ := proto.Marshal(out)
			o.Replies = append(o.Replies, b)
			o.ReplyWire = append(o.ReplyWire, len(b))
		}
		fin(err)
		return o
	}
	sd := &grpc.StreamDesc{ClientStreams: c.Shape == "cs" || c.Shape == "bidi", ServerStreams: c.Shape == "ss" || c.Shape == "bidi"}
	st, err := cc.NewStream(ctx, sd, grpcMethod(c), opts...)
	if err != nil {
		fin(err)
		return o
	}
	for _, m := range reqs {
		if err := st.SendMsg(m); err != nil {
			break // io.EOF: the stream is over, RecvMsg reports the status
		}
	}
	st.CloseSend()
	for {
		out := newChunk()
		err := st.RecvMsg(out)
		if err != nil {
			fin(err)
			return o
		}
		b, _ := proto.Marshal(out)
		o.Replies = append(o.Replies, b)
		o.ReplyWire = append(o.ReplyWire, len(b))
		if !sd.ServerStreams {
			// client-streaming: one reply, then the status
			err := st.RecvMsg(newChunk())
			fin(err)
			return o
		}
	}
}

// wsFrames cuts a message into k masked client frames.
func wsFrames(payload []byte, k int) []ws.Frame {
	if k < 1 {
		k = 1
	}
	if k > len(payload) {
		k = max(1, len(payload))
	}
	var out []ws.Frame
	step := (len(payload) + k - 1) / k
	if step == 0 {
		step = 1
	}
	for i := 0; i < k; i++ {
		lo, hi := i*step, (i+1)*step
		if lo > len(payload) {
			lo = len(payload)
		}
		if hi > len(payload) || i == k-1 {
			hi = len(payload)
		}
		op := ws.OpContinuation
		if i == 0 {
			op = ws.OpText
		}
		part := append([]byte(nil), payload[lo:hi]...)
		f := ws.NewFrame(op, i == k-1, part)
		out = append(out, ws.MaskFrameInPlace(f))
	}
	return out
}

func (e *env) execWS(c *Case) *outcome {
	o := &outcome{Status: "unobservable"}
	srv, err := e.server()
	if err != nil {
		o.Terr = err.Error()
		return o
	}
	ctx, cancel := context.WithTimeout(context.Background(), sockTimeout)
	defer cancel()
	conn, err := wire.WSDial(ctx, "ws://"+srv.Addr+"/l/ws", http.Header{"X-Case-Id": {c.ID}})
	if err != nil {
		o.Terr = "dial: " + err.Error()
		return o
	}
	defer conn.Close()
	conn.SetDeadline(time.Now().Add(sockTimeout))
	// all messages are sent first, then the replies and the close frame are
	// read; a failed write (the server already closed) is not a verdict
	func() {
		for _, m := range c.Reqs {
			for _, f := range wsFrames(m, c.Frag) {
				if err := ws.WriteFrame(conn, f); err != nil {
					o.Terr = "write: " + err.Error()
					return
				}
			}
		}
	}()
	for {
		hdr, err := ws.ReadHeader(conn)
		if err != nil {
			if ne, ok := err.(net.Error); ok && ne.Timeout() {
				o.Terr = "read timeout"
			} else if o.Terr == "" {
				o.Terr = "read: " + err.Error()
			}
			return o
		}
		if hdr.Length > 64<<20 {
			o.Terr = "oversized server frame"
			return o
		}
		p := make([]byte, hdr.Length)
		if _, err := io.ReadFull(conn, p); err != nil {
			o.Terr = "read: " + err.Error()
			return o
		}
		if hdr.Masked {
			ws.Cipher(p, hdr.Mask, 0)
		}
		switch hdr.OpCode {
		case ws.OpText, ws.OpBinary, ws.OpContinuation:
			o.Replies = append(o.Replies, p)
			o.ReplyWire = append(o.ReplyWire, len(p))
		case ws.OpClose:
			code := 1005 // no status present
			reason := ""
			if len(p) >= 2 {
				code = int(binary.BigEndian.Uint16(p))
				reason = string(p[2:])
			}
			o.Detail = fmt.Sprintf("ws close %d %s", code, clip(reason, 120))
			if code == 1000 || code == 1005 {
				o.Status = "ok"
			} else {
				o.Status = "error"
			}
			ws.WriteFrame(conn, ws.MaskFrameInPlace(ws.NewCloseFrame(nil)))
			return o
		}
	}
}
