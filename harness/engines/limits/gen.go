package limits

import (
	"bytes"
	"compress/gzip"
	"fmt"
	"io"
	"math"
	"math/rand"
	"strconv"
	"strings"
	"sync"

	"google.golang.org/protobuf/encoding/protojson"
	"google.golang.org/protobuf/encoding/protowire"
	"google.golang.org/protobuf/proto"
	"google.golang.org/protobuf/reflect/protoreflect"

	"verif/internal/vschema"
)

const (
	defaultRecv = 4 * 1024 * 1024 // larking's defaultServerMaxReceiveMessageSize (pinned, documented default)
	defaultSend = math.MaxInt32   // larking's defaultServerMaxSendMessageSize
)

// Case is one fully materialised execution (also the replay format).
type Case struct {
	ID        string `json:"id"`
	Lrecv     int    `json:"l_recv"`    // 0 = larking default (4 MiB)
	Lsend     int    `json:"l_send"`    // 0 = larking default (MaxInt32)
	Proto     string `json:"proto"`     // http | grpc | grpc-web | grpc-web-text | ws
	Codec     string `json:"codec"`     // json | proto | httpbody
	Gzip      bool   `json:"gzip"`      // gRPC per-message gzip / HTTP Content-Encoding: gzip
	Shape     string `json:"shape"`     // unary | cs | ss | bidi | upload | uploadu | download | downloadu
	Transport string `json:"transport"` // inproc | h1 | h2c | grpcgo | sock
	Kind      string `json:"kind"`      // req | reply | prefix
	Class     string `json:"class"`     // size class (finding keys)
	// Reqs are the request messages exactly as encoded in Codec (before any
	// compression); their lengths are the sizes the receiver must measure.
	Reqs [][]byte `json:"reqs"`
	// Replies are the reply messages: protobuf wire bytes of vf.Chunk, or
	// the HttpBody data for the download shapes.
	Replies [][]byte `json:"replies"`
	Probe   int      `json:"probe"` // index of the probe in Reqs (kind req) or Replies (kind reply)
	// Hostile length prefix (kind prefix): appended after the framed Reqs.
	PrefixFlag byte   `json:"prefix_flag,omitempty"`
	Declared   uint64 `json:"declared,omitempty"`
	Tail       []byte `json:"tail,omitempty"` // short body following the prefix
	Frag       int    `json:"frag,omitempty"` // ws: frames per message (0/1 = single frame)
	// Flags is the per-message compressed-flag of the gRPC family,
	// independent of the stream-level Grpc-Encoding header (Gzip): "" = the
	// flag follows the header, "0" = every message uncompressed with flag 0,
	// "alt01" / "alt10" = alternating flags starting with 0 / 1 (flagged
	// messages are gzip-compressed), "1-nohdr" = compressed messages with
	// flag 1 although no encoding was negotiated.
	Flags string `json:"flags,omitempty"`
	// GzipMode is how compressed request payloads are built: "" = one gzip
	// member, "multi" = several concatenated members (RFC 1952 2.2) with a
	// tiny last one, "isize" = one member whose ISIZE trailer field is forged
	// to 1 (an invalid stream: must fail or at least never be delivered).
	GzipMode string `json:"gzip_mode,omitempty"`
	// PrefixWidth is the width of the varint length prefixes of an HTTP
	// protobuf client stream: 0 = minimal, -1 = minimal plus one byte, k > 0
	// = padded to k bytes (non-minimal varints are legal wire format).
	PrefixWidth int `json:"prefix_width,omitempty"`
	// UnknownLen: the HTTP body is sent without a length (in-process
	// ContentLength -1; HTTP/1.1 chunked or h2 without content-length on
	// real sockets).
	UnknownLen bool `json:"unknown_len,omitempty"`
	// Proxied: the mux reaches the service through RegisterConn (a real
	// grpc-go back-end on a loopback listener) instead of RegisterService.
	Proxied bool `json:"proxied,omitempty"`
	// URLTag: unary HTTP call on /l/echop/{tag}: the body plus a field bound
	// from the URL path.
	URLTag string `json:"url_tag,omitempty"`
	// AcceptGzip: the HTTP request carries Accept-Encoding: gzip (replies may
	// be compressed by the server; the client inflates them).
	AcceptGzip bool `json:"accept_gzip,omitempty"`
	// Msg selects the request message type: "" = vf.Chunk, "req" = vf.Req
	// (methods EchoR / CSR; payloads with many small repeated elements).
	Msg string `json:"msg,omitempty"`
	// EOFWithData: the in-process HTTP body reader returns its last bytes
	// together with io.EOF (as net/http's HTTP/1 Content-Length body does).
	EOFWithData bool `json:"eof_with_data,omitempty"`
	// handler script
	NRead     int `json:"n_read"`     // RecvMsg calls a client-streaming handler makes
	UploadLen int `json:"upload_len"` // length of the HttpBody upload
}

func (c *Case) lrecv() int {
	if c.Lrecv > 0 {
		return c.Lrecv
	}
	return defaultRecv
}

func (c *Case) lsend() int {
	if c.Lsend > 0 {
		return c.Lsend
	}
	return defaultSend
}

// protoName is the protocol part of finding keys.
func (c *Case) protoName() string {
	p := c.Proto
	if p == "http" {
		switch c.Shape {
		case "unary", "uploadu", "downloadu":
			p = "http-unary"
		default:
			p = "http-stream"
		}
	}
	if p == "ws" && c.Frag > 1 {
		p = "ws-frag"
	}
	return p
}

// flagged reports whether request message i is sent gzip-compressed with
// the compressed-flag set (gRPC family).
func (c *Case) flagged(i int) bool {
	switch c.Flags {
	case "0":
		return false
	case "alt01":
		return i%2 == 1
	case "alt10":
		return i%2 == 0
	case "1-nohdr":
		return true
	}
	return c.Gzip
}

func (c *Case) lane() string {
	s := c.protoName() + "/" + c.Codec
	if c.Gzip {
		s += "/gzip"
	}
	switch c.Flags {
	case "0":
		s += "/flag0"
	case "alt01", "alt10":
		s += "/mixed-flags"
	case "1-nohdr":
		s += "/flag1-no-encoding"
	}
	switch c.GzipMode {
	case "multi":
		s += "/multi-member"
	case "isize":
		s += "/forged-isize"
	}
	if c.AcceptGzip {
		s += "/accept-gzip"
	}
	switch {
	case c.PrefixWidth < 0:
		s += "/prefix-width+1"
	case c.PrefixWidth > 0:
		s += fmt.Sprintf("/prefix-width%d", c.PrefixWidth)
	}
	if c.UnknownLen {
		s += "/unknown-length"
	}
	if c.URLTag != "" {
		s += "/url-field"
	}
	if c.Proxied {
		s += "/proxied"
	}
	return s
}

var gzPool = sync.Pool{New: func() interface{} { return gzip.NewWriter(io.Discard) }}

// gzipBytes compresses b as one gzip member (default level, as wire.Gzip)
// with a pooled writer: a fresh deflate state per call costs more than a
// megabyte of allocation.
func gzipBytes(b []byte) []byte {
	var buf bytes.Buffer
	w := gzPool.Get().(*gzip.Writer)
	w.Reset(&buf)
	w.Write(b)
	w.Close()
	gzPool.Put(w)
	return buf.Bytes()
}

// compress builds the gzip form of a request payload per GzipMode.
func (c *Case) compress(b []byte) []byte {
	switch c.GzipMode {
	case "multi":
		// all but the last byte(s) in the first member(s), one byte in the last
		var parts [][]byte
		switch {
		case len(b) >= 64:
			h := len(b) / 2
			parts = [][]byte{b[:h], b[h : len(b)-1], b[len(b)-1:]}
		case len(b) >= 2:
			parts = [][]byte{b[:len(b)-1], b[len(b)-1:]}
		default:
			parts = [][]byte{b, {}}
		}
		var out []byte
		for _, p := range parts {
			out = append(out, gzipBytes(p)...)
		}
		return out
	case "isize":
		z := gzipBytes(b)
		copy(z[len(z)-4:], []byte{1, 0, 0, 0})
		return z
	}
	return gzipBytes(b)
}

func (c *Case) key(observable string) string {
	return c.lane() + ":" + observable + ":" + keyClass(c.Class)
}

// ---------------------------------------------------------------- payloads

type padder struct {
	rng          *rand.Rand
	compressible bool
}

const padAlphabet = "abcdefghijklmnopqrstuvwxyz0123456789"

// pad returns n characters that need no escaping in JSON. Compressible
// padding repeats a short seeded pattern (small on the wire, large after
// inflation).
func (p padder) pad(n int) string {
	if n <= 0 {
		return ""
	}
	var sb strings.Builder
	sb.Grow(n)
	if p.compressible {
		k := 1 + p.rng.Intn(6)
		pat := make([]byte, k)
		for i := range pat {
			pat[i] = padAlphabet[p.rng.Intn(len(padAlphabet))]
		}
		for sb.Len() < n {
			sb.WriteByte(pat[sb.Len()%k])
		}
		return sb.String()
	}
	for i := 0; i < n; i++ {
		sb.WriteByte(padAlphabet[p.rng.Intn(len(padAlphabet))])
	}
	return sb.String()
}

func (p padder) bytes(n int) []byte {
	if p.compressible {
		return []byte(p.pad(n))
	}
	b := make([]byte, n)
	for i := range b {
		b[i] = byte(p.rng.Intn(256))
	}
	return b
}

// ---------------------------------------------------------------- encoders

// jsonMsg returns a JSON encoding of a vf.Chunk of exactly n bytes without
// leading or trailing whitespace. From 9 bytes on the text is whitespace-free
// ({"id":"<id>","text":"<pad>"} or {"id":"<pad>"}); 2 is {}; 3..8 bytes can
// only be reached with blanks between the braces, which are unambiguously
// part of the object's encoding.
func jsonMsg(n int, id string, p padder) ([]byte, bool) {
	switch {
	case n < 2:
		return nil, false
	case n == 2:
		return []byte("{}"), true
	case n < 9:
		return []byte("{" + strings.Repeat(" ", n-2) + "}"), true
	case n >= 19+len(id):
		return []byte(`{"id":"` + id + `","text":"` + p.pad(n-19-len(id)) + `"}`), true
	default:
		return []byte(`{"id":"` + p.pad(n-9) + `"}`), true
	}
}

func varintLen(v int) int { return protowire.SizeVarint(uint64(v)) }

// fitString finds k with 1 + varintLen(k) + k == r (a one-byte tag, a length
// prefix and k bytes of content).
func fitString(r int) (int, bool) {
	for vl := 1; vl <= 5; vl++ {
		k := r - 1 - vl
		if k >= 1 && varintLen(k) == vl {
			return k, true
		}
	}
	return 0, false
}

// protoMsg returns a wire encoding of a vf.Chunk of exactly n bytes (n = 1 is
// not realisable). Fields: id=1, seq=2 (filler to bridge varint gaps), text=4.
func protoMsg(n int, id string, p padder) ([]byte, bool) {
	if n == 0 {
		return []byte{}, true
	}
	if n == 1 {
		return nil, false
	}
	if n == 2 {
		return []byte{0x10, 0x01}, true // seq=1
	}
	var b []byte
	rem := n
	if id != "" && len(id) < 128 && n >= 2+len(id)+3 {
		b = protowire.AppendTag(b, 1, protowire.BytesType)
		b = protowire.AppendString(b, id)
		rem -= len(b)
	}
	for _, extra := range []int{0, 2, 3} {
		k, ok := fitString(rem - extra)
		if !ok {
			continue
		}
		switch extra {
		case 2:
			b = append(b, 0x10, 0x01)
		case 3:
			b = append(b, 0x10, 0x80, 0x01)
		}
		b = protowire.AppendTag(b, 4, protowire.BytesType)
		b = protowire.AppendString(b, p.pad(k))
		if len(b) != n {
			return nil, false
		}
		return b, true
	}
	return nil, false
}

// reqMsg encodes a request message of exactly n bytes in the codec.
func reqMsg(codec string, n int, id string, p padder) ([]byte, bool) {
	switch codec {
	case "json":
		return jsonMsg(n, id, p)
	case "proto":
		return protoMsg(n, id, p)
	case "httpbody":
		return p.bytes(n), true
	}
	return nil, false
}

// decodeReq parses an encoded vf.Chunk with the reference decoders.
func decodeReq(codec string, enc []byte) (proto.Message, error) {
	return decodeInto(newChunk(), codec, enc)
}

// decodeMsg parses an encoded request message of the case's message type
// (plus the field bound from the URL, where the route has one).
func decodeMsg(c *Case, enc []byte) (proto.Message, error) {
	if c.Msg == "req" {
		return decodeInto(vschema.NewMsg(vschema.Msg("vf.Req")), c.Codec, enc)
	}
	m, err := decodeInto(newChunk(), c.Codec, enc)
	if err == nil && c.URLTag != "" {
		r := m.ProtoReflect()
		r.Set(r.Descriptor().Fields().ByName("tag"), protoreflect.ValueOfString(c.URLTag))
	}
	return m, err
}

func decodeInto(m proto.Message, codec string, enc []byte) (proto.Message, error) {
	switch codec {
	case "json":
		if len(enc) == 0 {
			return m, nil // HTTP request without body
		}
		return m, protojson.Unmarshal(enc, m)
	case "proto":
		return m, proto.Unmarshal(enc, m)
	}
	return nil, fmt.Errorf("no message decoding for %s", codec)
}

// replyFor returns the reply (protobuf wire bytes of vf.Chunk, or raw data
// for HttpBody) whose encoding in the codec has exactly n bytes. JSON replies
// set a single field so that the encoder has no separator to randomise.
func replyFor(codec string, n int, p padder) ([]byte, bool) {
	switch codec {
	case "httpbody":
		return p.bytes(n), true
	case "proto":
		return protoMsg(n, "", p)
	case "json":
		switch {
		case n == 2:
			return []byte{}, true // {}
		case n == 9:
			return []byte{0x10, 0x07}, true // {"seq":7}
		case n == 10:
			return []byte{0x10, 42}, true // {"seq":42}
		case n >= 11:
			// {"text":"<pad>"}
			b := protowire.AppendTag(nil, 4, protowire.BytesType)
			return protowire.AppendString(b, p.pad(n-11)), true
		}
	}
	return nil, false
}

// replyForRandom is replyFor with content that does not compress: random
// bytes in the data field (protobuf, HttpBody), random characters in the text
// field (JSON; exact sizes need a text field, base64 comes in steps of four).
func replyForRandom(codec string, n int, rng *rand.Rand) ([]byte, bool) {
	p := padder{rng, false}
	switch codec {
	case "httpbody", "json":
		return replyFor(codec, n, p)
	case "proto":
		for _, extra := range []int{0, 2, 3} {
			k, ok := fitString(n - extra)
			if !ok {
				continue
			}
			var b []byte
			switch extra {
			case 2:
				b = append(b, 0x10, 0x01)
			case 3:
				b = append(b, 0x10, 0x80, 0x01)
			}
			b = protowire.AppendTag(b, 3, protowire.BytesType) // data
			b = protowire.AppendBytes(b, p.bytes(k))
			return b, len(b) == n
		}
	}
	return nil, false
}

// replyEnc returns the encoding of a reply in the codec as the sender must
// measure it (canonical single-field JSON).
func replyEnc(codec string, wireBytes []byte) ([]byte, bool) {
	switch codec {
	case "httpbody", "proto":
		return wireBytes, true
	case "json":
		m := newChunk()
		if err := proto.Unmarshal(wireBytes, m); err != nil {
			return nil, false
		}
		r := m.ProtoReflect()
		nset := 0
		out := "{}"
		r.Range(func(fd protoreflect.FieldDescriptor, v protoreflect.Value) bool {
			nset++
			switch fd.Name() {
			case "text", "id":
				out = `{"` + string(fd.Name()) + `":"` + v.String() + `"}`
			case "seq":
				out = `{"seq":` + strconv.FormatInt(v.Int(), 10) + `}`
			default:
				nset += 10
			}
			return true
		})
		if nset > 1 {
			return nil, false
		}
		return []byte(out), true
	}
	return nil, false
}

// prefixValid builds a protobuf encoding of a vf.Req larger than a limit
// whose prefix of exactly cut bytes is itself a valid encoding of a
// *different* message, as are many other prefixes: an implementation that
// silently cuts an oversized message hands the handler a message the client
// never sent. Families:
//
//	trail       a string field filling exactly cut bytes, then n=7 (cut+2 bytes)
//	rep-int32   unpacked repeated int32 elements (rn, 3 bytes each)
//	rep-string  repeated one-character strings (rs, 4 bytes each)
//
// total is the approximate size wanted (>= cut+1). ok=false when no field
// boundary can be placed at cut.
func prefixValid(family string, cut, total int, p padder) ([]byte, bool) {
	if cut < 0 {
		return nil, false
	}
	lead := func(n int) ([]byte, bool) {
		switch {
		case n == 0:
			return []byte{}, true
		case n == 1:
			return nil, false
		case n == 2:
			return []byte{0x30, 0x09}, true // l=9
		}
		k, ok := fitString(n)
		if !ok {
			return nil, false
		}
		b := protowire.AppendTag(nil, 1, protowire.BytesType) // a
		return protowire.AppendString(b, p.pad(k)), true
	}
	if family == "trail" {
		b, ok := lead(cut)
		if !ok {
			return nil, false
		}
		return append(b, 0x28, 0x07), true // n=7
	}
	var elem func(i int) []byte
	var e int
	switch family {
	case "rep-int32":
		e = 3
		elem = func(i int) []byte { return []byte{0x88, 0x01, byte(1 + i%120)} } // rn
	case "rep-string":
		e = 4
		elem = func(i int) []byte { return []byte{0x82, 0x01, 0x01, padAlphabet[i%len(padAlphabet)]} } // rs
	default:
		return nil, false
	}
	for k := cut / e; k >= 0; k-- {
		b, ok := lead(cut - k*e)
		if !ok {
			continue
		}
		n := 0
		for ; n < k; n++ {
			b = append(b, elem(n)...)
		}
		if len(b) != cut {
			return nil, false
		}
		for len(b) < total || len(b) == cut {
			b = append(b, elem(n)...)
			n++
		}
		return b, true
	}
	return nil, false
}

func pow2(k uint) uint64 { return uint64(1) << k }

// prefixClass names a declared length.
func prefixClass(v uint64, l int) string {
	switch {
	case v == uint64(l)+1:
		return "prefix=L+1"
	case v == pow2(31)-1:
		return "prefix=2^31-1"
	case v == pow2(31):
		return "prefix=2^31"
	case v == pow2(31)+3:
		return "prefix=2^31+3"
	case v == pow2(32)-1:
		return "prefix=2^32-1"
	case v == pow2(32):
		return "prefix=2^32"
	case v == pow2(32)+3:
		return "prefix=2^32+3"
	case v == pow2(63)-1:
		return "prefix=2^63-1"
	case v == pow2(63):
		return "prefix=2^63"
	case v == pow2(63)+3:
		return "prefix=2^63+3"
	case v == math.MaxUint64:
		return "prefix=2^64-1"
	}
	return "prefix=other"
}
