// Package vschema builds services, messages and google.api.http rule sets at
// run time (FileDescriptorProto -> protodesc) and the grpc.ServiceDesc glue
// that routes them to harness handlers.
package vschema

import (
	"context"
	"fmt"
	"sync"

	"google.golang.org/genproto/googleapis/api/annotations"
	_ "google.golang.org/genproto/googleapis/api/httpbody"
	"google.golang.org/grpc"
	"google.golang.org/protobuf/proto"
	"google.golang.org/protobuf/reflect/protodesc"
	"google.golang.org/protobuf/reflect/protoreflect"
	"google.golang.org/protobuf/reflect/protoregistry"
	"google.golang.org/protobuf/types/descriptorpb"
	"google.golang.org/protobuf/types/dynamicpb"
	_ "google.golang.org/protobuf/types/known/durationpb"
	_ "google.golang.org/protobuf/types/known/emptypb"
	_ "google.golang.org/protobuf/types/known/fieldmaskpb"
	_ "google.golang.org/protobuf/types/known/timestamppb"
	_ "google.golang.org/protobuf/types/known/wrapperspb"
	_ "larking.io/api/testpb"
)

type Method struct {
	Name string
	In   string // full message name
	Out  string
	CS   bool // client streaming
	SS   bool // server streaming
	Rule *annotations.HttpRule
}

type Service struct {
	Name    string
	Methods []Method
}

type File struct {
	Path     string
	Pkg      string
	Services []Service
	// Messages are message types the file defines itself (full name
	// Pkg.Name); services may use them as request / reply types.
	Messages []*descriptorpb.DescriptorProto
}

// StrField / I64Field build fields for File.Messages.
func StrField(name string, num int32) *descriptorpb.FieldDescriptorProto {
	return fld(name, num, descriptorpb.FieldDescriptorProto_TYPE_STRING, "", false)
}
func MsgField(name string, num int32, fullType string) *descriptorpb.FieldDescriptorProto {
	return fld(name, num, descriptorpb.FieldDescriptorProto_TYPE_MESSAGE, "."+fullType, false)
}
func I64Field(name string, num int32) *descriptorpb.FieldDescriptorProto {
	return fld(name, num, descriptorpb.FieldDescriptorProto_TYPE_INT64, "", false)
}

func sp(s string) *string { return &s }
func ip(i int32) *int32   { return &i }
func bp(b bool) *bool     { return &b }

var (
	typesOnce sync.Once
	typesFD   protoreflect.FileDescriptor
)

func fld(name string, num int32, typ descriptorpb.FieldDescriptorProto_Type, typeName string, rep bool) *descriptorpb.FieldDescriptorProto {
	f := &descriptorpb.FieldDescriptorProto{
		Name:   sp(name),
		Number: ip(num),
		Type:   typ.Enum(),
		Label:  descriptorpb.FieldDescriptorProto_LABEL_OPTIONAL.Enum(),
	}
	if rep {
		f.Label = descriptorpb.FieldDescriptorProto_LABEL_REPEATED.Enum()
	}
	if typeName != "" {
		f.TypeName = sp(typeName)
	}
	return f
}

const (
	tStr   = descriptorpb.FieldDescriptorProto_TYPE_STRING
	tI32   = descriptorpb.FieldDescriptorProto_TYPE_INT32
	tI64   = descriptorpb.FieldDescriptorProto_TYPE_INT64
	tU32   = descriptorpb.FieldDescriptorProto_TYPE_UINT32
	tU64   = descriptorpb.FieldDescriptorProto_TYPE_UINT64
	tS32   = descriptorpb.FieldDescriptorProto_TYPE_SINT32
	tS64   = descriptorpb.FieldDescriptorProto_TYPE_SINT64
	tF32   = descriptorpb.FieldDescriptorProto_TYPE_FIXED32
	tF64   = descriptorpb.FieldDescriptorProto_TYPE_FIXED64
	tSF32  = descriptorpb.FieldDescriptorProto_TYPE_SFIXED32
	tSF64  = descriptorpb.FieldDescriptorProto_TYPE_SFIXED64
	tBool  = descriptorpb.FieldDescriptorProto_TYPE_BOOL
	tDbl   = descriptorpb.FieldDescriptorProto_TYPE_DOUBLE
	tFlt   = descriptorpb.FieldDescriptorProto_TYPE_FLOAT
	tBytes = descriptorpb.FieldDescriptorProto_TYPE_BYTES
	tMsg   = descriptorpb.FieldDescriptorProto_TYPE_MESSAGE
	tEnum  = descriptorpb.FieldDescriptorProto_TYPE_ENUM
)

// TypesFile returns the harness's own message schema (package vf):
//
//	Req  - every scalar kind, enum, bytes, repeated, map, nested Sub/Sub2,
//	       wrappers, Timestamp/Duration/FieldMask, a oneof, a custom json_name
//	Rsp  - reply carrying a tag, the method name, an echo of the request
//	Chunk - streaming element {id, seq, data, text}
func TypesFile() protoreflect.FileDescriptor {
	typesOnce.Do(func() {
		mapEntry := func(name string, k, v descriptorpb.FieldDescriptorProto_Type) *descriptorpb.DescriptorProto {
			return &descriptorpb.DescriptorProto{
				Name:    sp(name),
				Field:   []*descriptorpb.FieldDescriptorProto{fld("key", 1, k, "", false), fld("value", 2, v, "", false)},
				Options: &descriptorpb.MessageOptions{MapEntry: bp(true)},
			}
		}
		req := &descriptorpb.DescriptorProto{
			Name: sp("Req"),
			Field: []*descriptorpb.FieldDescriptorProto{
				fld("a", 1, tStr, "", false), fld("b", 2, tStr, "", false), fld("c", 3, tStr, "", false), fld("d", 4, tStr, "", false),
				fld("n", 5, tI32, "", false), fld("l", 6, tI64, "", false), fld("u", 7, tU32, "", false), fld("ul", 8, tU64, "", false),
				fld("sn", 9, tS32, "", false), fld("f", 10, tBool, "", false), fld("e", 11, tEnum, ".vf.Color", false),
				fld("dbl", 12, tDbl, "", false), fld("flt", 13, tFlt, "", false), fld("y", 14, tBytes, "", false),
				fld("sub", 15, tMsg, ".vf.Sub", false), fld("rs", 16, tStr, "", true), fld("rn", 17, tI32, "", true),
				fld("m", 18, tMsg, ".vf.Req.MEntry", true),
				fld("ws", 19, tMsg, ".google.protobuf.StringValue", false), fld("wl", 20, tMsg, ".google.protobuf.Int64Value", false),
				fld("ts", 21, tMsg, ".google.protobuf.Timestamp", false), fld("dur", 22, tMsg, ".google.protobuf.Duration", false),
				fld("fm", 23, tMsg, ".google.protobuf.FieldMask", false),
				fld("f32", 24, tF32, "", false), fld("f64", 25, tF64, "", false), fld("sf32", 26, tSF32, "", false), fld("sf64", 27, tSF64, "", false),
				fld("sl", 28, tS64, "", false),
				fld("os", 30, tStr, "", false), fld("on", 31, tI32, "", false), fld("osub", 32, tMsg, ".vf.Sub", false),
				fld("re", 33, tEnum, ".vf.Color", true),
				fld("long_name", 34, tStr, "", false),
				fld("odd_json", 35, tStr, "", false),
				fld("rsub", 36, tMsg, ".vf.Sub", true),
			},
			NestedType: []*descriptorpb.DescriptorProto{mapEntry("MEntry", tStr, tStr)},
			OneofDecl:  []*descriptorpb.OneofDescriptorProto{{Name: sp("choice")}},
		}
		for _, f := range req.Field {
			switch f.GetName() {
			case "os", "on", "osub":
				f.OneofIndex = ip(0)
			case "odd_json":
				f.JsonName = sp("customJson")
			}
		}
		sub := &descriptorpb.DescriptorProto{
			Name: sp("Sub"),
			Field: []*descriptorpb.FieldDescriptorProto{
				fld("a", 1, tStr, "", false), fld("b", 2, tStr, "", false), fld("l", 3, tI64, "", false),
				fld("deep", 4, tMsg, ".vf.Sub2", false), fld("rs", 5, tStr, "", true), fld("e", 6, tEnum, ".vf.Color", false),
				fld("n", 7, tI32, "", false),
			},
		}
		sub2 := &descriptorpb.DescriptorProto{
			Name:  sp("Sub2"),
			Field: []*descriptorpb.FieldDescriptorProto{fld("s", 1, tStr, "", false), fld("n", 2, tI32, "", false), fld("f", 3, tBool, "", false)},
		}
		rsp := &descriptorpb.DescriptorProto{
			Name: sp("Rsp"),
			Field: []*descriptorpb.FieldDescriptorProto{
				fld("tag", 1, tStr, "", false), fld("method", 2, tStr, "", false), fld("echo", 3, tMsg, ".vf.Req", false),
				fld("sub", 4, tMsg, ".vf.Sub", false), fld("items", 5, tStr, "", true), fld("data", 6, tBytes, "", false),
				fld("n", 7, tI64, "", false), fld("body", 8, tMsg, ".google.api.HttpBody", false),
			},
		}
		chunk := &descriptorpb.DescriptorProto{
			Name: sp("Chunk"),
			Field: []*descriptorpb.FieldDescriptorProto{
				fld("id", 1, tStr, "", false), fld("seq", 2, tI32, "", false), fld("data", 3, tBytes, "", false),
				fld("text", 4, tStr, "", false), fld("script", 5, tStr, "", false), fld("tag", 6, tStr, "", false),
			},
		}
		upload := &descriptorpb.DescriptorProto{
			Name: sp("Upload"),
			Field: []*descriptorpb.FieldDescriptorProto{
				fld("name", 1, tStr, "", false), fld("file", 2, tMsg, ".google.api.HttpBody", false), fld("n", 3, tI32, "", false),
			},
		}
		color := &descriptorpb.EnumDescriptorProto{
			Name: sp("Color"),
			Value: []*descriptorpb.EnumValueDescriptorProto{
				{Name: sp("COLOR_UNSPECIFIED"), Number: ip(0)}, {Name: sp("RED"), Number: ip(1)},
				{Name: sp("GREEN"), Number: ip(2)}, {Name: sp("BLUE"), Number: ip(5)},
			},
		}
		fdp := &descriptorpb.FileDescriptorProto{
			Name:    sp("vf/types.proto"),
			Package: sp("vf"),
			Syntax:  sp("proto3"),
			Dependency: []string{
				"google/protobuf/wrappers.proto", "google/protobuf/timestamp.proto", "google/protobuf/duration.proto",
				"google/protobuf/field_mask.proto", "google/api/httpbody.proto",
			},
			MessageType: []*descriptorpb.DescriptorProto{req, sub, sub2, rsp, chunk, upload},
			EnumType:    []*descriptorpb.EnumDescriptorProto{color},
		}
		fd, err := protodesc.NewFile(fdp, protoregistry.GlobalFiles)
		if err != nil {
			panic(fmt.Sprintf("vschema: types file: %v", err))
		}
		typesFD = fd
	})
	return typesFD
}

// Msg returns a message descriptor by full name from the harness types, then
// from the global registry.
func Msg(full string) protoreflect.MessageDescriptor {
	if d := TypesFile().Messages().ByName(protoreflect.Name(trimPkg(full, "vf."))); d != nil && string(d.FullName()) == full {
		return d
	}
	d, err := protoregistry.GlobalFiles.FindDescriptorByName(protoreflect.FullName(full))
	if err != nil {
		panic(fmt.Sprintf("vschema: unknown message %s", full))
	}
	return d.(protoreflect.MessageDescriptor)
}

func trimPkg(s, pfx string) string {
	if len(s) > len(pfx) && s[:len(pfx)] == pfx {
		return s[len(pfx):]
	}
	return s
}

// resolver resolves the harness types file first, then global files.
type resolver struct{ extra []protoreflect.FileDescriptor }

func (r resolver) FindFileByPath(p string) (protoreflect.FileDescriptor, error) {
	if p == "vf/types.proto" {
		return TypesFile(), nil
	}
	for _, f := range r.extra {
		if f.Path() == p {
			return f, nil
		}
	}
	return protoregistry.GlobalFiles.FindFileByPath(p)
}

func (r resolver) FindDescriptorByName(n protoreflect.FullName) (protoreflect.Descriptor, error) {
	fds := append([]protoreflect.FileDescriptor{TypesFile()}, r.extra...)
	for _, fd := range fds {
		if d := findIn(fd, n); d != nil {
			return d, nil
		}
	}
	return protoregistry.GlobalFiles.FindDescriptorByName(n)
}

func findIn(fd protoreflect.FileDescriptor, n protoreflect.FullName) protoreflect.Descriptor {
	pkg := string(fd.Package())
	s := string(n)
	if len(s) <= len(pkg)+1 || s[:len(pkg)+1] != pkg+"." {
		return nil
	}
	rel := s[len(pkg)+1:]
	if d := fd.Messages().ByName(protoreflect.Name(rel)); d != nil {
		return d
	}
	if d := fd.Enums().ByName(protoreflect.Name(rel)); d != nil {
		return d
	}
	if d := fd.Services().ByName(protoreflect.Name(rel)); d != nil {
		return d
	}
	// nested one level (map entries)
	for i := 0; i < fd.Messages().Len(); i++ {
		m := fd.Messages().Get(i)
		for j := 0; j < m.Messages().Len(); j++ {
			if m.Messages().Get(j).FullName() == n {
				return m.Messages().Get(j)
			}
		}
	}
	return nil
}

// Proto renders the file as a FileDescriptorProto.
func (f *File) Proto() *descriptorpb.FileDescriptorProto {
	deps := map[string]bool{"google/api/annotations.proto": true}
	local := map[string]bool{}
	for _, m := range f.Messages {
		local[f.Pkg+"."+m.GetName()] = true
	}
	addDep := func(full string) {
		if local[full] {
			return
		}
		md := Msg(full)
		deps[md.ParentFile().Path()] = true
	}
	fdp := &descriptorpb.FileDescriptorProto{
		Name:        sp(f.Path),
		Package:     sp(f.Pkg),
		Syntax:      sp("proto3"),
		MessageType: f.Messages,
	}
	for _, s := range f.Services {
		sdp := &descriptorpb.ServiceDescriptorProto{Name: sp(s.Name)}
		for _, m := range s.Methods {
			addDep(m.In)
			addDep(m.Out)
			mdp := &descriptorpb.MethodDescriptorProto{
				Name:       sp(m.Name),
				InputType:  sp("." + m.In),
				OutputType: sp("." + m.Out),
			}
			if m.CS {
				mdp.ClientStreaming = bp(true)
			}
			if m.SS {
				mdp.ServerStreaming = bp(true)
			}
			if m.Rule != nil {
				opts := &descriptorpb.MethodOptions{}
				proto.SetExtension(opts, annotations.E_Http, m.Rule)
				mdp.Options = opts
			}
			sdp.Method = append(sdp.Method, mdp)
		}
		fdp.Service = append(fdp.Service, sdp)
	}
	for d := range deps {
		fdp.Dependency = append(fdp.Dependency, d)
	}
	sortStrings(fdp.Dependency)
	return fdp
}

func sortStrings(s []string) {
	for i := 1; i < len(s); i++ {
		for j := i; j > 0 && s[j] < s[j-1]; j-- {
			s[j], s[j-1] = s[j-1], s[j]
		}
	}
}

// Build turns the file into descriptors.
func (f *File) Build() (protoreflect.FileDescriptor, error) {
	return protodesc.NewFile(f.Proto(), resolver{})
}

// Registry returns a private protoregistry.Files holding the given files (to
// be passed to larking.FilesOption). Not safe for concurrent mutation: build
// it before any goroutine starts.
func Registry(fds ...protoreflect.FileDescriptor) (*protoregistry.Files, error) {
	reg := &protoregistry.Files{}
	for _, fd := range fds {
		if err := reg.RegisterFile(fd); err != nil {
			return nil, err
		}
	}
	return reg, nil
}

// NewMsg allocates a message for a descriptor: the generated Go type when the
// descriptor is the globally registered one, dynamicpb otherwise.
func NewMsg(md protoreflect.MessageDescriptor) proto.Message {
	if mt, err := protoregistry.GlobalTypes.FindMessageByName(md.FullName()); err == nil && mt.Descriptor() == md {
		return mt.New().Interface()
	}
	return dynamicpb.NewMessage(md)
}

// Impl is what a harness service implements.
type Impl interface {
	Unary(ctx context.Context, md protoreflect.MethodDescriptor, in proto.Message) (proto.Message, error)
	Stream(md protoreflect.MethodDescriptor, ss grpc.ServerStream) error
}

// FullMethod is "/pkg.Service/Method".
func FullMethod(md protoreflect.MethodDescriptor) string {
	return "/" + string(md.Parent().FullName()) + "/" + string(md.Name())
}

// ServiceDesc builds the grpc.ServiceDesc of a (dynamic) service. The unary
// handlers behave like generated code: decode, then call through the
// interceptor if one is given.
func ServiceDesc(sd protoreflect.ServiceDescriptor, impl Impl) *grpc.ServiceDesc {
	gsd := &grpc.ServiceDesc{
		ServiceName: string(sd.FullName()),
		HandlerType: (*interface{})(nil),
		Metadata:    sd.ParentFile().Path(),
	}
	for i := 0; i < sd.Methods().Len(); i++ {
		md := sd.Methods().Get(i)
		full := FullMethod(md)
		if md.IsStreamingClient() || md.IsStreamingServer() {
			gsd.Streams = append(gsd.Streams, grpc.StreamDesc{
				StreamName:    string(md.Name()),
				ClientStreams: md.IsStreamingClient(),
				ServerStreams: md.IsStreamingServer(),
				Handler: func(srv interface{}, ss grpc.ServerStream) error {
					return impl.Stream(md, ss)
				},
			})
			continue
		}
		gsd.Methods = append(gsd.Methods, grpc.MethodDesc{
			MethodName: string(md.Name()),
			Handler: func(srv interface{}, ctx context.Context, dec func(interface{}) error, interceptor grpc.UnaryServerInterceptor) (interface{}, error) {
				in := NewMsg(md.Input())
				if err := dec(in); err != nil {
					return nil, err
				}
				h := func(ctx context.Context, req interface{}) (interface{}, error) {
					return impl.Unary(ctx, md, req.(proto.Message))
				}
				if interceptor == nil {
					return h(ctx, in)
				}
				return interceptor(ctx, in, &grpc.UnaryServerInfo{Server: srv, FullMethod: full}, h)
			},
		})
	}
	return gsd
}

// FuncImpl adapts two functions to Impl.
type FuncImpl struct {
	U func(ctx context.Context, md protoreflect.MethodDescriptor, in proto.Message) (proto.Message, error)
	S func(md protoreflect.MethodDescriptor, ss grpc.ServerStream) error
}

func (f FuncImpl) Unary(ctx context.Context, md protoreflect.MethodDescriptor, in proto.Message) (proto.Message, error) {
	return f.U(ctx, md, in)
}
func (f FuncImpl) Stream(md protoreflect.MethodDescriptor, ss grpc.ServerStream) error {
	return f.S(md, ss)
}
