// Package backend starts tagged back-ends (shared variant of engines/proxy/be
// with an optional artificial delay on the reflection stream, used by the
// stress engine to widen RegisterConn's clone->store window): real grpc.Server instances on loopback listeners that serve
// dynamic (vschema) services and expose their descriptors through the
// v1alpha server-reflection service, which is what larking.RegisterConn
// speaks.
package backend

import (
	"fmt"
	"net"
	"strings"
	"sync/atomic"
	"time"

	"google.golang.org/grpc"
	"google.golang.org/grpc/credentials/insecure"
	"google.golang.org/grpc/reflection"
	rpb "google.golang.org/grpc/reflection/grpc_reflection_v1alpha"
	"google.golang.org/protobuf/reflect/protoreflect"
	"google.golang.org/protobuf/reflect/protoregistry"

	"verif/internal/vschema"
)

// Resolver knows vf/types.proto and the given dynamic files and falls back to
// the global registry (google/api/*, google/protobuf/*, reflection protos).
type Resolver struct {
	Files []protoreflect.FileDescriptor
	// Switch, when set, overrides Files with its current content (a
	// back-end whose descriptors change between registrations).
	Switch *atomic.Value // []protoreflect.FileDescriptor
}

func (r Resolver) all() []protoreflect.FileDescriptor {
	files := r.Files
	if r.Switch != nil {
		if v, ok := r.Switch.Load().([]protoreflect.FileDescriptor); ok && v != nil {
			files = v
		}
	}
	return append([]protoreflect.FileDescriptor{vschema.TypesFile()}, files...)
}

func (r Resolver) FindFileByPath(p string) (protoreflect.FileDescriptor, error) {
	for _, f := range r.all() {
		if f.Path() == p {
			return f, nil
		}
	}
	return protoregistry.GlobalFiles.FindFileByPath(p)
}

func find(fd protoreflect.FileDescriptor, n protoreflect.FullName) protoreflect.Descriptor {
	var inMsgs func(ms protoreflect.MessageDescriptors) protoreflect.Descriptor
	inMsgs = func(ms protoreflect.MessageDescriptors) protoreflect.Descriptor {
		for i := 0; i < ms.Len(); i++ {
			m := ms.Get(i)
			if m.FullName() == n {
				return m
			}
			for j := 0; j < m.Enums().Len(); j++ {
				if m.Enums().Get(j).FullName() == n {
					return m.Enums().Get(j)
				}
			}
			if d := inMsgs(m.Messages()); d != nil {
				return d
			}
		}
		return nil
	}
	if d := inMsgs(fd.Messages()); d != nil {
		return d
	}
	for i := 0; i < fd.Enums().Len(); i++ {
		if fd.Enums().Get(i).FullName() == n {
			return fd.Enums().Get(i)
		}
	}
	for i := 0; i < fd.Services().Len(); i++ {
		s := fd.Services().Get(i)
		if s.FullName() == n {
			return s
		}
		for j := 0; j < s.Methods().Len(); j++ {
			if s.Methods().Get(j).FullName() == n {
				return s.Methods().Get(j)
			}
		}
	}
	return nil
}

func (r Resolver) FindDescriptorByName(n protoreflect.FullName) (protoreflect.Descriptor, error) {
	for _, f := range r.all() {
		if d := find(f, n); d != nil {
			return d, nil
		}
	}
	return protoregistry.GlobalFiles.FindDescriptorByName(n)
}

// Svc is one dynamic service with its implementation.
type Svc struct {
	SD   protoreflect.ServiceDescriptor
	Impl vschema.Impl
	// Register, when set, registers a generated (non-dynamic) service
	// instead; its descriptors are found in the global registry.
	Register func(*grpc.Server)
}

// Backend is a running tagged back-end.
type Backend struct {
	Tag  string
	Addr string
	GS   *grpc.Server
	// files served by reflection can be replaced at run time
	files  atomic.Value
	listed atomic.Value
	// ReflHook, when set before a registration, is called for every request
	// received on a reflection stream (n counts from 0 per back-end).
	ReflHook atomic.Value // func(n int)
	reflN    int64
	// CC is the connection handed to larking.RegisterConn; Direct is a
	// separate connection for the harness's own direct calls.
	CC     *grpc.ClientConn
	Direct *grpc.ClientConn
	lis    net.Listener
}

func dial(addr string) (*grpc.ClientConn, error) {
	return grpc.NewClient("passthrough:///"+addr, grpc.WithTransportCredentials(insecure.NewCredentials()))
}

// Start serves the services on a loopback listener. withReflection=false
// gives a back-end that larking cannot discover (RegisterConn must fail).
func Start(tag string, withReflection bool, svcs ...Svc) (*Backend, error) {
	return StartDelayed(tag, withReflection, 0, svcs...)
}

// delayed wraps the reflection server: every message received on the
// reflection stream is answered after d (RegisterConn holds the mux's writer
// lock across these round trips).
type delayed struct {
	rpb.ServerReflectionServer
	d time.Duration
	b *Backend
}

type delayedStream struct {
	rpb.ServerReflection_ServerReflectionInfoServer
	d time.Duration
	b *Backend
}

func (s delayedStream) Recv() (*rpb.ServerReflectionRequest, error) {
	m, err := s.ServerReflection_ServerReflectionInfoServer.Recv()
	if err == nil {
		time.Sleep(s.d)
		if s.b != nil {
			if h, ok := s.b.ReflHook.Load().(func(int)); ok && h != nil {
				h(int(atomic.AddInt64(&s.b.reflN, 1) - 1))
			}
		}
	}
	return m, err
}

func (d delayed) ServerReflectionInfo(st rpb.ServerReflection_ServerReflectionInfoServer) error {
	return d.ServerReflectionServer.ServerReflectionInfo(delayedStream{st, d.d, d.b})
}

// listedServices filters what the reflection service lists.
type listedServices struct {
	gs     *grpc.Server
	filter *atomic.Value // map[string]bool; nil = everything
}

func (l listedServices) GetServiceInfo() map[string]grpc.ServiceInfo {
	all := l.gs.GetServiceInfo()
	f, _ := l.filter.Load().(map[string]bool)
	if f == nil {
		return all
	}
	out := map[string]grpc.ServiceInfo{}
	for k, v := range all {
		if f[k] || strings.HasPrefix(k, "grpc.reflection.") {
			out[k] = v
		}
	}
	return out
}

// SetListed restricts the services the reflection service lists to the given
// full names (no name: list everything again). What is served stays as is.
func (b *Backend) SetListed(names ...string) {
	if len(names) == 0 {
		b.listed.Store(map[string]bool(nil))
		return
	}
	m := map[string]bool{}
	for _, n := range names {
		m[n] = true
	}
	b.listed.Store(m)
}

// SetFiles replaces the file descriptors the back-end's reflection service
// hands out (the served implementation does not change).
func (b *Backend) SetFiles(files ...protoreflect.FileDescriptor) { b.files.Store(files) }

// StartDelayed is Start with a delay per reflection request.
func StartDelayed(tag string, withReflection bool, reflDelay time.Duration, svcs ...Svc) (*Backend, error) {
	lis, err := net.Listen("tcp", "127.0.0.1:0")
	if err != nil {
		return nil, err
	}
	gs := grpc.NewServer()
	var files []protoreflect.FileDescriptor
	seen := map[string]bool{}
	for _, s := range svcs {
		if s.Register != nil {
			s.Register(gs)
			continue
		}
		gs.RegisterService(vschema.ServiceDesc(s.SD, s.Impl), struct{}{})
		if p := s.SD.ParentFile().Path(); !seen[p] {
			seen[p] = true
			files = append(files, s.SD.ParentFile())
		}
	}
	b := &Backend{Tag: tag, Addr: lis.Addr().String(), GS: gs, lis: lis}
	if withReflection {
		rs := reflection.NewServer(reflection.ServerOptions{
			Services:           listedServices{gs, &b.listed},
			DescriptorResolver: Resolver{Files: files, Switch: &b.files},
			ExtensionResolver:  protoregistry.GlobalTypes,
		})
		rpb.RegisterServerReflectionServer(gs, delayed{rs, reflDelay, b})
	}
	go gs.Serve(lis)
	if b.CC, err = dial(b.Addr); err != nil {
		b.Close()
		return nil, fmt.Errorf("dial backend %s: %w", tag, err)
	}
	if b.Direct, err = dial(b.Addr); err != nil {
		b.Close()
		return nil, fmt.Errorf("dial backend %s: %w", tag, err)
	}
	return b, nil
}

// NewConn opens one more client connection to the back-end.
func (b *Backend) NewConn() (*grpc.ClientConn, error) { return dial(b.Addr) }

func (b *Backend) Close() {
	if b.CC != nil {
		b.CC.Close()
	}
	if b.Direct != nil {
		b.Direct.Close()
	}
	b.GS.Stop()
	b.lis.Close()
}
