// Package tmplref is an independent reference for google.api.http path
// templates: a recursive-descent parser of the grammar documented at the top
// of larking's lexer.go and a non-deterministic matcher on raw path strings
// that returns ALL assignments of variables to path text. It shares no code
// with larking's lexer or trie.
package tmplref

import (
	"fmt"
	"strings"
	"unicode"
)

type Kind int

const (
	Lit Kind = iota
	Star
	StarStar
	Var
)

type Seg struct {
	Kind  Kind
	Text  string   // literal text
	Field []string // variable field path
	Pat   []Seg    // variable pattern (Lit/Star/StarStar only when well-formed)
}

type Template struct {
	Src  string
	Segs []Seg
	Verb string
	// Flags describing grey areas of the grammar.
	NestedVar      bool // a variable inside a variable pattern
	StarStarNotEnd bool // ** somewhere else than the last position
	OneLetterLit   bool // a literal of exactly one letter
	OddLitStart    bool // a literal starting with a digit, '-', '_' or '.'
}

func isIdent(r rune) bool   { return unicode.IsLetter(r) || unicode.IsNumber(r) || r == '_' || r == '-' }
func isLiteral(r rune) bool { return isIdent(r) || r == '.' }

type parser struct {
	s   []rune
	pos int
	t   *Template
}

func (p *parser) peek() rune {
	if p.pos >= len(p.s) {
		return -1
	}
	return p.s[p.pos]
}

func (p *parser) run(ok func(rune) bool) string {
	st := p.pos
	for p.pos < len(p.s) && ok(p.s[p.pos]) {
		p.pos++
	}
	return string(p.s[st:p.pos])
}

// Parse parses a template. The error is non-nil when the text is outside the
// documented grammar:
//
//	Template = "/" Segments [ ":" LITERAL ]
//	Segments = Segment { "/" Segment }
//	Segment  = "*" | "**" | LITERAL | "{" FieldPath [ "=" Segments ] "}"
//
// LITERAL starts with a letter inside Segments.
func Parse(src string) (*Template, error) {
	p := &parser{s: []rune(src), t: &Template{Src: src}}
	if p.peek() != '/' {
		return nil, fmt.Errorf("template must start with /")
	}
	p.pos++
	segs, err := p.segments(0)
	if err != nil {
		return nil, err
	}
	p.t.Segs = segs
	switch p.peek() {
	case ':':
		p.pos++
		v := p.run(isLiteral)
		if v == "" {
			return nil, fmt.Errorf("empty verb")
		}
		if p.pos != len(p.s) {
			return nil, fmt.Errorf("trailing text after verb")
		}
		p.t.Verb = v
	case -1:
	default:
		return nil, fmt.Errorf("unexpected %q at %d", p.peek(), p.pos)
	}
	flat := p.t.Flat()
	for i, s := range flat {
		if s.Kind == StarStar && i != len(flat)-1 {
			p.t.StarStarNotEnd = true
		}
	}
	return p.t, nil
}

func (p *parser) segments(depth int) ([]Seg, error) {
	var out []Seg
	for {
		s, err := p.segment(depth)
		if err != nil {
			return nil, err
		}
		out = append(out, s)
		if p.peek() != '/' {
			return out, nil
		}
		p.pos++
	}
}

func (p *parser) segment(depth int) (Seg, error) {
	r := p.peek()
	switch {
	case r == '*':
		p.pos++
		if p.peek() == '*' {
			p.pos++
			return Seg{Kind: StarStar}, nil
		}
		return Seg{Kind: Star}, nil
	case r == '{':
		p.pos++
		if depth > 0 {
			p.t.NestedVar = true
		}
		var field []string
		for {
			id := p.run(isIdent)
			if id == "" {
				return Seg{}, fmt.Errorf("empty identifier at %d", p.pos)
			}
			field = append(field, id)
			if p.peek() != '.' {
				break
			}
			p.pos++
		}
		s := Seg{Kind: Var, Field: field, Pat: []Seg{{Kind: Star}}}
		if p.peek() == '=' {
			p.pos++
			pat, err := p.segments(depth + 1)
			if err != nil {
				return Seg{}, err
			}
			s.Pat = pat
		}
		if p.peek() != '}' {
			return Seg{}, fmt.Errorf("expected } at %d", p.pos)
		}
		p.pos++
		return s, nil
	case r != -1 && isLiteral(r):
		// The documented LITERAL alphabet includes digits, '-', '_' and '.';
		// whether a literal may START with one of them is unspecified.
		if !unicode.IsLetter(r) {
			p.t.OddLitStart = true
		}
		l := p.run(isLiteral)
		if len([]rune(l)) == 1 {
			p.t.OneLetterLit = true
		}
		return Seg{Kind: Lit, Text: l}, nil
	default:
		return Seg{}, fmt.Errorf("unexpected %q at %d", r, p.pos)
	}
}

// Flat lists the path-level segment kinds with variables expanded.
func (t *Template) Flat() []Seg {
	var out []Seg
	var walk func(ss []Seg)
	walk = func(ss []Seg) {
		for _, s := range ss {
			if s.Kind == Var {
				walk(s.Pat)
			} else {
				out = append(out, s)
			}
		}
	}
	walk(t.Segs)
	return out
}

// Vars returns the field paths bound by the template, in order.
func (t *Template) Vars() [][]string {
	var out [][]string
	for _, s := range t.Segs {
		if s.Kind == Var {
			out = append(out, s.Field)
		}
	}
	return out
}

// PatText renders a variable pattern (or any segment list) back to text.
func PatText(ss []Seg) string {
	var parts []string
	for _, s := range ss {
		switch s.Kind {
		case Lit:
			parts = append(parts, s.Text)
		case Star:
			parts = append(parts, "*")
		case StarStar:
			parts = append(parts, "**")
		case Var:
			parts = append(parts, "{"+strings.Join(s.Field, ".")+"="+PatText(s.Pat)+"}")
		}
	}
	return strings.Join(parts, "/")
}

// EdgeKeys gives the trie-independent edge sequence used for the
// literal-over-wildcard precedence rule: a literal is "L:text", a wildcard
// or variable is "W:pattern text".
func (t *Template) EdgeKeys() []string {
	var out []string
	for _, s := range t.Segs {
		switch s.Kind {
		case Lit:
			out = append(out, "L:"+s.Text)
		case Star:
			out = append(out, "W:*")
		case StarStar:
			out = append(out, "W:**")
		case Var:
			out = append(out, "W:"+PatText(s.Pat))
		}
	}
	if t.Verb != "" {
		out = append(out, "L::"+t.Verb)
	}
	return out
}

// Shape is a coarse structural class of the template for evidence/finding keys.
func (t *Template) Shape() string {
	var parts []string
	for _, s := range t.Segs {
		switch s.Kind {
		case Lit:
			parts = append(parts, "lit")
		case Star:
			parts = append(parts, "*")
		case StarStar:
			parts = append(parts, "**")
		case Var:
			var pp []string
			for _, q := range s.Pat {
				switch q.Kind {
				case Lit:
					pp = append(pp, "lit")
				case Star:
					pp = append(pp, "*")
				case StarStar:
					pp = append(pp, "**")
				case Var:
					pp = append(pp, "var")
				}
			}
			parts = append(parts, "var("+strings.Join(pp, "/")+")")
		}
	}
	sh := strings.Join(parts, "/")
	if t.Verb != "" {
		sh += "+verb"
	}
	return sh
}

// Assignment maps the dotted field path of each variable to the path text it
// covers.
type Assignment map[string]string

// Mode selects the matching relation.
type Mode int

const (
	// Permissive is the widest reading: used for "may dispatch" (soundness).
	Permissive Mode = iota
	// Strict is the narrowest reading: used for "must dispatch" (completeness).
	Strict
)

func isPathRune(r rune) bool {
	return isLiteral(r) || strings.ContainsRune("~!$&'()*+,;=@", r)
}

// TokenCount is the number of lexer tokens larking documents for a request
// path: one per '/', one per segment, one per ':' and text after it, plus EOF.
func TokenCount(path string) int {
	n := 1
	for _, seg := range strings.Split(strings.TrimPrefix(path, "/"), "/") {
		n += 2
		n += 2 * strings.Count(seg, ":")
	}
	return n
}

// Match returns all assignments under which the template matches the path.
// A nil result means no match; a template without variables that matches
// returns one empty assignment.
func (t *Template) Match(path string, mode Mode) []Assignment {
	if !strings.HasPrefix(path, "/") {
		return nil
	}
	rest := path
	if t.Verb != "" {
		suf := ":" + t.Verb
		if !strings.HasSuffix(rest, suf) {
			return nil
		}
		rest = strings.TrimSuffix(rest, suf)
	}
	segs := strings.Split(rest[1:], "/")
	for _, s := range segs {
		if s == "" {
			return nil
		}
		if mode == Strict {
			if strings.Contains(s, ":") {
				return nil
			}
			for _, r := range s {
				if !isPathRune(r) {
					return nil
				}
			}
		}
	}
	if mode == Strict {
		if t.StarStarNotEnd || t.NestedVar || t.OddLitStart || TokenCount(path) > 64 {
			return nil
		}
	}
	var out []Assignment
	var rec func(ts []Seg, i int, cur Assignment)
	// matchPat matches a flat pattern (list of Lit/Star/StarStar) starting at
	// segment i and calls k with every possible end index.
	var matchPat func(pat []Seg, i int, k func(end int))
	matchPat = func(pat []Seg, i int, k func(end int)) {
		if len(pat) == 0 {
			k(i)
			return
		}
		switch pat[0].Kind {
		case Lit:
			if i < len(segs) && segs[i] == pat[0].Text {
				matchPat(pat[1:], i+1, k)
			}
		case Star:
			if i < len(segs) {
				matchPat(pat[1:], i+1, k)
			}
		case StarStar:
			min := 0
			if mode == Strict {
				min = 1
			}
			for e := i + min; e <= len(segs); e++ {
				matchPat(pat[1:], e, k)
			}
		case Var:
			// nested variable: treat as its pattern (permissive only)
			matchPat(append(append([]Seg{}, pat[0].Pat...), pat[1:]...), i, k)
		}
	}
	rec = func(ts []Seg, i int, cur Assignment) {
		if len(ts) == 0 {
			if i == len(segs) {
				cp := Assignment{}
				for k, v := range cur {
					cp[k] = v
				}
				out = append(out, cp)
			}
			return
		}
		s := ts[0]
		if s.Kind != Var {
			matchPat([]Seg{s}, i, func(end int) { rec(ts[1:], end, cur) })
			return
		}
		matchPat(s.Pat, i, func(end int) {
			key := strings.Join(s.Field, ".")
			old, had := cur[key]
			cur[key] = strings.Join(segs[i:end], "/")
			rec(ts[1:], end, cur)
			if had {
				cur[key] = old
			} else {
				delete(cur, key)
			}
		})
	}
	rec(t.Segs, 0, Assignment{})
	return out
}
