package mon

import (
	"fmt"
	"regexp"
	"runtime"
	"strings"
	"time"
)

// PanicInfo describes a recovered panic.
type PanicInfo struct {
	Value string `json:"value"`
	Frame string `json:"frame"` // top larking frame, or top non-runtime frame
	Stack string `json:"stack"`
}

var (
	reDigits = regexp.MustCompile(`[0-9]+`)
	reHex    = regexp.MustCompile(`0x[0-9a-fA-F]+`)
	reQuoted = regexp.MustCompile(`"[^"]*"`)
	reQName  = regexp.MustCompile(`[A-Za-z_][A-Za-z0-9_]*(\.[A-Za-z_][A-Za-z0-9_]*)+`)
)

// NormMsg normalises a panic / error message into a class: digits, addresses
// and quoted text are removed and the text is cut after a few words.
func NormMsg(s string) string {
	s = reHex.ReplaceAllString(s, "X")
	s = reQuoted.ReplaceAllString(s, "Q")
	s = reQName.ReplaceAllString(s, "ID")
	s = reDigits.ReplaceAllString(s, "N")
	f := strings.Fields(s)
	if len(f) > 8 {
		f = f[:8]
	}
	return strings.Join(f, "-")
}

// Key is the finding key of a panic: top larking function + message class.
func (p *PanicInfo) Key() string {
	return "panic@" + p.Frame + ":" + NormMsg(p.Value)
}

func topFrame() (string, string) {
	pcs := make([]uintptr, 64)
	n := runtime.Callers(3, pcs)
	frames := runtime.CallersFrames(pcs[:n])
	var first, lark string
	var sb strings.Builder
	seenPanic := false
	for {
		fr, more := frames.Next()
		fn := fr.Function
		if fn == "runtime.gopanic" || strings.HasPrefix(fn, "runtime.panic") || fn == "runtime.goPanicIndex" || fn == "runtime.sigpanic" {
			seenPanic = true
		} else if seenPanic || !strings.HasPrefix(fn, "runtime.") {
			if first == "" && !strings.HasPrefix(fn, "runtime.") {
				first = fn
			}
			if lark == "" && strings.HasPrefix(fn, "larking.io/") {
				lark = strings.TrimPrefix(fn, "larking.io/")
			}
		}
		fmt.Fprintf(&sb, "%s\n\t%s:%d\n", fn, fr.File, fr.Line)
		if !more {
			break
		}
	}
	if lark == "" {
		lark = first
	}
	// strip closure suffixes such as .func1
	return lark, sb.String()
}

// Catch runs f and converts a panic into a PanicInfo.
func Catch(f func()) (pi *PanicInfo) {
	defer func() {
		if v := recover(); v != nil {
			fr, st := topFrame()
			pi = &PanicInfo{Value: fmt.Sprint(v), Frame: fr, Stack: st}
		}
	}()
	f()
	return nil
}

// Timed runs f in its own goroutine guarded by recover and a watchdog. It
// returns done=false and a goroutine dump if f has not returned after d.
func Timed(d time.Duration, f func()) (done bool, pi *PanicInfo, dump string) {
	ch := make(chan *PanicInfo, 1)
	go func() {
		ch <- Catch(f)
	}()
	t := time.NewTimer(d)
	defer t.Stop()
	select {
	case pi = <-ch:
		return true, pi, ""
	case <-t.C:
		buf := make([]byte, 1<<20)
		n := runtime.Stack(buf, true)
		return false, nil, string(buf[:n])
	}
}
