// Package mon is the monitor runtime shared by all engines: counters of what
// a run observed, three-valued verdicts, known findings, replay files and the
// evidence file.
package mon

import (
	"crypto/sha256"
	"encoding/hex"
	"encoding/json"
	"fmt"
	"hash/fnv"
	"math/rand"
	"os"
	"path/filepath"
	"sort"
	"strconv"
	"strings"
	"sync"
	"time"
)

// Home is the /verif directory (evidence, known findings).
func Home() string {
	if h := os.Getenv("VERIF_HOME"); h != "" {
		return h
	}
	return "/verif"
}

type Violation struct {
	Key    string `json:"key"`
	What   string `json:"what"`
	Case   any    `json:"case,omitempty"`
	Count  int    `json:"count"`
	Replay string `json:"replay,omitempty"`
	Known  bool   `json:"known,omitempty"`
}

type Finding struct {
	Property string `json:"property"`
	Key      string `json:"key"`
	What     string `json:"what"`
	Example  any    `json:"example,omitempty"`
}

type knownFile struct {
	Findings []Finding `json:"findings"`
	Fixed    []string  `json:"fixed"`
}

// Run accumulates what one check run observed.
type Run struct {
	Prop   string
	Engine string
	Tier   string
	Seed   int64
	Level  string
	Rule   string
	// Floor is the minimum number of distinct non-trivial observations below
	// which the run is inconclusive instead of "held".
	Floor int

	mu           sync.Mutex
	evals        int64
	distinct     map[string]int64
	samples      []any
	maxSamples   int
	viol         map[string]*Violation
	violOrder    []string
	extra        map[string]any
	counters     map[string]int64
	assumptions  []string
	inconclusive []string
	known        []Finding
	start        time.Time
	ReplayMode   bool
}

func envInt(name string, def int64) int64 {
	if v := os.Getenv(name); v != "" {
		if n, err := strconv.ParseInt(v, 10, 64); err == nil {
			return n
		}
	}
	return def
}

// New creates a run for a property. tier may be "" to take VERIF_TIER.
func New(prop, engine, level, tier string) *Run {
	if tier == "" {
		tier = os.Getenv("VERIF_TIER")
	}
	if tier != "thorough" {
		tier = "quick"
	}
	r := &Run{
		Prop:       prop,
		Engine:     engine,
		Tier:       tier,
		Seed:       envInt("VERIF_SEED", 1),
		Level:      level,
		Floor:      2,
		distinct:   map[string]int64{},
		viol:       map[string]*Violation{},
		extra:      map[string]any{},
		counters:   map[string]int64{},
		maxSamples: 6,
		start:      time.Now(),
	}
	var kf knownFile
	if b, err := os.ReadFile(filepath.Join(Home(), "known_findings.json")); err == nil {
		if err := json.Unmarshal(b, &kf); err != nil {
			r.Inconclusive("known_findings.json unreadable: " + err.Error())
		}
	}
	for _, f := range kf.Findings {
		if f.Property == prop {
			r.known = append(r.known, f)
		}
	}
	return r
}

func (r *Run) Thorough() bool { return r.Tier == "thorough" }

// Pick returns q on the quick tier and t on the thorough tier.
func (r *Run) Pick(q, t int) int {
	if r.Thorough() {
		return t
	}
	return q
}

// Rand returns a PRNG determined by (seed, stream name).
func (r *Run) Rand(stream string) *rand.Rand {
	h := fnv.New64a()
	h.Write([]byte(stream))
	return rand.New(rand.NewSource(r.Seed*1000003 + int64(h.Sum64()>>1)))
}

// Eval counts executions.
func (r *Run) Eval(n int) {
	r.mu.Lock()
	r.evals += int64(n)
	r.mu.Unlock()
}

// Distinct records one non-trivial observation under its shape key.
func (r *Run) Distinct(key string) {
	r.mu.Lock()
	r.distinct[key]++
	r.mu.Unlock()
}

// Count bumps a named counter reported in coverage.
func (r *Run) Count(name string, n int) {
	r.mu.Lock()
	r.counters[name] += int64(n)
	r.mu.Unlock()
}

func (r *Run) Counter(name string) int64 {
	r.mu.Lock()
	defer r.mu.Unlock()
	return r.counters[name]
}

// Sample keeps a few of the explored cases for the evidence file.
func (r *Run) Sample(v any) {
	r.mu.Lock()
	if len(r.samples) < r.maxSamples {
		r.samples = append(r.samples, v)
	}
	r.mu.Unlock()
}

// SampleN reports how many samples are kept so far.
func (r *Run) SampleN() int {
	r.mu.Lock()
	defer r.mu.Unlock()
	return len(r.samples)
}

func (r *Run) Set(k string, v any) {
	r.mu.Lock()
	r.extra[k] = v
	r.mu.Unlock()
}

func (r *Run) Assume(s string) {
	r.mu.Lock()
	r.assumptions = append(r.assumptions, s)
	r.mu.Unlock()
}

func (r *Run) Inconclusive(why string) {
	r.mu.Lock()
	if len(r.inconclusive) < 20 {
		r.inconclusive = append(r.inconclusive, why)
	}
	r.mu.Unlock()
}

// Violate records a violation. key identifies the structural class of the
// failing case; the first case per key is kept for the replay file.
func (r *Run) Violate(key, what string, c any) {
	r.mu.Lock()
	defer r.mu.Unlock()
	if v, ok := r.viol[key]; ok {
		v.Count++
		return
	}
	r.viol[key] = &Violation{Key: key, What: what, Case: c, Count: 1}
	r.violOrder = append(r.violOrder, key)
}

// Violations returns the number of distinct violation keys so far.
func (r *Run) Violations() int {
	r.mu.Lock()
	defer r.mu.Unlock()
	return len(r.viol)
}

func (r *Run) isKnown(key string) (Finding, bool) {
	for _, f := range r.known {
		if f.Key == key {
			return f, true
		}
	}
	return Finding{}, false
}

func keyHash(s string) string {
	h := sha256.Sum256([]byte(s))
	return hex.EncodeToString(h[:5])
}

// Finish writes replay files and the evidence file, prints the verdict lines
// and returns the process exit code (0 held, 1 violated, 4 inconclusive; bin/check maps 4 to 2, since 2 is what the Go runtime uses for fatal errors).
func (r *Run) Finish() int {
	r.mu.Lock()
	defer r.mu.Unlock()
	home := Home()
	evdir := filepath.Join(home, "evidence")
	rpdir := filepath.Join(evdir, "replay")
	os.MkdirAll(rpdir, 0o755)

	unknown := 0
	keys := append([]string(nil), r.violOrder...)
	sort.Strings(keys)
	var vlist []*Violation
	for _, k := range keys {
		v := r.viol[k]
		vlist = append(vlist, v)
		if f, ok := r.isKnown(k); ok {
			v.Known = true
			fmt.Printf("KNOWN-FINDING: property=%s %s [key=%s seen=%d]\n", r.Prop, oneLine(f.What), k, v.Count)
			continue
		}
		unknown++
		if r.ReplayMode {
			fmt.Printf("VIOLATION property=%s replay=(replayed) key=%s %s\n", r.Prop, k, oneLine(v.What))
			continue
		}
		path := filepath.Join(rpdir, fmt.Sprintf("%s-%s.json", r.Prop, keyHash(k)))
		v.Replay = path
		doc := map[string]any{
			"property": r.Prop, "engine": r.Engine, "seed": r.Seed, "tier": r.Tier,
			"key": k, "what": v.What, "count": v.Count, "case": v.Case,
		}
		b, err := json.MarshalIndent(doc, "", " ")
		if err != nil {
			b, _ = json.MarshalIndent(map[string]any{"property": r.Prop, "key": k, "what": v.What, "case": fmt.Sprintf("%+v", v.Case)}, "", " ")
		}
		os.WriteFile(path, b, 0o644)
		fmt.Printf("VIOLATION property=%s replay=%s key=%s %s\n", r.Prop, path, k, oneLine(v.What))
	}

	nd := len(r.distinct)
	if nd < r.Floor && unknown == 0 {
		r.inconclusive = append(r.inconclusive, fmt.Sprintf("observation floor not met: %d distinct non-trivial observations < %d", nd, r.Floor))
	}

	if !r.ReplayMode {
		cov := map[string]any{
			"evaluations":         r.evals,
			"distinct_nontrivial": nd,
			"rule":                r.Rule,
			"samples":             r.samples,
		}
		if len(r.samples) == 0 {
			cov["samples"] = []any{}
		}
		for k, v := range r.counters {
			cov[k] = v
		}
		for k, v := range r.extra {
			cov[k] = v
		}
		if len(vlist) > 0 {
			type vsum struct {
				Key   string `json:"key"`
				What  string `json:"what"`
				Count int    `json:"count"`
				Known bool   `json:"known"`
			}
			var vs []vsum
			for _, v := range vlist {
				vs = append(vs, vsum{v.Key, v.What, v.Count, v.Known})
			}
			cov["violation_keys"] = vs
		}
		if len(r.inconclusive) > 0 {
			cov["inconclusive"] = r.inconclusive
		}
		ev := map[string]any{
			"property_id": r.Prop,
			"tier":        r.Tier,
			"seed":        r.Seed,
			"level":       r.Level,
			"coverage":    cov,
			"assumptions": append([]string{}, r.assumptions...),
			"wall_s":      float64(int(time.Since(r.start).Seconds()*100)) / 100,
			"violations":  unknown,
		}
		b, err := json.MarshalIndent(ev, "", " ")
		if err != nil {
			fmt.Printf("evidence marshal error: %v\n", err)
			delete(cov, "samples")
			cov["samples"] = []any{fmt.Sprintf("%+v", r.samples)}
			b, _ = json.MarshalIndent(ev, "", " ")
		}
		tmp := filepath.Join(evdir, r.Prop+".json.tmp")
		os.WriteFile(tmp, b, 0o644)
		os.Rename(tmp, filepath.Join(evdir, r.Prop+".json"))
	}

	fmt.Printf("SUMMARY property=%s tier=%s seed=%d evaluations=%d distinct_nontrivial=%d violations=%d known=%d wall=%.1fs\n",
		r.Prop, r.Tier, r.Seed, r.evals, nd, unknown, len(vlist)-unknown, time.Since(r.start).Seconds())
	ckeys := make([]string, 0, len(r.counters))
	for k := range r.counters {
		ckeys = append(ckeys, k)
	}
	sort.Strings(ckeys)
	for _, k := range ckeys {
		fmt.Printf("  observed %s=%d\n", k, r.counters[k])
	}
	if unknown > 0 {
		return 1
	}
	if len(r.inconclusive) > 0 {
		for _, s := range r.inconclusive {
			fmt.Printf("INCONCLUSIVE property=%s %s\n", r.Prop, oneLine(s))
		}
		return 4
	}
	return 0
}

func oneLine(s string) string {
	s = strings.ReplaceAll(s, "\n", " ")
	if len(s) > 300 {
		s = strings.ToValidUTF8(s[:300], "") + "..."
	}
	return s
}
