// Package svc provides a standard dynamic service ("vf.std.Std") with every
// streaming shape and a representative set of HTTP rules, for engines that do
// not need generated rule sets. Behaviour is supplied by the engine through
// vschema.Impl.
package svc

import (
	"google.golang.org/genproto/googleapis/api/annotations"
	"google.golang.org/protobuf/reflect/protoreflect"
	"larking.io/larking"

	"verif/internal/vschema"
)

func get(p string) *annotations.HttpRule {
	return &annotations.HttpRule{Pattern: &annotations.HttpRule_Get{Get: p}}
}
func post(p, body string) *annotations.HttpRule {
	return &annotations.HttpRule{Pattern: &annotations.HttpRule_Post{Post: p}, Body: body}
}
func patch(p, body string) *annotations.HttpRule {
	return &annotations.HttpRule{Pattern: &annotations.HttpRule_Patch{Patch: p}, Body: body}
}
func custom(kind, p, body string) *annotations.HttpRule {
	return &annotations.HttpRule{Pattern: &annotations.HttpRule_Custom{Custom: &annotations.CustomHttpPattern{Kind: kind, Path: p}}, Body: body}
}
func with(r *annotations.HttpRule, adds ...*annotations.HttpRule) *annotations.HttpRule {
	r.AdditionalBindings = adds
	return r
}

// StdFile describes the standard service. pkg lets several instances coexist
// (e.g. "vf.std", "vf.std2"); paths are prefixed with prefix (e.g. "/v1").
//
//	Unary(Req) Rsp            POST {p}/unary body:*   | GET {p}/unary/{a} | GET {p}/items/{a}/{n}
//	UnarySub(Req) Rsp         PATCH {p}/sub/{a} body:sub
//	Echo(Chunk) Chunk         POST {p}/echo body:*    | GET {p}/echo/{id}
//	CS(stream Chunk) Chunk    POST {p}/cs body:*
//	SS(Chunk) stream Chunk    POST {p}/ss body:*      | GET {p}/ss/{id}
//	Bidi(stream Chunk) stream Chunk  POST {p}/bidi body:* | WEBSOCKET {p}/ws/{id} body:*
//	Upload(stream Upload) Rsp POST {p}/upload/{name} body:file
//	UploadU(Upload) Rsp       POST {p}/uploadu/{name} body:file
//	Download(Req) stream HttpBody  GET {p}/download/{a}
//	DownloadU(Req) HttpBody   GET {p}/downloadu/{a}
func StdFile(pkg, path, p string) *vschema.File {
	return &vschema.File{Path: path, Pkg: pkg, Services: []vschema.Service{{Name: "Std", Methods: []vschema.Method{
		{Name: "Unary", In: "vf.Req", Out: "vf.Rsp", Rule: with(post(p+"/unary", "*"), get(p+"/unary/{a}"), get(p+"/items/{a}/{n}"))},
		{Name: "UnarySub", In: "vf.Req", Out: "vf.Rsp", Rule: patch(p+"/sub/{a}", "sub")},
		{Name: "Echo", In: "vf.Chunk", Out: "vf.Chunk", Rule: with(post(p+"/echo", "*"), get(p+"/echo/{id}"))},
		{Name: "CS", In: "vf.Chunk", Out: "vf.Chunk", CS: true, Rule: post(p+"/cs", "*")},
		{Name: "SS", In: "vf.Chunk", Out: "vf.Chunk", SS: true, Rule: with(post(p+"/ss", "*"), get(p+"/ss/{id}"))},
		{Name: "Bidi", In: "vf.Chunk", Out: "vf.Chunk", CS: true, SS: true, Rule: with(post(p+"/bidi", "*"), custom("websocket", p+"/ws/{id}", "*"))},
		{Name: "Upload", In: "vf.Upload", Out: "vf.Rsp", CS: true, Rule: post(p+"/upload/{name}", "file")},
		{Name: "UploadU", In: "vf.Upload", Out: "vf.Rsp", Rule: post(p+"/uploadu/{name}", "file")},
		{Name: "Download", In: "vf.Req", Out: "google.api.HttpBody", SS: true, Rule: get(p + "/download/{a}")},
		{Name: "DownloadU", In: "vf.Req", Out: "google.api.HttpBody", Rule: get(p + "/downloadu/{a}")},
	}}}}
}

// Std is a built standard service.
type Std struct {
	FD  protoreflect.FileDescriptor
	SD  protoreflect.ServiceDescriptor
	Pkg string
}

func (s *Std) Full(method string) string { return "/" + s.Pkg + ".Std/" + method }

func (s *Std) MD(method string) protoreflect.MethodDescriptor {
	return s.SD.Methods().ByName(protoreflect.Name(method))
}

// BuildStd builds the descriptors of a standard service instance.
func BuildStd(pkg, path, prefix string) (*Std, error) {
	fd, err := StdFile(pkg, path, prefix).Build()
	if err != nil {
		return nil, err
	}
	return &Std{FD: fd, SD: fd.Services().ByName("Std"), Pkg: pkg}, nil
}

// NewMux registers the standard service, implemented by impl, on a new mux.
func (s *Std) NewMux(impl vschema.Impl, opts ...larking.MuxOption) (*larking.Mux, error) {
	reg, err := vschema.Registry(s.FD)
	if err != nil {
		return nil, err
	}
	opts = append([]larking.MuxOption{larking.FilesOption(reg)}, opts...)
	mux, err := larking.NewMux(opts...)
	if err != nil {
		return nil, err
	}
	if err := larking.VerifRegisterService(mux, vschema.ServiceDesc(s.SD, impl), struct{}{}); err != nil {
		return nil, err
	}
	return mux, nil
}
