// Package textref is the reference for "URL text -> proto value": the value a
// field gets from text T is what protojson makes of {"f":T} or {"f":"T"} (the
// proto3 JSON text form). String fields take the text verbatim.
package textref

import (
	"encoding/json"
	"fmt"
	"strings"

	"google.golang.org/protobuf/encoding/protojson"
	"google.golang.org/protobuf/proto"
	"google.golang.org/protobuf/reflect/protoreflect"
)

// Resolve walks a dotted path (proto names or JSON names) from a message
// descriptor. It returns nil if the path does not resolve or passes through a
// repeated, map or non-message field.
func Resolve(md protoreflect.MessageDescriptor, path []string) []protoreflect.FieldDescriptor {
	var out []protoreflect.FieldDescriptor
	for i, name := range path {
		fd := md.Fields().ByJSONName(name)
		if fd == nil {
			fd = md.Fields().ByName(protoreflect.Name(name))
		}
		if fd == nil {
			return nil
		}
		out = append(out, fd)
		if i != len(path)-1 {
			if fd.Message() == nil || fd.IsList() || fd.IsMap() {
				return nil
			}
			md = fd.Message()
		}
	}
	return out
}

// Apply sets (or, for repeated fields, appends to) the field reached by fds
// in msg to the value denoted by text. It returns an error when the text is
// not valid for the field's type under proto3 JSON.
func Apply(msg protoreflect.Message, fds []protoreflect.FieldDescriptor, text string) error {
	if len(fds) == 0 {
		return fmt.Errorf("empty field path")
	}
	cur := msg
	for _, fd := range fds[:len(fds)-1] {
		cur = cur.Mutable(fd).Message()
	}
	fd := fds[len(fds)-1]
	if fd.IsMap() {
		return fmt.Errorf("map field")
	}
	if fd.Kind() == protoreflect.StringKind {
		v := protoreflect.ValueOfString(text)
		if fd.IsList() {
			cur.Mutable(fd).List().Append(v)
		} else {
			cur.Set(fd, v)
		}
		return nil
	}
	try := func(js string) error {
		fresh := cur.New()
		if fd.IsList() {
			js = "[" + js + "]"
		}
		name, _ := json.Marshal(fd.JSONName())
		body := "{" + string(name) + ":" + js + "}"
		if err := protojson.Unmarshal([]byte(body), fresh.Interface()); err != nil {
			return err
		}
		if fd.IsList() {
			l := fresh.Get(fd).List()
			if l.Len() != 1 {
				return fmt.Errorf("list form produced %d values", l.Len())
			}
			cur.Mutable(fd).List().Append(l.Get(0))
			return nil
		}
		if !fresh.Has(fd) {
			// default value / null: clear
			cur.Clear(fd)
			return nil
		}
		cur.Set(fd, fresh.Get(fd))
		return nil
	}
	var rawErr error = fmt.Errorf("not a JSON scalar")
	t := strings.TrimSpace(text)
	if json.Valid([]byte(text)) && t != "" && t[0] != '{' && t[0] != '[' && t[0] != '"' {
		if rawErr = try(text); rawErr == nil {
			return nil
		}
	}
	q, _ := json.Marshal(text)
	if err := try(string(q)); err != nil {
		return fmt.Errorf("raw: %v; quoted: %v", rawErr, err)
	}
	return nil
}

// Build creates a message of type md with exactly the given assignments
// (dotted field path -> text). It reports an error if a path does not resolve
// or a text is invalid.
func Build(newMsg func() proto.Message, md protoreflect.MessageDescriptor, assign map[string]string, order []string) (proto.Message, error) {
	m := newMsg()
	keys := order
	if keys == nil {
		for k := range assign {
			keys = append(keys, k)
		}
	}
	for _, k := range keys {
		fds := Resolve(md, strings.Split(k, "."))
		if fds == nil {
			return nil, fmt.Errorf("unresolved field path %q", k)
		}
		if err := Apply(m.ProtoReflect(), fds, assign[k]); err != nil {
			return nil, fmt.Errorf("%s=%q: %w", k, assign[k], err)
		}
	}
	return m, nil
}
