//go:build verif

package wire_test

import (
	"bytes"
	"context"
	"io"
	"net/http"
	"testing"
	"time"

	"github.com/gobwas/ws/wsutil"
	"google.golang.org/grpc"
	"google.golang.org/grpc/codes"
	"google.golang.org/grpc/status"
	"google.golang.org/protobuf/proto"
	"google.golang.org/protobuf/reflect/protoreflect"

	"verif/internal/svc"
	"verif/internal/vschema"
	"verif/internal/wire"
)

func chunk(id string, seq int32) proto.Message {
	m := vschema.NewMsg(vschema.Msg("vf.Chunk"))
	r := m.ProtoReflect()
	r.Set(r.Descriptor().Fields().ByName("id"), protoreflect.ValueOfString(id))
	r.Set(r.Descriptor().Fields().ByName("seq"), protoreflect.ValueOfInt32(seq))
	return m
}

func TestSmoke(t *testing.T) {
	std, err := svc.BuildStd("vf.std", "vf/std.proto", "/v1")
	if err != nil {
		t.Fatal(err)
	}
	impl := vschema.FuncImpl{
		U: func(ctx context.Context, md protoreflect.MethodDescriptor, in proto.Message) (proto.Message, error) {
			if md.Name() == "Echo" {
				return in, nil
			}
			return nil, status.Error(codes.NotFound, "nope 50% done")
		},
		S: func(md protoreflect.MethodDescriptor, ss grpc.ServerStream) error {
			for {
				in := vschema.NewMsg(md.Input())
				if err := ss.RecvMsg(in); err != nil {
					if err == io.EOF {
						return nil
					}
					return err
				}
				if err := ss.SendMsg(in); err != nil {
					return err
				}
			}
		},
	}
	mux, err := std.NewMux(impl)
	if err != nil {
		t.Fatal(err)
	}
	// in-process HTTP
	r := wire.Serve(mux, wire.BodyRequest("POST", "/v1/echo", "", http.Header{"Content-Type": {"application/json"}}, []byte(`{"id":"x","seq":3}`)))
	if r.Code != 200 || !bytes.Contains(r.Body, []byte(`"x"`)) {
		t.Fatalf("http: %d %s", r.Code, r.Body)
	}
	// in-process gRPC
	b, _ := proto.Marshal(chunk("g", 1))
	r = wire.Serve(mux, wire.GRPCRequest(std.Full("Echo"), nil, bytes.NewReader(wire.Frame(b, false))))
	code, _, _, ok := r.GRPCStatus()
	fr, _ := wire.ParseFrames(r.Body)
	if !ok || code != 0 || len(fr) != 1 {
		t.Fatalf("grpc inproc: %v %v %d %v %v", ok, code, len(fr), r.Header, r.Trailer)
	}
	// in-process gRPC-web text
	r = wire.Serve(mux, wire.WebRequest(std.Full("Unary"), nil, wire.Frame(nil, false), true, ""))
	wr := wire.DecodeWeb(r.Body, true)
	t.Logf("web-text: code=%d hdr=%v trailer=%v err=%v rest=%d", r.Code, r.Header, wr.Trailer, wr.DecodeErr, len(wr.Rest))

	// real server
	srv, err := wire.StartLarking(mux, wire.Frag(3))
	if err != nil {
		t.Fatal(err)
	}
	defer srv.Close()
	cc, err := wire.Dial(srv.Addr)
	if err != nil {
		t.Fatal(err)
	}
	defer cc.Close()
	ctx, cancel := context.WithTimeout(context.Background(), 10*time.Second)
	defer cancel()
	out := vschema.NewMsg(vschema.Msg("vf.Chunk"))
	if err := cc.Invoke(ctx, std.Full("Echo"), chunk("real", 7), out); err != nil {
		t.Fatal(err)
	}
	if !proto.Equal(out, chunk("real", 7)) {
		t.Fatalf("echo mismatch %v", out)
	}
	err = cc.Invoke(ctx, std.Full("Unary"), vschema.NewMsg(vschema.Msg("vf.Req")), vschema.NewMsg(vschema.Msg("vf.Rsp")))
	t.Logf("grpc error: %v", err)
	// bidi over grpc
	st, err := cc.NewStream(ctx, &grpc.StreamDesc{ClientStreams: true, ServerStreams: true}, std.Full("Bidi"))
	if err != nil {
		t.Fatal(err)
	}
	for i := 0; i < 3; i++ {
		if err := st.SendMsg(chunk("b", int32(i))); err != nil {
			t.Fatal(err)
		}
		o := vschema.NewMsg(vschema.Msg("vf.Chunk"))
		if err := st.RecvMsg(o); err != nil {
			t.Fatal(err)
		}
	}
	st.CloseSend()
	if err := st.RecvMsg(vschema.NewMsg(vschema.Msg("vf.Chunk"))); err != io.EOF {
		t.Fatalf("want EOF got %v", err)
	}
	// websocket
	conn, err := wire.WSDial(ctx, "ws://"+srv.Addr+"/v1/ws/room1", nil)
	if err != nil {
		t.Fatal(err)
	}
	if err := wsutil.WriteClientText(conn, []byte(`{"text":"hi"}`)); err != nil {
		t.Fatal(err)
	}
	msg, err := wsutil.ReadServerText(conn)
	t.Logf("ws: %s %v", msg, err)
	conn.Close()
	// h2c raw client
	resp, err := wire.H2CClient().Post(srv.URL+"/v1/echo", "application/json", bytes.NewReader([]byte(`{"id":"h2"}`)))
	if err != nil {
		t.Fatal(err)
	}
	bb, _ := io.ReadAll(resp.Body)
	t.Logf("h2c: %d %s proto=%s", resp.StatusCode, bb, resp.Proto)
	if srv.ErrLog() != "" {
		t.Logf("server log: %s", srv.ErrLog())
	}
}
