// Package wire holds transport helpers shared by the engines: scripted
// readers, frame encoders/decoders, in-process and socket clients.
package wire

import "io"

// ScriptReader delivers Data following Cuts (sizes of successive reads; once
// the cuts are used up the remainder is delivered in one read). A read never
// returns more than len(p); the rest of the chunk is kept for the next call.
// With EOFWithData the last bytes are returned together with io.EOF, which is
// what net/http's HTTP/1 Content-Length body does.
type ScriptReader struct {
	Data        []byte
	Cuts        []int
	EOFWithData bool
	// TruncErr, if non-nil, is returned instead of io.EOF at the end.
	TruncErr error

	pos, ci, left int
	Delivered     int
	Reads         int
	EOFs          int
}

func (s *ScriptReader) end() error {
	s.EOFs++
	if s.TruncErr != nil {
		return s.TruncErr
	}
	return io.EOF
}

func (s *ScriptReader) Read(p []byte) (int, error) {
	s.Reads++
	if s.pos >= len(s.Data) {
		return 0, s.end()
	}
	if len(p) == 0 {
		return 0, nil
	}
	if s.left == 0 {
		if s.ci < len(s.Cuts) {
			s.left = s.Cuts[s.ci]
			s.ci++
		} else {
			s.left = len(s.Data) - s.pos
		}
		if s.left < 0 {
			// a negative cut is an EMPTY read: (0, nil), which io.Reader
			// allows and callers must treat as "nothing happened"
			s.left = 0
			return 0, nil
		}
		if s.left <= 0 {
			s.left = 1
		}
	}
	n := s.left
	if n > len(p) {
		n = len(p)
	}
	if n > len(s.Data)-s.pos {
		n = len(s.Data) - s.pos
	}
	copy(p, s.Data[s.pos:s.pos+n])
	s.pos += n
	s.left -= n
	s.Delivered += n
	if s.pos == len(s.Data) && s.EOFWithData {
		return n, s.end()
	}
	return n, nil
}

// Partitions calls f with every composition of n (all 2^(n-1) ways to cut n
// bytes into successive non-empty reads).
func Partitions(n int, f func(cuts []int)) {
	if n <= 0 {
		f(nil)
		return
	}
	for mask := 0; mask < 1<<(n-1); mask++ {
		var cuts []int
		run := 1
		for i := 0; i < n-1; i++ {
			if mask&(1<<i) != 0 {
				cuts = append(cuts, run)
				run = 1
			} else {
				run++
			}
		}
		cuts = append(cuts, run)
		f(cuts)
	}
}
