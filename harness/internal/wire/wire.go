package wire

import (
	"bytes"
	"compress/gzip"
	"context"
	"crypto/tls"
	"encoding/base64"
	"encoding/binary"
	"fmt"
	"io"
	"log"
	"net"
	"net/http"
	"net/http/httptest"
	"net/url"
	"strconv"
	"strings"
	"sync"
	"time"

	"github.com/gobwas/ws"
	"golang.org/x/net/http2"
	"golang.org/x/net/http2/h2c"
	"google.golang.org/grpc"
	"google.golang.org/grpc/credentials/insecure"
	"larking.io/larking"

	"verif/internal/mon"
)

// ---------------------------------------------------------------- frames

// Frame builds a gRPC length-prefixed message.
func Frame(payload []byte, compressed bool) []byte {
	flag := byte(0)
	if compressed {
		flag = 1
	}
	return FrameRaw(flag, uint32(len(payload)), payload)
}

// FrameRaw builds a frame with an arbitrary flag and declared length.
func FrameRaw(flag byte, length uint32, payload []byte) []byte {
	b := make([]byte, 5, 5+len(payload))
	b[0] = flag
	binary.BigEndian.PutUint32(b[1:], length)
	return append(b, payload...)
}

// GFrame is a parsed gRPC / gRPC-web frame.
type GFrame struct {
	Flag byte
	Data []byte
}

func (f GFrame) Trailer() bool    { return f.Flag&0x80 != 0 }
func (f GFrame) Compressed() bool { return f.Flag&0x01 != 0 }

// ParseFrames splits a body into frames. rest holds trailing bytes that do
// not form a complete frame.
func ParseFrames(b []byte) (frames []GFrame, rest []byte) {
	for len(b) >= 5 {
		n := int(binary.BigEndian.Uint32(b[1:5]))
		if n < 0 || len(b)-5 < n {
			break
		}
		frames = append(frames, GFrame{Flag: b[0], Data: append([]byte(nil), b[5:5+n]...)})
		b = b[5+n:]
	}
	return frames, b
}

// ParseWebTrailer parses the payload of a gRPC-web trailer frame
// ("key: value\r\n" lines, keys lower-cased as sent).
func ParseWebTrailer(data []byte) map[string][]string {
	out := map[string][]string{}
	for _, line := range strings.Split(string(data), "\r\n") {
		if line == "" {
			continue
		}
		k, v, ok := strings.Cut(line, ":")
		if !ok {
			out["?malformed"] = append(out["?malformed"], line)
			continue
		}
		out[k] = append(out[k], strings.TrimPrefix(v, " "))
	}
	return out
}

// DecodeGrpcMessage percent-decodes a grpc-message value as PROTOCOL-HTTP2
// prescribes (invalid escapes are kept verbatim).
func DecodeGrpcMessage(s string) string {
	var sb strings.Builder
	for i := 0; i < len(s); i++ {
		if s[i] == '%' && i+3 <= len(s) {
			if v, err := strconv.ParseUint(s[i+1:i+3], 16, 8); err == nil {
				sb.WriteByte(byte(v))
				i += 2
				continue
			}
		}
		sb.WriteByte(s[i])
	}
	return sb.String()
}

func Gzip(b []byte) []byte {
	var buf bytes.Buffer
	w := gzip.NewWriter(&buf)
	w.Write(b)
	w.Close()
	return buf.Bytes()
}

func Gunzip(b []byte) ([]byte, error) {
	r, err := gzip.NewReader(bytes.NewReader(b))
	if err != nil {
		return nil, err
	}
	return io.ReadAll(r)
}

// DecodeBin decodes a "-bin" header value (padded or unpadded base64).
func DecodeBin(v string) ([]byte, error) {
	if len(v)%4 == 0 {
		if b, err := base64.StdEncoding.DecodeString(v); err == nil {
			return b, nil
		}
	}
	return base64.RawStdEncoding.DecodeString(v)
}

// ------------------------------------------------------------ in-process

// Resp is the result of serving one request in-process, as a client of a
// real net/http server would see it (httptest.ResponseRecorder.Result
// applies net/http's header-snapshot and trailer rules).
type Resp struct {
	Code    int
	Header  http.Header // headers as sent with the status line
	Trailer http.Header // announced / prefixed trailers
	Live    http.Header // the handler's header map at return (diagnostics only)
	Body    []byte
	Panic   *mon.PanicInfo
	Wedged  bool
	Dump    string
	Flushed bool
}

// NewRequest builds a server-side request without any URL parsing: path and
// rawQuery are used verbatim. contentLength -1 means unknown (chunked).
func NewRequest(method, path, rawQuery string, hdr http.Header, body io.Reader, contentLength int64) *http.Request {
	req := &http.Request{
		Method:        method,
		URL:           &url.URL{Path: path, RawQuery: rawQuery},
		Proto:         "HTTP/1.1",
		ProtoMajor:    1,
		ProtoMinor:    1,
		Header:        http.Header{},
		Host:          "verif.test",
		RemoteAddr:    "192.0.2.1:1234",
		RequestURI:    path,
		ContentLength: contentLength,
	}
	for k, v := range hdr {
		req.Header[http.CanonicalHeaderKey(k)] = append([]string(nil), v...)
	}
	if body == nil {
		req.Body = http.NoBody
		req.ContentLength = 0
	} else if rc, ok := body.(io.ReadCloser); ok {
		req.Body = rc
	} else {
		req.Body = io.NopCloser(body)
	}
	return req.WithContext(context.Background())
}

// BodyRequest is NewRequest with an in-memory body and exact Content-Length.
func BodyRequest(method, path, rawQuery string, hdr http.Header, body []byte) *http.Request {
	if body == nil {
		return NewRequest(method, path, rawQuery, hdr, nil, 0)
	}
	return NewRequest(method, path, rawQuery, hdr, bytes.NewReader(body), int64(len(body)))
}

// GRPCRequest builds an in-process gRPC request (HTTP/2 semantics) for a
// full method name with an already framed body.
func GRPCRequest(fullMethod string, hdr http.Header, body io.Reader) *http.Request {
	h := http.Header{"Content-Type": {"application/grpc"}, "Te": {"trailers"}}
	for k, v := range hdr {
		h[http.CanonicalHeaderKey(k)] = v
	}
	req := NewRequest("POST", fullMethod, "", h, body, -1)
	if body == nil {
		req.Body = io.NopCloser(bytes.NewReader(nil))
		req.ContentLength = -1
	}
	req.Proto, req.ProtoMajor, req.ProtoMinor = "HTTP/2.0", 2, 0
	return req
}

// WebRequest builds an in-process gRPC-web request; text selects
// application/grpc-web-text (the body is base64-encoded here).
func WebRequest(fullMethod string, hdr http.Header, framed []byte, text bool, enc string) *http.Request {
	ct := "application/grpc-web"
	body := framed
	if text {
		ct = "application/grpc-web-text"
		body = []byte(base64.StdEncoding.EncodeToString(framed))
	}
	if enc != "" {
		ct += "+" + enc
	}
	h := http.Header{"Content-Type": {ct}}
	for k, v := range hdr {
		h[http.CanonicalHeaderKey(k)] = v
	}
	return BodyRequest("POST", fullMethod, "", h, body)
}

// WedgeTimeout is the watchdog for in-process requests (all input comes from
// memory; observed service times are microseconds to milliseconds).
var WedgeTimeout = 20 * time.Second

// Serve runs the handler on the request under recover() and a watchdog.
func Serve(h http.Handler, req *http.Request) *Resp {
	rec := httptest.NewRecorder()
	out := &Resp{}
	done, pi, dump := mon.Timed(WedgeTimeout, func() { h.ServeHTTP(rec, req) })
	if !done {
		out.Wedged = true
		out.Dump = dump
		return out
	}
	out.Panic = pi
	res := rec.Result()
	out.Code = res.StatusCode
	out.Header = res.Header
	out.Trailer = res.Trailer
	out.Live = rec.Header()
	out.Body = rec.Body.Bytes()
	out.Flushed = rec.Flushed
	return out
}

// GRPCStatus extracts grpc-status / grpc-message / details from trailers (or
// from headers for Trailers-Only responses).
func (r *Resp) GRPCStatus() (code int, msg string, details string, ok bool) {
	for _, h := range []http.Header{r.Trailer, r.Header} {
		if v := h.Get("Grpc-Status"); v != "" {
			c, err := strconv.Atoi(v)
			if err != nil {
				return -1, "", "", false
			}
			return c, DecodeGrpcMessage(h.Get("Grpc-Message")), h.Get("Grpc-Status-Details-Bin"), true
		}
	}
	return -1, "", "", false
}

// WebResult decodes a gRPC-web response body (binary or text mode) into data
// frames and the trailer frame.
type WebResult struct {
	Msgs      [][]byte
	Flags     []byte
	Trailer   map[string][]string
	HasTrail  bool
	Rest      []byte
	DecodeErr error
}

func DecodeWeb(body []byte, text bool) WebResult {
	var wr WebResult
	if text {
		// the stream may be a concatenation of padded base64 chunks
		dec, err := decodeBase64Chunks(body)
		if err != nil {
			wr.DecodeErr = err
		}
		body = dec
	}
	frames, rest := ParseFrames(body)
	wr.Rest = rest
	for _, f := range frames {
		if f.Trailer() {
			wr.HasTrail = true
			wr.Trailer = ParseWebTrailer(f.Data)
			continue
		}
		wr.Msgs = append(wr.Msgs, f.Data)
		wr.Flags = append(wr.Flags, f.Flag)
	}
	return wr
}

func decodeBase64Chunks(b []byte) ([]byte, error) {
	var out []byte
	s := string(b)
	for len(s) > 0 {
		// a chunk ends at the first padding run or at the end
		end := len(s)
		if i := strings.IndexByte(s, '='); i >= 0 {
			end = i
			for end < len(s) && s[end] == '=' {
				end++
			}
		}
		chunk := s[:end]
		s = s[end:]
		d, err := base64.StdEncoding.DecodeString(chunk)
		if err != nil {
			d2, err2 := base64.RawStdEncoding.DecodeString(strings.TrimRight(chunk, "="))
			if err2 != nil {
				return append(out, d...), fmt.Errorf("base64: %v", err)
			}
			// unpadded but otherwise valid tail: report as truncated
			return append(out, d2...), fmt.Errorf("base64 stream not padded/closed: %v", err)
		}
		out = append(out, d...)
	}
	return out, nil
}

// ------------------------------------------------------------ real server

type syncBuf struct {
	mu sync.Mutex
	b  bytes.Buffer
}

func (s *syncBuf) Write(p []byte) (int, error) {
	s.mu.Lock()
	defer s.mu.Unlock()
	return s.b.Write(p)
}

func (s *syncBuf) String() string {
	s.mu.Lock()
	defer s.mu.Unlock()
	return s.b.String()
}

// Server is an h2c-capable HTTP server on a loopback listener.
type Server struct {
	Addr   string
	URL    string
	srv    *http.Server
	ln     net.Listener
	errlog *syncBuf
}

// ErrLog returns what the http.Server logged ("http: panic serving ...").
func (s *Server) ErrLog() string { return s.errlog.String() }

func (s *Server) Close() {
	s.srv.Close()
	s.ln.Close()
}

func start(hs *http.Server, wrap func(net.Listener) net.Listener) (*Server, error) {
	ln, err := net.Listen("tcp", "127.0.0.1:0")
	if err != nil {
		return nil, err
	}
	s := &Server{Addr: ln.Addr().String(), srv: hs, ln: ln, errlog: &syncBuf{}}
	s.URL = "http://" + s.Addr
	hs.ErrorLog = log.New(s.errlog, "", 0)
	l := ln
	if wrap != nil {
		l = wrap(ln)
	}
	go hs.Serve(l)
	return s, nil
}

// StartH2C serves any handler with HTTP/1.1 and h2c.
func StartH2C(h http.Handler, wrap func(net.Listener) net.Listener) (*Server, error) {
	h2s := &http2.Server{}
	hs := &http.Server{Handler: h2c.NewHandler(h, h2s), ReadHeaderTimeout: 10 * time.Second}
	return start(hs, wrap)
}

// StartLarking serves a mux through larking.NewServer (the real wiring).
func StartLarking(mux *larking.Mux, wrap func(net.Listener) net.Listener, opts ...larking.ServerOption) (*Server, error) {
	hs, err := larking.NewServer(mux, opts...)
	if err != nil {
		return nil, err
	}
	return start(hs, wrap)
}

// Dial opens an insecure grpc-go client connection.
func Dial(addr string, opts ...grpc.DialOption) (*grpc.ClientConn, error) {
	opts = append([]grpc.DialOption{grpc.WithTransportCredentials(insecure.NewCredentials())}, opts...)
	return grpc.NewClient("passthrough:///"+addr, opts...)
}

// H2CClient is an HTTP client speaking prior-knowledge h2c (one DATA frame
// per body write when the body is an io.Pipe).
func H2CClient() *http.Client {
	return &http.Client{Transport: &http2.Transport{
		AllowHTTP: true,
		DialTLSContext: func(ctx context.Context, network, addr string, _ *tls.Config) (net.Conn, error) {
			var d net.Dialer
			return d.DialContext(ctx, network, addr)
		},
	}}
}

// H1Client is a plain HTTP/1.1 client without connection reuse surprises.
func H1Client() *http.Client {
	return &http.Client{Transport: &http.Transport{DisableCompression: true, MaxIdleConnsPerHost: 4}}
}

// ------------------------------------------------- fragmenting listener

// FragListener wraps accepted connections so that every Read returns at most
// Max bytes (the server sees the request bytes in tiny pieces).
type FragListener struct {
	net.Listener
	Max int
}

func (l FragListener) Accept() (net.Conn, error) {
	c, err := l.Listener.Accept()
	if err != nil {
		return nil, err
	}
	return fragConn{c, l.Max}, nil
}

type fragConn struct {
	net.Conn
	max int
}

func (c fragConn) Read(p []byte) (int, error) {
	if len(p) > c.max {
		p = p[:c.max]
	}
	return c.Conn.Read(p)
}

// Frag returns a listener wrapper for StartH2C / StartLarking.
func Frag(max int) func(net.Listener) net.Listener {
	return func(l net.Listener) net.Listener { return FragListener{l, max} }
}

// ------------------------------------------------------------ websocket

type wsConn struct {
	net.Conn
	r io.Reader
}

func (c wsConn) Read(p []byte) (int, error) { return c.r.Read(p) }

// WSDial opens a client WebSocket connection. gobwas/ws.Dial may have read
// the first server frames together with the handshake response into a
// bufio.Reader; the returned conn drains that buffer first (ignoring it makes
// the client parse garbage: "use of reserved op code").
func WSDial(ctx context.Context, urlStr string, hdr http.Header) (net.Conn, error) {
	d := ws.Dialer{}
	if hdr != nil {
		d.Header = ws.HandshakeHeaderHTTP(hdr)
	}
	conn, br, _, err := d.Dial(ctx, urlStr)
	if err != nil {
		return nil, err
	}
	if br == nil {
		return conn, nil
	}
	n := br.Buffered()
	buf := make([]byte, n)
	io.ReadFull(br, buf)
	ws.PutReader(br)
	return wsConn{Conn: conn, r: io.MultiReader(bytes.NewReader(buf), conn)}, nil
}
