// vcheck runs one property check: vcheck <ID> [quick|thorough] [--replay file]
package main

import (
	"encoding/json"
	"fmt"
	"os"

	"verif/engines/mount"
	"verif/internal/mon"
)

type entry struct {
	engine string
	level  string
	run    func(*mon.Run)
	replay func(*mon.Run, json.RawMessage)
}

var registry = map[string]entry{
	"C20": {"mount", "exploration", mount.Run, mount.Replay},
}

func main() {
	if len(os.Args) < 2 {
		fmt.Fprintln(os.Stderr, "usage: vcheck <ID> [quick|thorough] [--replay file]")
		os.Exit(4)
	}
	id := os.Args[1]
	e, ok := registry[id]
	if !ok {
		fmt.Fprintf(os.Stderr, "unknown property %s\n", id)
		os.Exit(4)
	}
	tier := ""
	replay := ""
	for i := 2; i < len(os.Args); i++ {
		switch a := os.Args[i]; a {
		case "quick", "thorough":
			tier = a
		case "--replay":
			if i+1 < len(os.Args) {
				replay = os.Args[i+1]
				i++
			}
		}
	}
	r := mon.New(id, e.engine, e.level, tier)
	if replay != "" {
		r.ReplayMode = true
		b, err := os.ReadFile(replay)
		if err != nil {
			fmt.Fprintln(os.Stderr, err)
			os.Exit(4)
		}
		var doc struct {
			Case json.RawMessage `json:"case"`
		}
		if err := json.Unmarshal(b, &doc); err != nil || e.replay == nil {
			fmt.Fprintln(os.Stderr, "replay not supported or bad file:", err)
			os.Exit(4)
		}
		r.Floor = 0
		e.replay(r, doc.Case)
		os.Exit(r.Finish())
	}
	e.run(r)
	os.Exit(r.Finish())
}
