// routedbg replays the rule set of a routing replay file in every recorded
// registration order and prints the raw outcomes (debugging aid).
package main

import (
	"encoding/json"
	"fmt"
	"os"

	"larking.io/larking"
	"verif/engines/route"
)

func main() {
	b, _ := os.ReadFile(os.Args[1])
	var doc struct {
		Case route.Case `json:"case"`
	}
	json.Unmarshal(b, &doc)
	c := doc.Case
	perms := c.Perms
	if len(perms) == 0 {
		perms = []route.Perm{c.RS.IdentityPerm()}
	}
	for i, perm := range perms {
		bt, err := route.Build(c.RS, perm)
		fmt.Println("perm", i, err, bt.RegErr, bt.RegPanic)
		if len(os.Args) > 2 {
			for _, l := range larking.VerifRoutes(larking.VerifSnapshot(bt.Mux)) {
				fmt.Println("   ", l)
			}
		}
		for _, rq := range c.Reqs {
			o := bt.Do(rq.Verb, rq.Path, "", nil)
			fmt.Println("  ", rq, "=>", o, o.Body)
		}
	}
}
